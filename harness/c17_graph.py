"""C17 helpers: object-graph specs, reflection of Python object graphs and of HDF5 files into the node
shape of the Lean model (lean/TenpyModel/C17/Graph.lean), canonical forms, and the independent oracle
(observational equality + identity structure) used for HDF5, pickle and deepcopy round trips.

Nothing in this module knows about the Lean model except the JSON node shape
    {"kind": leaf|list|tuple|set|dictS|dictG|inst|reduce|other, "info": str, "early": bool, "len": int,
     "kids": [[name, id], ...]}      name = int (entry of list/tuple/set) or str (link name)
"""
import collections
import hashlib
import io
import types
import warnings

import numpy as np


# --------------------------------------------------------------------------------------------
# classes used inside generated graphs (must be importable by tenpy.tools.hdf5_io.find_global)

from tenpy.tools import hdf5_io  # noqa: E402  (the tree under test: core.use_repo() ran before this import)


def _hdf5_io():
    return hdf5_io


class Plain(hdf5_io.Hdf5Exportable):
    """A user class following the Hdf5Exportable default implementation (`__dict__` saved as simple dict)."""


def plain_class():
    return Plain


class Obj:
    """A class without save_hdf5: saved through the pickle-protocol fallback (`__reduce__`)."""

    def __eq__(self, other):
        return type(other) is Obj and self.__dict__ == other.__dict__

    __hash__ = object.__hash__


def some_function(x):
    return x


GLOBALS = ['harness.c17_graph.some_function', 'harness.c17_graph.Obj', 'builtins.len', 'builtins.int',
           'tenpy.linalg.charges.LegCharge', 'tenpy.tools.misc.to_array']


def find_global(dotted):
    import importlib
    mod, _, name = dotted.rpartition('.')
    return getattr(importlib.import_module(mod), name)


# --------------------------------------------------------------------------------------------
# specs -> Python objects

MUTABLE = ('list', 'dict', 'plain', 'obj', 'odict', 'deque', 'ddict')


def build_leaf(nd):
    t = nd['t']
    if t == 'int':
        return int(nd['v'])
    if t == 'float':
        return float.fromhex(nd['v'])
    if t == 'complex':
        return complex(float.fromhex(nd['v'][0]), float.fromhex(nd['v'][1]))
    if t == 'str':
        return ''.join(chr(c) for c in nd['v'])  # fresh object (code points)
    if t == 'bytes':
        return bytes.fromhex(nd['v'])
    if t == 'none':
        return None
    if t == 'bool':
        return bool(nd['v'])
    if t == 'npscalar':
        dt = np.dtype(nd['dtype'])
        if dt.kind == 'c':
            return dt.type(complex(float.fromhex(nd['v'][0]), float.fromhex(nd['v'][1])))
        if dt.kind == 'f':
            return dt.type(float.fromhex(nd['v']))
        return dt.type(nd['v'])
    if t == 'ndarray':
        dt = np.dtype(nd['dtype'])
        if dt.kind == 'f':
            flat = [float.fromhex(x) for x in nd['v']]
        elif dt.kind == 'c':
            flat = [complex(float.fromhex(a), float.fromhex(b)) for a, b in nd['v']]
        else:
            flat = nd['v']
        return np.array(flat, dtype=dt).reshape(nd['shape'])
    if t == 'dtype':
        return np.dtype(nd['v'])
    if t == 'range':
        return range(*nd['v'])
    if t == 'global':
        return find_global(nd['v'])
    raise ValueError('unknown leaf ' + t)


def build(spec, zoo=None):
    """Build the objects of a spec {"nodes": [...], "root": i}. Returns list of objects (by node index).

    Immutable containers (tuple, set) may only refer to lower indices; mutable ones to any index."""
    nodes = spec['nodes']
    objs = [None] * len(nodes)
    built = [False] * len(nodes)
    for i, nd in enumerate(nodes):
        t = nd['t']
        if t == 'list':
            objs[i] = []
        elif t == 'dict':
            objs[i] = {}
        elif t == 'plain':
            objs[i] = plain_class()()
        elif t == 'obj':
            objs[i] = Obj()
        elif t == 'odict':
            objs[i] = collections.OrderedDict()
        elif t == 'deque':
            objs[i] = collections.deque()
        elif t == 'ddict':
            objs[i] = collections.defaultdict(list)
        elif t == 'tuple':
            assert all(k < i for k in nd['kids'])
            objs[i] = tuple(objs[k] for k in nd['kids'])
        elif t == 'set':
            assert all(k < i for k in nd['kids'])
            objs[i] = set(objs[k] for k in nd['kids'])
        elif t == 'zoo':
            objs[i] = zoo(nd)
        else:
            objs[i] = build_leaf(nd)
        built[i] = True
    for i, nd in enumerate(nodes):
        t = nd['t']
        if t in ('list', 'deque'):
            for k in nd['kids']:
                objs[i].append(objs[k])
        elif t in ('dict', 'odict', 'ddict'):
            for k, v in zip(nd['keys'], nd['vals']):
                assert k < i or nodes[k]['t'] not in MUTABLE
                objs[i][objs[k]] = objs[v]
        elif t in ('plain', 'obj'):
            for name, v in nd['fields']:
                setattr(objs[i], name, objs[v])
    return objs


# --------------------------------------------------------------------------------------------
# digests of leaf values

def digest(v):
    if v is None:
        return 'None'
    if isinstance(v, (bool, np.bool_)):
        return 'b:%d' % bool(v)
    if isinstance(v, (int, np.integer)):
        return 'i:%d' % int(v)
    if isinstance(v, (float, np.floating)):
        return 'f:' + float(v).hex()
    if isinstance(v, (complex, np.complexfloating)):
        return 'c:' + float(v.real).hex() + ',' + float(v.imag).hex()
    if isinstance(v, str):
        return 's:' + v
    if isinstance(v, bytes):
        return 'y:' + v.hex()
    if isinstance(v, np.ndarray):
        a = np.ascontiguousarray(v)
        return 'a:%s:%s:%s' % (a.dtype.str, list(a.shape), hashlib.sha1(a.tobytes()).hexdigest()[:16])
    if isinstance(v, (types.FunctionType, types.BuiltinFunctionType, type)):
        return 'g:' + v.__qualname__ + ' in ' + v.__module__
    return 'r:' + repr(v)


# --------------------------------------------------------------------------------------------
# tracing saver / loader (reflection of what each class's save_hdf5 / from_hdf5 does)

def tracing_saver_class():
    hdf5_io = _hdf5_io()

    class TracingSaver(hdf5_io.Hdf5Saver):
        def __init__(self, h5group, format_selection=None):
            super().__init__(h5group, format_selection)
            self.trace = []  # (path, obj, forced_repr)

        def save(self, obj, path='/'):
            self.trace.append((path, obj, None))
            return super().save(obj, path)

        def save_iterable(self, obj, path, type_repr):
            # direct calls only (save_dict_content for general keys); the dispatch table holds the base function
            self.trace.append((path, obj, type_repr))
            return super().save_iterable(obj, path, type_repr)

    return TracingSaver


def tracing_loader_class():
    hdf5_io = _hdf5_io()

    class TracingLoader(hdf5_io.Hdf5Loader):
        def __init__(self, *a, **kw):
            self.events = []
            super().__init__(*a, **kw)

        def load(self, path=None):
            self.events.append(('load', path if path is not None else self.h5group.name))
            return super().load(path)

        def memorize_load(self, h5gr, obj):
            self.events.append(('memo', h5gr.name))
            return super().memorize_load(h5gr, obj)

    return TracingLoader


def early_map(events):
    """group path -> did `memorize_load(group)` happen before the first `load` of something below it?"""
    first_memo, first_child = {}, {}
    for n, (kind, path) in enumerate(events):
        p = path.rstrip('/') or '/'
        if kind == 'memo':
            first_memo.setdefault(p, n)
        else:
            parent = p.rsplit('/', 1)[0] or '/'
            first_child.setdefault(parent, n)
    out = {}
    for p, n in first_memo.items():
        out[p] = n < first_child.get(p, 10 ** 12)
    return out


def valid_component(k):
    return isinstance(k, str) and '/' not in k and k != '.'


LEAF_TYPES = None


def leaf_repr(obj):
    """type_repr the saver uses for dataset-like objects, else None."""
    hdf5_io = _hdf5_io()
    global LEAF_TYPES
    if LEAF_TYPES is None:
        LEAF_TYPES = {t: r for t, r in hdf5_io.TYPES_FOR_HDF5_DATASETS}
        LEAF_TYPES[type(None)] = hdf5_io.REPR_NONE
        LEAF_TYPES[types.FunctionType] = hdf5_io.REPR_FUNCTION
        LEAF_TYPES[types.BuiltinFunctionType] = hdf5_io.REPR_FUNCTION
        LEAF_TYPES[type] = hdf5_io.REPR_CLASS
    r = LEAF_TYPES.get(type(obj))
    if r == hdf5_io.REPR_INT and not (-2 ** 63 <= obj < 2 ** 64):
        r = hdf5_io.REPR_INT_AS_STR
    return r


class Reflect:
    """Reflect a Python object graph into model nodes, using own traversal for the builtin containers and the
    saver's trace for what class instances / reduce fallbacks hand to `saver.save`."""

    def __init__(self, trace, early=None):
        self.nodes = []
        self.objs = []  # keep alive
        self.ids = {}
        self.early = early or {}
        self.first_path = {}
        self.children = collections.defaultdict(list)  # group path -> [(name, obj, forced)]
        for path, obj, forced in trace:
            p = path.rstrip('/') or '/'
            self.first_path.setdefault(id(obj), p)
            if p != '/':
                parent, name = p.rsplit('/', 1)
                self.children[parent or '/'].append((name, obj, forced))
        self.unsupported = []

    def new(self, obj, kind, info='', early=True, length=0):
        i = len(self.nodes)
        self.ids[id(obj)] = i
        self.objs.append(obj)
        self.nodes.append({'kind': kind, 'info': info, 'early': bool(early), 'len': length, 'kids': []})
        return i

    def synth_list(self, elems):
        holder = object()
        i = self.new(holder, 'list', length=len(elems))
        self.nodes[i]['kids'] = [[n, self.visit(e)] for n, e in enumerate(elems)]
        return i

    def traced_kids(self, obj):
        p = self.first_path.get(id(obj))
        if p is None:
            self.unsupported.append('object %r never passed to saver.save' % type(obj))
            return []
        seen, out = set(), []
        for name, child, forced in self.children.get(p, []):
            if name in seen:
                continue
            seen.add(name)
            out.append((name, child, forced))
        return out

    def visit(self, obj, forced=None):
        i = self.ids.get(id(obj))
        if i is not None:
            return i
        hdf5_io = _hdf5_io()
        t = type(obj)
        if forced is not None:  # save_iterable(keys/values, ..., REPR_LIST): a view saved as a list
            i = self.new(obj, 'list', length=len(obj))
            self.nodes[i]['kids'] = [[n, self.visit(e)] for n, e in enumerate(obj)]
            return i
        r = leaf_repr(obj)
        if r == hdf5_io.REPR_INT_AS_STR:
            # save_dataset memoises the converted *str*, not the int: every reference to an int beyond 64 bit is
            # written as its own dataset (harmless: immutable).  Reflected as a value, not as a shared object.
            i = self.new(object(), 'leaf', info=r + '|' + digest(obj))
            return i
        if r is not None:
            return self.new(obj, 'leaf', info=r + '|' + digest(obj))
        if t in (list, tuple, set):
            i = self.new(obj, {list: 'list', tuple: 'tuple', set: 'set'}[t], length=len(obj))
            self.nodes[i]['kids'] = [[n, self.visit(e)] for n, e in enumerate(obj)]
            return i
        if t is dict:
            return self.visit_dict(obj, obj)
        if t is range:
            i = self.new(obj, 'other', info='range')
            self.nodes[i]['kids'] = [['start', self.visit(obj.start)], ['stop', self.visit(obj.stop)],
                                     ['step', self.visit(obj.step)]]
            return i
        if isinstance(obj, np.dtype):
            i = self.new(obj, 'other', info='dtype|' + getattr(obj, 'name', 'void'))
            self.nodes[i]['kids'] = [[n, self.visit(c, f)] for n, c, f in self.traced_kids(obj)]
            return i
        if getattr(obj, 'save_hdf5', None) is not None:
            p = self.first_path.get(id(obj))
            i = self.new(obj, 'inst', info=t.__module__ + '.' + t.__qualname__, early=self.early.get(p, True))
            self.nodes[i]['kids'] = [[n, self.visit(c, f)] for n, c, f in self.traced_kids(obj)]
            return i
        if t in (np.ma.MaskedArray,) or t is hdf5_io.Hdf5Ignored:
            self.unsupported.append(repr(t))
            return self.new(obj, 'leaf', info='unsupported')
        # pickle-protocol fallback
        i = self.new(obj, 'reduce', info='')
        self.nodes[i]['kids'] = [[n, self.visit(c, f)] for n, c, f in self.traced_kids(obj)]
        return i

    def visit_dict(self, holder, d):
        if all(valid_component(k) for k in d.keys()):
            i = self.new(holder, 'dictS')
            self.nodes[i]['kids'] = [[k, self.visit(v)] for k, v in d.items()]
        else:
            i = self.new(holder, 'dictG')
            self.nodes[i]['kids'] = [['keys', self.synth_list(list(d.keys()))],
                                     ['values', self.synth_list(list(d.values()))]]
        return i


def reflect_plain(root):
    """Reflection without any trace: builtin containers, leaves, `Plain` instances (default Hdf5Exportable:
    fields = __dict__) and `Obj` (reduce: not supported here). Used for loaded objects."""
    R = Reflect([])
    plain = plain_class()

    def traced(obj):
        if type(obj) is plain:
            return [(k, v, None) for k, v in obj.__dict__.items()]
        R.unsupported.append(repr(type(obj)))
        return []

    R.traced_kids = traced
    r = R.visit(root)
    return R, r


# --------------------------------------------------------------------------------------------
# reflection of an HDF5 file

KIND_OF_REPR = None


def file_graph(h5file, root='/'):
    """Walk the file from `root`; nodes identified by h5py object id (hard links share one)."""
    import h5py
    hdf5_io = _hdf5_io()
    global KIND_OF_REPR
    if KIND_OF_REPR is None:
        KIND_OF_REPR = {hdf5_io.REPR_LIST: 'list', hdf5_io.REPR_TUPLE: 'tuple', hdf5_io.REPR_SET: 'set',
                        hdf5_io.REPR_DICT_SIMPLE: 'dictS', hdf5_io.REPR_DICT_GENERAL: 'dictG',
                        hdf5_io.REPR_HDF5EXPORTABLE: 'inst', hdf5_io.REPR_REDUCE: 'reduce',
                        hdf5_io.REPR_RANGE: 'other', hdf5_io.REPR_DTYPE: 'other'}
    load_types = {r: t for t, r in hdf5_io.TYPES_FOR_HDF5_DATASETS}
    nodes, ids = [], {}

    def attr(o, name, default=None):
        v = o.attrs.get(name, default)
        return v.decode() if isinstance(v, bytes) else v

    def visit(o):
        key = o.id
        if key in ids:
            return ids[key]
        i = len(nodes)
        ids[key] = i
        ty = attr(o, 'type')
        nd = {'kind': None, 'info': '', 'early': True, 'len': 0, 'kids': []}
        nodes.append(nd)
        if isinstance(o, h5py.Dataset):
            nd['kind'] = 'leaf'
            if ty == hdf5_io.REPR_NONE:
                val = None
            elif ty in (hdf5_io.REPR_STR,):
                val = o.asstr()[()]
            elif ty == hdf5_io.REPR_INT_AS_STR:
                val = int(o.asstr()[()])
            elif ty in (hdf5_io.REPR_FUNCTION, hdf5_io.REPR_CLASS, hdf5_io.REPR_GLOBAL):
                val = None
                nd['info'] = ty + '|g:' + o.asstr()[()]
            elif ty == hdf5_io.REPR_ARRAY:
                val = o[...]
            elif ty in load_types:
                val = load_types[ty](o[()])
            else:
                val = None
                nd['info'] = str(ty) + '|?'
            if not nd['info']:
                nd['info'] = str(ty) + '|' + digest(val)
            return i
        kind = KIND_OF_REPR.get(ty, 'other?' + str(ty))
        nd['kind'] = kind
        if kind in ('list', 'tuple', 'set'):
            nd['len'] = int(attr(o, 'len', -1))
        elif kind == 'inst':
            nd['info'] = '%s.%s' % (attr(o, 'module'), attr(o, 'class'))
        elif ty == hdf5_io.REPR_RANGE:
            nd['info'] = 'range'
        elif ty == hdf5_io.REPR_DTYPE:
            nd['info'] = 'dtype|' + str(attr(o, 'name'))
        for name in o.keys():
            nd['kids'].append([name, visit(o[name])])
        return i

    r = visit(h5file[root])
    return nodes, r


# --------------------------------------------------------------------------------------------
# canonical forms

SCALAR_PREFIX = ('None', 'int|', 'int_as_str|', 'float|', 'str|', 'bytes|', 'complex|', 'bool|', 'np.', 'function|',
                 'class|', 'global|')


def canonical(nodes, root, inline_scalars=False, ignore_early=True, sort_sets=False):
    """Renumber by first visit in a DFS that follows children in sorted-name order; children as sorted
    [name, id] with names as strings. With inline_scalars, every reference to a scalar leaf becomes its own
    node (identity of interned immutables is not observable)."""
    order, new = [], {}
    out = []

    def is_scalar(nd):
        return nd['kind'] == 'leaf' and not nd['info'].startswith('array|')

    skeys = {}

    def skey(i, depth=0):
        """structural key of an (immutable, acyclic) set element"""
        if i in skeys:
            return skeys[i]
        nd = nodes[i]
        if depth > 50:
            return (nd['kind'], nd['info'])
        k = (nd['kind'], nd['info'], tuple((str(n), skey(c, depth + 1)) for n, c in nd['kids']))
        skeys[i] = k
        return k

    def visit(i):
        nd = nodes[i]
        if inline_scalars and is_scalar(nd):
            j = len(out)
            out.append({'kind': 'leaf', 'info': nd['info'], 'len': 0, 'kids': []})
            return j
        if i in new:
            return new[i]
        j = len(out)
        new[i] = j
        rec = {'kind': nd['kind'], 'info': nd['info'], 'len': nd['len'], 'kids': None}
        if not ignore_early:
            rec['early'] = nd['early']
        out.append(rec)
        if sort_sets and nd['kind'] == 'set':
            kids = [(str(n), c) for n, (_, c) in enumerate(sorted(nd['kids'], key=lambda x: repr(skey(x[1]))))]
        else:
            kids = sorted(((str(n), c) for n, c in nd['kids']), key=lambda x: x[0])
        rec['kids'] = [[n, visit(c)] for n, c in kids]
        return j

    import sys
    old = sys.getrecursionlimit()
    sys.setrecursionlimit(max(old, 10000))
    try:
        r = visit(root)
    finally:
        sys.setrecursionlimit(old)
    return {'nodes': out, 'root': r}


def first_graph_diff(a, b):
    if a == b:
        return None
    if a['root'] != b['root']:
        return 'root %s vs %s' % (a['root'], b['root'])
    for i, (x, y) in enumerate(zip(a['nodes'], b['nodes'])):
        if x != y:
            return 'node %d: %s vs %s' % (i, x, y)
    return 'node count %d vs %d' % (len(a['nodes']), len(b['nodes']))


# --------------------------------------------------------------------------------------------
# the independent oracle: observational equality + identity structure

IMMUTABLE_SCALARS = (int, float, complex, str, bytes, bool, type(None), np.generic, np.dtype, range, type,
                     types.FunctionType, types.BuiltinFunctionType, types.MethodType, frozenset)

# attributes that are legitimately not part of the saved state, with the reason
IGNORED_ATTRS = {
    # lazily evaluated caches, reset to None by the property setters that from_hdf5 runs; what they cache is
    # compared through the public accessors in OBSERVERS below
    'tenpy.models.lattice.Lattice': ('_mps_sites_cache', '_BZ', '_reciprocal_basis'),
    # harness class: the recipe for its own __reduce__ value, not part of the state
    'harness.c17_api.Red': ('_proto',),
}

# public accessors compared in addition to __dict__ (both sides evaluated; skipped when the original raises)
OBSERVERS = {
    'tenpy.models.lattice.Lattice': (('mps_sites()', lambda o: o.mps_sites()),
                                     ('reciprocal_basis', lambda o: o.reciprocal_basis),
                                     ('BZ', lambda o: o.BZ)),
}


class Compare:
    """Structural comparison of `a` (original) and `b` (copy).  Collects differences as (path, what).
    Identity: the correspondence a-object <-> b-object must be one-to-one for mutable objects and arrays
    (checked in both directions), and functional for tuples."""

    def __init__(self, lenient_scalars_in_instances=True, max_diffs=5, leg_mode='exact', identity_ids=None):
        self.diffs = []
        self.pairs = {}  # id(a) -> id(b)
        self.rpairs = {}  # id(b) -> id(a)
        self.keep = []
        self.max_diffs = max_diffs
        self.lenient = lenient_scalars_in_instances
        self.leg_mode = leg_mode
        self.sanity_checked = 0
        self._noid = 0
        self.noid_seen = set()
        # originals for which `shared before => shared after` is claimed (None: all). For HDF5 these are the
        # objects handed to the saver; e.g. the `compact` leg format writes a fresh hstack, not `leg.charges`.
        self.identity_ids = identity_ids

    def diff(self, path, what, owner='root'):
        if len(self.diffs) < self.max_diffs:
            self.diffs.append((path, what, owner))

    def run(self, a, b):
        import sys
        old = sys.getrecursionlimit()
        sys.setrecursionlimit(max(old, 10000))
        try:
            self.cmp(a, b, '', False, 'root')
        finally:
            sys.setrecursionlimit(old)
        return self.diffs

    def identity(self, a, b, path, both_ways, owner='root'):
        """returns True if this pair was seen before (stop descending)"""
        ia, ib = id(a), id(b)
        self.keep.append((a, b))
        if self._noid:  # values recomputed by an accessor: only guard against infinite recursion
            if (ia, ib) in self.noid_seen:
                return True
            self.noid_seen.add((ia, ib))
            return False
        if ia in self.pairs:
            if self.pairs[ia] != ib and (self.identity_ids is None or ia in self.identity_ids):
                self.diff(path, 'identity: object shared in the original is not shared in the copy (%s)' % type(a).__name__, owner=owner)
            return True
        if both_ways and ib in self.rpairs and self.rpairs[ib] != ia:
            self.diff(path, 'identity: distinct objects of the original are one object in the copy (%s)' % type(a).__name__, owner=owner)
            return True
        self.pairs[ia] = ib
        self.rpairs.setdefault(ib, ia)
        return False

    def scalar(self, a, b, path, in_inst, owner='root'):
        if in_inst and self.lenient:
            num = (int, float, complex, bool, np.number, np.bool_)
            if isinstance(a, num) and isinstance(b, num):
                ok = (a == b) or (a != a and b != b)
                if not ok:
                    self.diff(path, 'value %r vs %r' % (a, b), owner=owner)
                return
        if isinstance(a, (bool, np.bool_)) and isinstance(b, (bool, np.bool_)):
            # REPR_BOOL is shared by bool and np.bool_: an np.bool_ comes back as a Python bool (same value)
            if bool(a) != bool(b):
                self.diff(path, 'value %r vs %r' % (a, b), owner=owner)
            return
        if type(a) is not type(b):
            self.diff(path, 'type %s vs %s' % (type(a).__name__, type(b).__name__), owner=owner)
            return
        if isinstance(a, (float, np.floating, complex, np.complexfloating)):
            if not (a == b or (a != a and b != b)):
                self.diff(path, 'value %r vs %r' % (a, b), owner=owner)
        elif isinstance(a, (types.FunctionType, types.BuiltinFunctionType, type)):
            if a is not b:
                self.diff(path, 'global object not identical', owner=owner)
        elif isinstance(a, types.MethodType):
            if a.__func__ is not b.__func__:
                self.diff(path, 'bound method of a different function', owner=owner)
            self.cmp(a.__self__, b.__self__, path + '.__self__', in_inst, owner)
        elif a != b:
            self.diff(path, 'value %r vs %r' % (a, b), owner=owner)

    def cmp(self, a, b, path, in_inst, owner='root'):
        if len(self.diffs) >= self.max_diffs:
            return
        if isinstance(a, IMMUTABLE_SCALARS) or a is Ellipsis:
            return self.scalar(a, b, path, in_inst, owner)
        if isinstance(a, np.ndarray):
            if not isinstance(b, np.ndarray):
                return self.diff(path, 'type ndarray vs %s' % type(b).__name__, owner=owner)
            if type(a) is not type(b):
                return self.diff(path, 'type %s vs %s' % (type(a).__name__, type(b).__name__), owner=owner)
            if not in_inst and self.identity(a, b, path, True, owner):
                # (numpy buffers held by tenpy instances -- `leg.charges` shared by `leg.conj()` -- are an internal
                #  copy-on-write optimisation, not a reference the user holds: their identity is not compared)
                return
            if a.dtype != b.dtype and not (in_inst and a.dtype.kind == b.dtype.kind == 'i'):
                return self.diff(path, 'dtype %s vs %s' % (a.dtype, b.dtype), owner=owner)
            if a.shape != b.shape:
                return self.diff(path, 'shape %s vs %s' % (a.shape, b.shape), owner=owner)
            if a.dtype == object:
                for idx in np.ndindex(a.shape):
                    self.cmp(a[idx], b[idx], path + str(list(idx)), in_inst)
                return
            if isinstance(a, np.ma.MaskedArray):
                if not (np.array_equal(np.ma.getmaskarray(a), np.ma.getmaskarray(b))
                        and np.array_equal(a.filled(0), b.filled(0))):
                    self.diff(path, 'masked array differs', owner=owner)
                return
            eq = np.array_equal(a, b, equal_nan=a.dtype.kind in 'fc')
            if not eq:
                self.diff(path, 'array values differ', owner=owner)
            return
        if type(a) is not type(b):
            return self.diff(path, 'type %s vs %s' % (type(a).__name__, type(b).__name__), owner=owner)
        if isinstance(a, tuple):
            # (a tuple held as attribute of an instance -- `pipe.subshape` shared with `pipe.conj()` -- is an immutable
            #  value: like numpy buffers inside instances its identity is not compared; cycles need a mutable object,
            #  which is guarded below)
            if not in_inst and self.identity(a, b, path, False, owner):
                return
            if len(a) != len(b):
                return self.diff(path, 'len %d vs %d' % (len(a), len(b)), owner=owner)
            for i, (x, y) in enumerate(zip(a, b)):
                self.cmp(x, y, '%s[%d]' % (path, i), in_inst, owner)
            return
        if isinstance(a, (list, collections.deque)):
            if self.identity(a, b, path, True, owner):
                return
            if len(a) != len(b):
                return self.diff(path, 'len %d vs %d' % (len(a), len(b)), owner=owner)
            for i, (x, y) in enumerate(zip(a, b)):
                self.cmp(x, y, '%s[%d]' % (path, i), in_inst, owner)
            if isinstance(a, collections.deque) and a.maxlen != b.maxlen:
                self.diff(path, 'maxlen', owner=owner)
            return
        if isinstance(a, set):
            if self.identity(a, b, path, True, owner):
                return
            try:
                if a != b:
                    self.diff(path, 'set %r vs %r' % (sorted(map(repr, a))[:6], sorted(map(repr, b))[:6]), owner=owner)
            except Exception as e:  # noqa
                self.diff(path, 'set comparison raised %r' % e, owner=owner)
            return
        if isinstance(a, dict):
            if self.identity(a, b, path, True, owner):
                return
            ka, kb = list(a.keys()), list(b.keys())
            if len(ka) != len(kb):
                return self.diff(path, 'dict size %d vs %d' % (len(ka), len(kb)), owner=owner)
            try:
                keymap = {x: x for x in kb}
            except Exception:
                keymap = {}
            for k in ka:
                try:
                    present = k in b
                except Exception:
                    present = False
                if not present:
                    self.diff(path, 'key %r missing in copy' % (k,), owner=owner)
                    continue
                # key types matter too: 1 == 1.0 == True (bool / np.bool_ share REPR_BOOL)
                bk = keymap.get(k, k)
                both_bool = isinstance(k, (bool, np.bool_)) and isinstance(bk, (bool, np.bool_))
                if type(bk) is not type(k) and not both_bool:
                    self.diff(path, 'key type %s vs %s' % (type(k).__name__, type(bk).__name__), owner=owner)
                self.cmp(a[k], b[k], '%s[%r]' % (path, k), in_inst, owner)
            if isinstance(a, collections.defaultdict) and a.default_factory is not b.default_factory:
                self.diff(path, 'default_factory', owner=owner)
            if isinstance(a, collections.OrderedDict) and ka != kb:
                self.diff(path, 'OrderedDict key order', owner=owner)
            return
        if isinstance(a, np.random.Generator):
            if repr(a.bit_generator.state) != repr(b.bit_generator.state):
                self.diff(path, 'rng state', owner=owner)
            return
        # class instance
        if self.identity(a, b, path, True, owner):
            return
        cls = type(a)
        mode = self.leg_mode
        if mode == 'flat' and cls.__name__ == 'LegCharge' and cls.__module__ == 'tenpy.linalg.charges':
            # documented: only ind_len, qconj, chinfo and the charge of every index survive
            self.cmp(a.chinfo, b.chinfo, path + '.chinfo', True, 'LegCharge.chinfo')
            if int(a.ind_len) != int(b.ind_len) or int(a.qconj) != int(b.qconj):
                self.diff(path, 'flat leg: ind_len/qconj', owner=owner)
            elif not np.array_equal(a.to_qflat(), b.to_qflat()):
                self.diff(path, 'flat leg: qflat differs', owner=owner)
            return
        da, db = getattr(a, '__dict__', None), getattr(b, '__dict__', None)
        if da is None:
            try:
                if not (a == b):
                    self.diff(path, 'objects differ (==) %r' % cls, owner=owner)
            except Exception as e:
                self.diff(path, 'comparison raised %r' % (e,), owner=owner)
            return
        ign = set()
        for c in cls.__mro__:
            ign |= set(IGNORED_ATTRS.get(c.__module__ + '.' + c.__qualname__, ()))
        ka = set(da) - ign
        kb = set(db) - ign
        if ka != kb:
            self.diff(path, 'attributes only in original %s, only in copy %s' % (sorted(ka - kb, key=repr), sorted(kb - ka, key=repr)),
                      owner=cls.__name__ + '.__dict__')
        for k in sorted(ka & kb, key=repr):
            self.cmp(da[k], db[k], '%s.%s' % (path, k), True, '%s.%s' % (cls.__name__, k))
        for c in cls.__mro__:
            for name, f in OBSERVERS.get(c.__module__ + '.' + c.__qualname__, ()):
                try:
                    with warnings.catch_warnings():
                        warnings.simplefilter('ignore')
                        va = f(a)
                except Exception:
                    continue
                try:
                    with warnings.catch_warnings():
                        warnings.simplefilter('ignore')
                        vb = f(b)
                except Exception as e:
                    self.diff('%s.%s' % (path, name), 'accessor raises %s on the copy only' % type(e).__name__, owner='%s.%s' % (cls.__name__, name))
                    continue
                self._noid += 1
                try:
                    self.cmp(va, vb, '%s.%s' % (path, name), True, '%s.%s' % (cls.__name__, name))
                finally:
                    self._noid -= 1
