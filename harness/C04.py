"""C04 — compiled and pure-Python tensor kernels are observationally equivalent."""
import importlib

from vlib import core

C01 = importlib.import_module('harness.C01')
EXT = importlib.import_module('harness.c04_ext')

PROP = 'C04'
MODEL_MODULES = ['TenpyModel.Util.J', 'TenpyModel.Core.ArrCodec', 'TenpyModel.C04.ExtKernels', 'TenpyModel.C04.ExtSelect']
PROPS_MODULES = ['TenpyModel.C04.Props', 'TenpyModel.C04.Props2', 'TenpyModel.C04.PropsExtKernels',
                 'TenpyModel.C04.PropsExtCopy', 'TenpyModel.C04.PropsExtSelect']
LEVEL = 'proof'
BUDGET = {'quick': 175, 'thorough': 1700}
RULE = ('the C01 program stream (random typed programs over the public tensor operations, all charge structures, '
        'five dtypes, ~12 % malformed calls, 18 % of the quick-tier programs from the high-rank fusion stream: rank 5-7 '
        'tensors, combine_legs / split_legs with pipes on trailing axes, i.e. block copies with >= 4 dimensions) executed in two fresh interpreter processes per batch: (cy) a scratch '
        'overlay of the tree with _npc_helper built from the CURRENT .pyx (cached by source hash; the in-tree binary '
        'is never used) and (py) TENPY_NO_CYTHON=1. Verdict: per step both must agree on legs (nested pipes, sorted/'
        'bunched flags), labels, total charge, canonicalised block list, values (exact: integer-valued inputs), '
        'error class, returned permutations, and on not mutating their operands; the cached claim _qdata_sorted may '
        'differ only where both variants of the Lean model (kernel parameter; only iadd_prefactor_other) predict exactly '
        'that divergence. '
        'Each configuration is additionally diffed against the Lean model Arr (refinement). dtype differences are '
        'recorded, not judged. Non-trivial: as C01. '
        'Extension part (harness/c04_ext.py, 900 quick / 9000 thorough cases from sub_rng("ext"), run first): the paired helpers called '
        'DIRECTLY under both configurations — ChargeInfo.make_valid (None / 0-d / 1-d / 2-d / 3-d+ arguments, wrong last dimension, '
        'int64 extremes, also through npc.zeros(qtotal=...)), check_valid, _find_row_differences, _map_blocks, _make_stride, _sliced_copy '
        '(1-7 dimensions, five dtypes = five item widths, offsets or None, empty slices; 0-d off-contract) — and tools.optimization '
        '(programs of set_level / temporary_level / exceptions; sessions of use_cython decorations over synthetic module tables, '
        'TENPY_NO_CYTHON spellings, import failure, stale doc strings; the sixteen real pairs as selected at import). Verdict per case: cy == py, '
        'both == the documented value (independent numpy / plain-Python oracle), each twin == its coded form in the Lean model '
        '(TenpyModel.C04.Ext*: `...Cy` / `...Py`), and == the Core closed form.')
TRUSTED = ['Lean 4.33 kernel; axioms of the C04_* theorems ⊆ {propext, Classical.choice, Quot.sound}',
           'vlib/cybuild.py builds the compiled module from the current sources of the tree under test',
           'model lean/TenpyModel/Core/Arr*.lean tied to both kernels by this run; serialiser vlib/arrio.py']
ASSUMPTIONS = ['products/sums of the generated small integers are exact in every dtype used',
               'entry counters see the Python-visible boundary of each paired function (compiled-to-compiled calls '
               'inside _npc_helper are not counted)']

FLAG_KEYS = ('sorted',)


def judge_c04(res, cases, runs, models, configs):
    for i, case in enumerate(cases):
        oc, op_ = runs['cy']['results'][i], runs['py']['results'][i]
        res.note_case(dict(id=case.get('id'), steps=[C01.opname(s) for s in case['steps']]),
                      nontrivial='crash' not in oc and C01.case_nontrivial(case, oc))
        if 'crash' in oc or 'crash' in op_:
            res.fail('correspondence', 'c04.worker-crash', (oc.get('crash') or op_.get('crash'))[-600:], case)
            continue
        mc, mp = models.get('cy', {}).get(i), models.get('py', {}).get(i)
        stop = False
        for k, st in enumerate(case['steps']):
            rc, rp = oc['steps'][k], op_['steps'][k]
            vc, vp = C01.impl_view(rc), C01.impl_view(rp)
            name = C01.opname(st)
            # operands must not be mutated by either kernel
            for cfg, r in (('cy', rc), ('py', rp)):
                if r.get('mutated_inputs'):
                    res.fail('property', f'c04.{name}.mutates-operand-in-{cfg}-only' if not (rc.get('mutated_inputs') and rp.get('mutated_inputs'))
                             else f'c04.{name}.mutates-operand',
                             f'[{cfg}] step {k} {C01.describe(st)}: inputs {r["mutated_inputs"]} changed',
                             C01.slice_case(case, k))
                    stop = True
            if rc.get('dtype') != rp.get('dtype') and rc.get('dtype') and rp.get('dtype'):
                res.count(f'dtype_differs={name}:{rc.get("dtype")}/{rp.get("dtype")}')
            d = kernel_diff(vc, vp)
            if d is not None:
                what, detail = d
                benign = False
                if what in ('sorted', 'ins') and mc and mp and 'steps' in mc and 'steps' in mp:
                    # cached-claim divergence predicted by both model variants, each kernel refining its variant
                    if C01.diff_model(st, rc, mc['steps'][k]) is None and C01.diff_model(st, rp, mp['steps'][k]) is None:
                        benign = True
                        res.count(f'benign_flag_divergence={name}.{what}')
                if not benign:
                    res.fail('property', f'c04.kernels-differ.{name}.{what}',
                             f'step {k} {C01.describe(st)}: cy vs py: {detail}', C01.slice_case(case, k))
                    stop = True
            if stop:
                break
            # a step on which property C01 itself fails identically in both kernels (oracle finding, or an error on a
            # call numpy accepts) is C01's business: the kernels agree, the model describes the repaired behaviour
            c01_issue = any(r.get('oracle') or ('error' in r.get('res', {}) and st.get('sure') and r.get('numpy_accepts'))
                            for r in (rc, rp))
            if c01_issue:
                res.count(f'c01_finding_seen={name}')
                break
            for cfg, r, m in (('cy', rc, mc), ('py', rp, mp)):
                if m is None or 'steps' not in m:
                    continue
                dm = C01.diff_model(st, r, m['steps'][k])
                if dm:
                    res.fail('correspondence', f'c04.model-vs-impl.{name}.{dm[0]}',
                             f'[{cfg}] step {k} {C01.describe(st)}: {dm[1]}', C01.slice_case(case, k))
                    stop = True
                    break
            if stop:
                break
        if mc is not None and mp is not None:
            res.traces_validated += 1


def kernel_diff(vc, vp):
    """first observable difference between the two configurations in one step, or None"""
    kc, kp = kind(vc), kind(vp)
    if kc != kp:
        return ('outcome', f'{summary(vc)} vs {summary(vp)}')
    if kc == 'error':
        return None if vc['error'] == vp['error'] else ('error-class', f'{vc["error"]} vs {vp["error"]}')
    if kc == 'arr':
        for key in C01.ARR_KEYS:
            if key in FLAG_KEYS:
                continue
            if vc['arr'][key] != vp['arr'][key]:
                return (key, C01.first_diff(vc['arr'][key], vp['arr'][key], key))
    elif kc in ('nat', 'scalar'):
        if vc.get(kc) != vp.get(kc):
            return ('value', f'{vc.get(kc)} vs {vp.get(kc)}')
    if vc.get('extra') != vp.get('extra'):
        return ('extra', C01.first_diff(vc.get('extra'), vp.get('extra')))
    if kc == 'arr' and vc['arr']['sorted'] != vp['arr']['sorted']:
        return ('sorted', f'_qdata_sorted {vc["arr"]["sorted"]} vs {vp["arr"]["sorted"]}')
    if vc.get('ins') != vp.get('ins'):
        return ('ins', f'_qdata_sorted of the operands after the step {vc.get("ins")} vs {vp.get("ins")}')
    return None


def kind(v):
    for k in ('error', 'arr', 'nat', 'scalar', 'skipped', 'nonint'):
        if k in v:
            return k
    return 'scalar'


def summary(v):
    k = kind(v)
    return f'error {v["error"]}' if k == 'error' else k


def run(ctx):
    # extension part first (one batch, ~10-20 s in the quick tier); the program stream then uses what is left of its share
    res = EXT.run_ext(ctx)
    res.merge(C01.shrink(ctx, C01.run_stream(ctx, judge=judge_c04, prop=PROP), judge_c04))
    return res


def search(ctx, reasons):
    res = EXT.run_ext(ctx, use_model=False, tag='ext-search', n=4000 if ctx.quick else 20000)
    res.merge(C01.run_stream(ctx, judge=judge_c04, prop=PROP, tag='search', use_model=False, frac=0.95))
    return res


def replay(ctx, payload):
    if EXT.is_ext_case(payload['case']):
        return EXT.evaluate(ctx, [payload['case']])
    return C01.evaluate(ctx, [payload['case']], judge=judge_c04)
