"""C14 — time evolution applies exp(-iHt) with correct time and error accounting."""
import json

from vlib import core
from harness import c14_acct, c14_dense, c14_options, c14_sched

PROP = 'C14'
MODEL_MODULES = ['TenpyModel.Util.J', 'TenpyModel.C14.Trotter', 'TenpyModel.C14.Accounting',
                 'TenpyModel.Gen.C14Trotter']
PROPS_MODULES = ['TenpyModel.C14.PropsSchedule', 'TenpyModel.C14.PropsCompose', 'TenpyModel.C14.PropsAccounting', 'TenpyModel.C14.Props2']
LEAN_MODULES = PROPS_MODULES
LEVEL = 'proof'
BUDGET = {'quick': 220, 'thorough': 1500}
RULE = ('(a) schedule: every order the source dispatches on (regenerated) x N_steps in 0..12 plus random N up to 400 '
        '(thorough 0..60 + 40 random): real suzuki_trotter_time_steps/_decomposition vs the Lean expansion of the '
        'regenerated tables (exact on the step lists, 1e-15 on the coefficients); non-trivial when N>=2. '
        '(b) accounting traces: engine in {TEBD, QR-TEBD, two-/one-site TDVP, ExpMPOEvolution W_I/W_II x '
        'SVD/zip_up/variational} x {plain, time-dependent}, spin-1/2 XXZ-type chains (nearest neighbour or with 2nd/3rd '
        'neighbour couplings, Sz conserved or not, finite L=4..8, infinite L=2,4 for TEBD), chi_max in {2,3,4} so that '
        'truncations are non-zero, a random composition of 2..9 steps into run() calls with a different dyadic dt per '
        'call, real and imaginary steps, non-zero start_time / start_trunc_err, 35% of the traces with the step errors '
        'replaced by exact dyadic values (exact comparison); ~6% each: RandomUnitaryEvolution (own evolve) and the '
        'imaginary-time path of run_GS (calc_U(type_evo=imag) + update_imag), oracle only; after every call also the '
        'total charge and psi.norm (real time: reset exactly) are checked; non-trivial when some truncation error is '
        'non-zero and there are >=2 calls or the engine is time dependent; distinct by content hash. '
        '(c) dense: untruncated runs at dt, dt/2, dt/4 (total time split into two run() calls at a random point) vs '
        'scipy expm on the ExactDiag Hamiltonian; every TEBD order, one QR-TEBD order, imaginary time, TDVP, 4 (thorough: '
        'all 16) W_I/W_II x {SVD, zip_up, variational, variationalQR} x order combinations, time-dependent TEBD / '
        'ExpMPO / two-site / one-site TDVP. '
        '(d) option branches (c14_options.py, ~55 cheap cases, L=4..6): TDVP combine / lanczos_params variants / Arnoldi / '
        'deprecated alias / explicit_plus_hc vs the default run and expm; Krylov_params expansion; QR-TEBD cbe_expand(_0) / '
        'cbe_min_block_increase / use_eig_based_svd / compute_err vs SVD-TEBD; E_offset; run_GS (TEBD/QR, finite/infinite, '
        'orders) with wrapped update calls and the ExactDiag ground-state energy; RandomUnitaryEvolution with every '
        'distribution function, a callable and dt != 1; restarts by resume_data / switch_engine / start_time vs the '
        'uninterrupted run; preserve_norm x real/imaginary vs the dense norm; documented exception classes; '
        'LanczosEvolution / ArnoldiEvolution directly vs scipy expm over their options. In (b) additionally: QR option '
        'sets, E_offset, explicit preserve_norm, lanczos_params variants, explicit_plus_hc, infinite QR-TEBD, every '
        'ExpMPO combination in turn.')
TRUSTED = ['Lean 4.33 kernel; axioms of every C14_* theorem ⊆ {propext, Classical.choice, Quot.sound}',
           'tools/gen_C14.py (Python ast -> TenpyModel/Gen/C14Trotter.lean, regenerated on every run; unknown AST '
           'shapes are reported, never skipped); its output is additionally diffed against the real methods (part a)',
           'hand-written accounting model TenpyModel/C14/Accounting.lean, tied to the engines by part (b): same histories, '
           'same error streams, evolved_time / trunc_err / number and order of truncations diffed after every run()',
           'harness instrumentation: wrapping update_bond, tdvp.svd_theta, MPO.apply, mpo/mps.svd_theta, Sweep.sweep',
           'scipy.linalg.expm and ExactDiag.build_full_H_from_mpo / mps_to_full for the dense reference (part c)']
ASSUMPTIONS = ['numerical kernels (SVD, Lanczos, MPO application) are abstracted to the stream of truncation errors they '
               'return; the theorems are about the bookkeeping over exact rationals, float sums are compared at 1e-12 '
               'relative (exactly when the errors are injected dyadic values)',
               'the convergence order (part c) is measured, not proved: test-level evidence',
               'unitarity of the gates / charge conservation are checked numerically (part c), not proved in Lean']

ANCHOR_COVERAGE_NOTE = (
    'measured 2026-09-26 with coverage 7 (--branch, quick tier seed 0, in-process via C14_NO_POOL=1) on the anchored files '
    'tebd.py / tdvp.py / mpo_evolution.py / algorithm.py / krylov_based.py: before the coverage round 79 / 81 / 96 / 49 / '
    '33 % (total 57 %), after 99 / 93 / 100 / 64 / 53 % (total 75 %; tdvp.py 98 % on the tree with the pending TDVP '
    'repairs). Not executed on purpose: Algorithm.estimate_RAM (algorithm.py 240-338, not part of C14), GMRES / Arnoldi / '
    'LanczosGroundState.run / lanczos_arpack / gram_schmidt in krylov_based.py (C16), unreachable defensive branches '
    '(tebd.py 616, tdvp.py 261/343). See notes/C14.md "Coverage round".')

_META = {}


def regenerate(ctx):
    from tools import gen_C14
    problems, meta = gen_C14.regenerate(core.REPO, core.LEAN_DIR)
    _META.clear()
    _META.update(meta)
    want = ['1', '2', '4', '4_opt']
    if meta['orders'] != want:
        problems.append(f'orders of the source {meta["orders"]} differ from the orders the theorems cover {want}')
    return problems


def _meta():
    if not _META:
        from tools import gen_C14
        _, problems, meta = gen_C14.generate(core.REPO)
        _META.update(meta)
    return _META


def _corpus():
    out = []
    d = core.CORPUS_DIR / PROP
    if d.is_dir():
        for f in sorted(d.glob('*.json')):
            try:
                out.append(json.loads(f.read_text())['case'])
            except (ValueError, KeyError):
                pass
    return out


def run(ctx):
    res = core.Result()
    res.merge(c14_sched.run(ctx, _meta()))
    pool = c14_acct.make_pool(8 if ctx.quick else 16)
    try:
        corpus = [c for c in _corpus() if c.get('part') == 'acct']
        res.merge(c14_acct.run(ctx, pool, corpus))
        res.merge(c14_dense.run(ctx, pool))
        res.merge(c14_options.run(ctx, pool, [c for c in _corpus() if c.get('part') == 'opt']))
    finally:
        pool.terminate()
    res.extra['translator'] = {k: v for k, v in _meta().items() if k not in ('order_keys',)}
    res.extra['anchor_coverage_note'] = ANCHOR_COVERAGE_NOTE
    return res


def search(ctx, reasons):
    """a proof or the correspondence broke: look for a concrete failing input with the oracles only"""
    res = core.Result()
    res.merge(c14_sched.search(ctx, _meta()))
    pool = c14_acct.make_pool(8 if ctx.quick else 16)
    try:
        res.merge(c14_acct.search(ctx, pool))
        res.merge(c14_dense.run(ctx, pool))
        res.merge(c14_options.run(ctx, pool))
    finally:
        pool.terminate()
    return res


def replay(ctx, payload):
    res = core.Result()
    case = payload.get('case', {})
    case = {k: v for k, v in case.items() if k != 'original'}
    part = case.get('part')
    if part == 'acct':
        res.merge(c14_acct.evaluate([case], use_model=True, do_shrink=False))
    elif part == 'dense':
        res.merge(c14_dense.evaluate([case]))
    elif part == 'opt':
        res.merge(c14_options.evaluate([case]))
    elif part == 'sched':
        sub = core.Ctx(PROP, ctx.tier, ctx.seed, ctx.budget_s)
        r = core.Result()
        ts, dec = c14_sched.real_tables(case['order'], case['N'])
        r.note_case(case, True)
        sig, detail = c14_sched.oracle(case['order'], case['N'], ts, dec)
        if sig:
            r.fail('property', sig, detail, case)
        res.merge(r)
    return res
