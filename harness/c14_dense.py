"""C14 part (c): untruncated evolution against scipy.linalg.expm(-i H t) applied to the dense initial state.

Oracle only (no Lean model: this is numerical analysis, labelled test-level in the evidence):
  * state error at dt, dt/2, dt/4 for the same total time -> measured convergence rate vs the documented order
    (TEBD `order`, ExpMPOEvolution `order`; two-site TDVP: symmetric second-order integrator; one-site TDVP at full
    bond dimension is exact),
  * norm (unitary-gate and tangent-space engines: 1e-10), energy (TDVP: 1e-9; others: bounded by 2·|H|·error),
    total charge (exact) and <Sz_total> (1e-10 where H commutes with it),
  * time-dependent variants against the product of exp(-i dt H(t_i)) they are documented to approximate.
H comes from ExactDiag.build_full_H_from_mpo of the same model object.

case = {part:'dense', engine, td, model, state, order, approximation, compression, dt:[p,q], N, split, imag}
"""
import traceback

import numpy as np

from vlib import core
from harness import c14_engines as E

FLOOR = 1e-10       # errors below this are at the level of SVD / Lanczos round-off: no rate is computed from them
RATE_SLACK = 0.75   # measured rate must be >= documented order - 0.75 (DESIGN section 7/C14)


def expected_order(case):
    eng = case['engine']
    if eng in ('TEBD', 'QRTEBD'):
        return {'1': 1, '2': 2, '4': 4, '4_opt': 4}[str(case['order'])]
    if eng == 'ExpMPO':
        return int(case['order'])
    if eng == 'TDVP2' and case.get('random_state') is None:
        return 2
    return None   # TDVP at full bond dimension (random dense start state): exact


def run_case(case):
    E.quiet()
    try:
        return _run_case(case)
    except Exception as e:
        return dict(exception=type(e).__name__, message=str(e)[:300], tb=traceback.format_exc()[-1500:])


def _dense(psi, ED):
    return ED.mps_to_full(psi).to_ndarray() * psi.norm


def _H(model_spec, t):
    from tenpy.algorithms.exact_diag import ExactDiag
    M = E.build_model(dict(model_spec, time=t))
    ED = ExactDiag(M)
    ED.build_full_H_from_mpo()
    return ED.full_H.to_ndarray()


def _run_case(case):
    import scipy.linalg as sla
    import tenpy.linalg.np_conserved as npc
    from tenpy.algorithms.exact_diag import ExactDiag
    dt0 = case['dt'][0] / case['dt'][1]
    N0 = case['N']
    td, imag = case['td'], bool(case.get('imag'))
    out = dict(errs=[], norm_dev=[], dE=[], dSz=[], charge_ok=True, chi=[])
    for k in range(3):
        dt, N = dt0 / 2 ** k, N0 * 2 ** k
        spec = dict(case['model'], time=0.0) if td else dict(case['model'])
        M = E.build_model(spec)
        ED = ExactDiag(M)
        ED.build_full_H_from_mpo()
        H = ED.full_H.to_ndarray()
        psi = E.build_state(M, case)
        if case.get('random_state') is not None:
            rng = np.random.default_rng(case['random_state'])
            full = ED.mps_to_full(psi)
            vec = rng.normal(size=full.shape) + 1j * rng.normal(size=full.shape)
            vec /= np.linalg.norm(vec)
            psi = ED.full_to_mps(npc.Array.from_ndarray(vec, [full.legs[0]]))
        v0 = _dense(psi, ED)
        q0 = psi.get_total_charge().tolist()
        # cbe_expand: "untruncated" QR-TEBD needs a complete expansion (eta >= d*chi); smaller rates truncate
        # heuristically even below chi_max (documented), which would pollute the convergence rate
        cf = dict(case, chi_max=4 ** (M.lat.N_sites // 2 + 1), svd_min=1e-15, start_time=0.0, start_eps=None,
                  cbe_expand=10.0)
        if case['engine'] == 'ExpMPO':
            cf['preserve_norm'] = False   # otherwise psi.norm is reset and a wrong norm of U would be invisible
        n1 = case.get('split', 0) * 2 ** k
        calls = [n for n in (n1, N - n1) if n > 0]
        step = -1j * dt if imag else dt
        eng = E.engine_class(case['engine'], td)(psi, M, E.engine_options(cf, step, calls[0]))
        for n in calls:
            eng.options['N_steps'] = n
            eng.run()
        v = _dense(psi, ED)
        # reference
        if td:
            ref = v0
            for i in range(N):
                Hi = H if i == 0 else _H(case['model'], i * dt)
                ref = sla.expm((-Hi if imag else -1j * Hi) * dt) @ ref
        else:
            ref = sla.expm((-H if imag else -1j * H) * (dt * N)) @ v0
        if imag:
            v, ref = v / np.linalg.norm(v), ref / np.linalg.norm(ref)
        out['errs'].append(float(np.linalg.norm(v - ref)))
        out['norm_dev'].append(float(abs(np.linalg.norm(v) - 1.0)))
        nv = np.vdot(v, v).real
        out['dE'].append(float(np.vdot(v, H @ v).real / nv - np.vdot(v0, H @ v0).real))
        out['charge_ok'] = out['charge_ok'] and psi.get_total_charge().tolist() == q0
        # <Sz_total> from the dense vectors (operator = ExactDiag matrix of the same lattice with only the field term)
        SzT = _H(dict(case['model'], J=0.0, Jz=0.0, J2=0.0, J3=0.0, g=0.0, amp=0.0, hz=-1.0), 0.0)
        out['dSz'].append(float(abs(np.vdot(v, SzT @ v).real / nv - np.vdot(v0, SzT @ v0).real)))
        out['chi'].append([int(x) for x in psi.chi])
        tt = complex(eng.evolved_time)
        want = complex(step * N)
        out['time_ok'] = abs(tt - want) <= 1e-12
        out['Hnorm'] = float(np.linalg.norm(H, 2))
    return out


def label(case):
    s = ('timedep-' if case['td'] else '') + case['engine']
    if case['engine'] in ('TEBD', 'QRTEBD'):
        s += '.order=%s' % case['order']
    if case['engine'] == 'ExpMPO':
        s += '.W_%s.%s.order=%s' % (case['approximation'], case['compression'], case['order'])
    if case.get('imag'):
        s += '.imag'
    return s


def oracle(case, obs):
    """-> list of (signature, detail)"""
    lab = label(case)
    errs = obs['errs']
    p = expected_order(case)
    fails = []
    if not obs.get('time_ok', True):
        fails.append((f'dense.evolved_time.{lab}', 'evolved_time != N_steps * dt'))
    if case.get('skip_state_error'):
        pass   # projection error of two-site TDVP for a long-range H from a product state: only conservation laws
    elif p is None:
        if max(errs) > 1e-9:
            fails.append((f'dense.exact-engine-error.{lab}', f'errors {errs} (expected round-off level)'))
    else:
        # the error must go down with dt at (about) the documented order
        rates = []
        for a, b in zip(errs[:-1], errs[1:]):
            if b > FLOOR and a < 0.3:
                rates.append(float(np.log2(a / b)))
        obs['rates'] = rates
        if errs[-1] > max(0.05, 0.0):
            fails.append((f'dense.error-not-small.{lab}', f'errors {errs} at dt, dt/2, dt/4'))
        elif any(r < p - RATE_SLACK for r in rates):
            fails.append((f'dense.convergence-order.{lab}',
                          f'errors {errs} at dt, dt/2, dt/4: measured rates {rates}, documented order {p}'))
    real = not case.get('imag')
    unitary = case['engine'] in ('TEBD', 'QRTEBD', 'TDVP2', 'TDVP1')
    if real and unitary and max(obs['norm_dev']) > 1e-10:
        fails.append((f'dense.norm.{lab}', f'| |psi| - 1 | = {obs["norm_dev"]}'))
    if real and not unitary and any(n > 4 * e + 1e-10 for n, e in zip(obs['norm_dev'], errs)):
        fails.append((f'dense.norm.{lab}', f'| |psi| - 1 | = {obs["norm_dev"]} larger than the state error {errs}'))
    if real and not case['td']:
        if case['engine'] in ('TDVP2', 'TDVP1'):
            if max(abs(x) for x in obs['dE']) > 1e-9:
                fails.append((f'dense.energy.{lab}', f'energy drift {obs["dE"]}'))
        elif any(abs(d) > 4 * obs['Hnorm'] * e + 1e-10 for d, e in zip(obs['dE'], errs)):
            fails.append((f'dense.energy.{lab}', f'energy drift {obs["dE"]} not bounded by the state error {errs}'))
    if not obs['charge_ok']:
        fails.append((f'dense.charge.{lab}', 'psi.get_total_charge() changed'))
    if case['model'].get('g', 0.0) == 0.0 and max(obs['dSz']) > 1e-9 * (1 if unitary else 1e3):
        fails.append((f'dense.Sz_total.{lab}', f'<Sz_total> drift {obs["dSz"]}'))
    return fails


def gen_cases(rng, thorough=False):
    cases = []
    L_nn = rng.choice([4, 5, 6])

    def nn(conserve='Sz'):
        return dict(kind='nn', L=rng.choice([4, 5, 6]) if thorough else L_nn, bc='finite', conserve=conserve,
                    Jz=rng.choice([0.5, 1.0, -0.75]), hz=rng.choice([0.0, 0.25]),
                    g=0.0 if conserve == 'Sz' else rng.choice([0.0, 0.4]))

    def lr(conserve='Sz', L=None):
        return dict(kind='lr', L=L or rng.choice([4, 5, 6]), bc='finite', conserve=conserve, Jz=rng.choice([0.5, 1.0]),
                    hz=0.25, J2=rng.choice([0.3, -0.4]), J3=rng.choice([0.0, 0.2]),
                    g=0.0 if conserve == 'Sz' else rng.choice([0.0, 0.4]))

    def base(engine, model, **kw):
        N = kw.pop('N', 4)
        c = dict(part='dense', engine=engine, td=False, model=model, state=rng.choice(['neel', 'domain', 'mixed']),
                 N=N, split=rng.randint(0, N - 1), imag=False)
        c.update(kw)
        return c

    for order, dt in [(1, [1, 8]), (2, [1, 8]), (4, [1, 4]), ('4_opt', [1, 4])]:
        cases.append(base('TEBD', nn(rng.choice(['Sz', None])), order=order, dt=dt))
    o, dt = rng.choice([(1, [1, 8]), (2, [1, 8]), (4, [1, 4]), ('4_opt', [1, 4])])
    cases.append(base('QRTEBD', nn(rng.choice(['Sz', None])), order=o, dt=dt))
    cases.append(base('TEBD', nn(), order=rng.choice([2, 4]), dt=[1, 8], imag=True))
    # two-site TDVP: (i) nearest-neighbour H from a product state: no projection error, second-order splitting error;
    # (ii) long-range H from a random dense state (full bond dimension): exact; (iii) long-range H from a product
    # state: the tangent-space projection error does not vanish with dt, only norm / energy / charge are checked.
    cases.append(base('TDVP2', nn(rng.choice(['Sz', None])), dt=[1, 8], N=2))
    cases.append(base('TDVP2', lr(conserve=None, L=4), dt=[1, 8], N=2, random_state=rng.randrange(10 ** 6)))
    cases.append(base('TDVP2', lr(L=rng.choice([4, 5])), dt=[1, 8], N=2, skip_state_error=True))
    cases.append(base('TDVP1', lr(conserve=None, L=rng.choice([4, 5])), dt=[1, 8], N=2,
                      random_state=rng.randrange(10 ** 6)))
    combos = [(a, c, o) for a in ('I', 'II') for c in ('SVD', 'zip_up', 'variational', 'variationalQR') for o in (1, 2)]
    for a, c, o in (combos if thorough else rng.sample(combos, 4)):
        cases.append(base('ExpMPO', lr(L=rng.choice([4, 5]) if c.startswith('variational') else None), approximation=a,
                          compression=c, order=o, dt=[1, 16], imag=(rng.random() < 0.25)))
    # time-dependent variants
    tdm = dict(nn(), amp=rng.choice([0.5, 1.0]), omega=rng.choice([1.0, 3.0]), hz=0.25)
    cases.append(dict(base('TEBD', tdm, order=rng.choice([1, 2]), dt=[1, 8]), td=True))
    tdl = dict(lr(L=4), amp=0.5, omega=2.0)
    cases.append(dict(base('ExpMPO', tdl, dt=[1, 16], N=2, order=2, approximation='II', compression='SVD'), td=True))
    cases.append(dict(base('TDVP2', dict(nn(), amp=0.5, omega=2.0, L=4), dt=[1, 8], N=2), td=True))
    # time-dependent one-site TDVP at full bond dimension: exact for every piecewise-constant step
    cases.append(dict(base('TDVP1', dict(lr(conserve=None, L=4), amp=0.5, omega=2.0), dt=[1, 8], N=2,
                           random_state=rng.randrange(10 ** 6)), td=True))
    if thorough:
        cases.append(base('TDVP2', nn(), dt=[1, 8], N=2, imag=True))
        cases.append(dict(base('QRTEBD', tdm, order=2, dt=[1, 8]), td=True))
    return cases


def evaluate(cases, pool=None):
    res = core.Result()
    obss = pool.map(run_case, cases, chunksize=1) if pool is not None and len(cases) > 1 else [run_case(c) for c in cases]
    rates_seen = {}
    for case, obs in zip(cases, obss):
        lab = label(case)
        res.note_case(case, 'errs' in obs and max(obs['errs']) > 0)
        res.count('dense.engine=' + ('timedep-' if case['td'] else '') + case['engine'])
        if 'exception' in obs:
            res.fail('property', f'exception.dense.{lab}.{obs["exception"]}',
                     f'{obs["exception"]}: {obs["message"]}\n{obs.get("tb", "")}', case)
            continue
        for sig, detail in oracle(case, obs):
            res.fail('property', sig, detail, case)
        rates_seen[lab] = dict(errors=obs['errs'], rates=obs.get('rates'), documented_order=expected_order(case))
    res.extra['dense_convergence_test_level'] = rates_seen
    return res


def run(ctx, pool=None):
    rng = ctx.sub_rng('dense')
    cases = gen_cases(rng, thorough=not ctx.quick)
    if not ctx.quick:
        for i in range(3):
            cases += gen_cases(ctx.sub_rng(f'dense{i}'), thorough=True)
    return evaluate(cases, pool)
