"""Coverage stream of C01/C04: public tensor operations and argument variants that the general program generator
emits never or rarely (measured with `coverage`, see notes/C01.md "Coverage round").

Every operation here is a `spec` step with `what = 'cov_*'` and `kind = 'inject'`: the real call is made by
`run_cov` (worker, both kernels), the verdict comes from the model-free oracle `check_cov` (numpy on the dense
operands, documented label rules, charge rule), the two kernels are compared with each other by C04, and the
implementation's result is injected into the Lean model so that later steps of the program keep being compared
with the model. Constructors have no tensor input; their legs are built from pure-data descriptions.
"""
import itertools

import numpy as np

from vlib import arrgen, npcgen

MAX_SIZE = 1500


# ------------------------------------------------------------------------------------------------ helpers

def allowed_mask(ex, legs, qtotal):
    """Model-free: mask[idx] = (sum of the charges attached to the indices == qtotal), from the legs' flat charges."""
    ci = legs[0].chinfo
    shape = [l.ind_len for l in legs]
    mask = np.zeros(shape, dtype=bool)
    if mask.size == 0:
        return mask
    phys = [np.array(ex.phys(l), dtype=np.int64).reshape(l.ind_len, ci.qnumber) for l in legs]
    qt = np.array(qtotal if qtotal is not None else [0] * ci.qnumber, dtype=np.int64)
    mods = [int(m) for m in ci.mod]
    for idx in itertools.product(*[range(s) for s in shape]):
        tot = sum((p[i] for p, i in zip(phys, idx)), np.zeros(ci.qnumber, dtype=np.int64))
        tot = [int(x) if m == 1 else int(x) % m for x, m in zip(tot, mods)]
        want = [int(x) if m == 1 else int(x) % m for x, m in zip(qt, mods)]
        mask[idx] = tot == want
    return mask


def charge_code(q):
    return int(sum((int(c) + 50) * 101 ** k for k, c in enumerate(q)))


def index_tuple(ex, inds):
    out = []
    for i in inds:
        if isinstance(i, dict) and 'ellipsis' in i:
            out.append(Ellipsis)
        else:
            out.extend(ex.index_tuple([i]))
    return tuple(out)


def np_index(ex, inds, shape):
    """expand an Ellipsis and use the Executor's orthogonal-index translation"""
    inds = list(inds)
    for k, i in enumerate(inds):
        if isinstance(i, dict) and 'ellipsis' in i:
            fill = [{'slice': [None, None, None]}] * (len(shape) - (len(inds) - 1))
            inds = inds[:k] + fill + inds[k + 1:]
            break
    return ex.np_index(inds, shape)


# ------------------------------------------------------------------------------------------------ real calls

def run_cov(ex, vals, st, ins):
    npc, io = ex.npc, ex.io
    what = st['what']
    a = ins[0] if ins else None
    dt = np.dtype(st.get('dtype', 'float64'))
    if what == 'cov_from_ndarray_trivial':
        return npc.Array.from_ndarray_trivial(io.dec_flat(st['dense']['vals'], st['dense']['shape'], dt),
                                              labels=st.get('labels'))
    if what in ('cov_from_ndarray_detect', 'cov_from_ndarray_lenient'):
        legs = [io.make_aleg(l) for l in st['legs']]
        flat = io.dec_flat(st['dense']['vals'], st['dense']['shape'], dt)
        if what == 'cov_from_ndarray_detect':
            return npc.Array.from_ndarray(flat, legs, labels=st.get('labels'))          # qtotal detected
        return npc.Array.from_ndarray(flat, legs, qtotal=st['qtotal'], labels=st.get('labels'),
                                      raise_wrong_sector=False, warn_wrong_sector=False)
    if what == 'cov_from_func':
        legs = [io.make_aleg(l) for l in st['legs']]
        via = st.get('via')
        if via == 'ones':
            return npc.ones(legs, dt, st.get('qtotal'), labels=st.get('labels'))
        if via == 'shape_kw':
            return npc.Array.from_func(lambda size=None, fill=1: np.full(size, fill), legs, dt, st.get('qtotal'),
                                       func_kwargs=dict(fill=st.get('fill', 1)), shape_kw='size', labels=st.get('labels'))
        return npc.Array.from_func(lambda shape, fill: np.full(shape, fill), legs, None if via == 'nodtype' else dt,
                                   st.get('qtotal'), func_args=(st.get('fill', 1),), labels=st.get('labels'))
    if what == 'cov_from_func_square':
        return npc.Array.from_func_square(np.ones, io.make_aleg(st['leg']), dt, labels=st.get('labels'))
    if what == 'cov_eye_like':
        return npc.eye_like(a, st['axis'], labels=st.get('labels'))
    if what == 'cov_diag':
        s = st['s']
        s = io.dec(s) if not (isinstance(s, list) and st.get('vector')) else np.array([io.dec(v) for v in s])
        return npc.diag(s, io.make_aleg(st['leg']), dtype=dt, labels=st.get('labels'))
    if what == 'cov_replace_label':
        if st.get('via') == 'inplace':
            return a.copy(deep=True).ireplace_label(st['old'], st['new'])
        return a.replace_label(st['old'], st['new'])
    if what == 'cov_replace_labels':
        if st.get('via') == 'inplace':
            return a.copy(deep=True).ireplace_labels(st['olds'], st['news'])
        return a.replace_labels(st['olds'], st['news'])
    if what == 'cov_idrop_labels':
        return a.copy(deep=True).idrop_labels(st.get('axes'))
    if what == 'cov_has_label':
        return ('nat', int(bool(a.has_label(st['label']))))
    if what == 'cov_truediv':
        s = io.dec(st['s'])
        if st.get('via') == 'itruediv':
            r = a.copy(deep=True)
            r /= s
            return r
        return a / s
    if what == 'cov_eq':
        return ('nat', int(bool(a == ins[1])))
    if what == 'cov_add_charge':
        return a.add_charge([io.make_aleg(l) for l in st['add_legs']], qtotal=st.get('qtotal'))
    if what == 'cov_apply_charge_mapping':
        perm = st['perm']
        return a.apply_charge_mapping(lambda ch, perm=None: np.asarray(ch)[..., perm], func_kwargs=dict(perm=perm),
                                      inplace=False)
    if what == 'cov_flip_leg':
        r = a.copy(deep=True)
        r.legs[st['axis']] = r.legs[st['axis']].flip_charges_qconj()
        r.test_sanity()
        return r
    if what == 'cov_size_ndim':
        return ('nat', int(a.size) * 100 + int(a.ndim))
    if what == 'cov_as_completely_blocked':
        enc, r = a.as_completely_blocked()
        if sorted(enc) != [k for k, l in enumerate(a.legs) if not l.is_blocked()]:
            raise AssertionError('encapsulated axes are not the non-blocked legs')
        return r
    if what == 'cov_is_completely_blocked':
        return ('nat', int(bool(a.is_completely_blocked())))
    if what == 'cov_setitem_int':
        r = a.copy(deep=True)
        r[tuple(st['inds'])] = io.dec(st['value'])
        return r
    if what == 'cov_getitem':
        return a[index_tuple(ex, st['inds'])]
    if what == 'cov_grid_concat':
        grid = np.empty(st['gshape'], dtype=object)
        for k, idx in enumerate(np.ndindex(*st['gshape'])):
            t = st['grid'][k]
            grid[idx] = None if t is None else ins[t]
        return npc.grid_concat(grid, st['axes'], copy=st.get('copy', True))
    if what == 'cov_concatenate_nocopy':
        return npc.concatenate(ins, st['axis'], copy=False)
    if what == 'cov_detect_qtotal':
        return ('nat', charge_code(npc.detect_qtotal(a.to_ndarray(), a.legs)))
    if what == 'cov_detect_legcharge':
        k = st['axis']
        legs = list(a.legs)
        legs[k] = None
        new = npc.detect_legcharge(a.to_ndarray(), a.chinfo, legs, a.qtotal, st['qconj'])
        return npc.Array.from_ndarray(a.to_ndarray(), new, qtotal=a.qtotal, labels=a.get_leg_labels())
    if what == 'cov_detect_grid_outer':
        grid = [None if t is None else ins[t] for t in st['grid']]
        legs = npc.detect_grid_outer_legcharge(grid, [None], qtotal=st.get('qtotal'), qconj=st['qconj'])
        return npc.grid_outer(grid, legs, qtotal=st.get('qtotal'))
    if what == 'cov_norm':
        o = {'1': 1, '2': None, '0': 0}[st['ord']]
        via = st.get('via')
        if via == 'ndarray':
            r = npc.norm(a.to_ndarray(), o)
        elif via == 'list':
            r = npc.norm(list(ins))
        else:
            r = npc.norm(a, o, st.get('convert_to_float', True))
        return ('nat', int(round(float(r) ** (2 if st['ord'] == '2' else 1))))
    if what == 'cov_extend_leg':
        return a.extend(st['axis_arg'], io.make_aleg(st['extra']))
    if what == 'cov_scalar_int_getitem':
        return a[tuple(st['inds'])]
    raise ValueError('unknown coverage op ' + what)


# ------------------------------------------------------------------------------------------------ oracle

def check_cov(ex, rec, st, ins, dens, res):
    """model-free oracle; appends [signature, detail] to rec['oracle']"""
    npc, io = ex.npc, ex.io
    what = st['what']
    name = what[4:]
    A = dens[0] if dens else None
    a = ins[0] if ins else None
    dt = np.dtype(st.get('dtype', 'float64'))
    exp = labels = nat = None

    def fail(kind, detail):
        rec['oracle'].append([f'c01.{name}.{kind}', str(detail)[:300]])

    if what == 'cov_from_ndarray_trivial':
        exp = io.dec_flat(st['dense']['vals'], st['dense']['shape'], dt)
        labels = st.get('labels') or [None] * exp.ndim
    elif what == 'cov_from_ndarray_detect':
        exp = io.dec_flat(st['dense']['vals'], st['dense']['shape'], dt)
        labels = st.get('labels') or [None] * exp.ndim
        if [int(x) for x in res.qtotal] != list(st['expect_qtotal']):
            fail('qtotal-not-detected', f'got {list(res.qtotal)} expected {st["expect_qtotal"]}')
    elif what == 'cov_from_ndarray_lenient':
        flat = io.dec_flat(st['dense']['vals'], st['dense']['shape'], dt)
        exp = np.where(allowed_mask(ex, res.legs, st['qtotal']), flat, 0)
    elif what == 'cov_from_func':
        exp = allowed_mask(ex, res.legs, st.get('qtotal')).astype(float) * st.get('fill', 1)
        labels = st.get('labels') or [None] * exp.ndim
    elif what == 'cov_from_func_square':
        leg = io.make_aleg(st['leg'])
        exp = allowed_mask(ex, [leg, leg.conj()], None).astype(float)
        labels = st.get('labels') or [None, None]
    elif what == 'cov_eye_like':
        k = st['axis'] if not isinstance(st['axis'], str) else a._labels.index(st['axis'])
        exp = np.eye(a.shape[k])
        labels = st.get('labels') or [None, None]
    elif what == 'cov_diag':
        leg = io.make_aleg(st['leg'])
        s = st['s']
        exp = np.diag(np.array([io.dec(v) for v in s])) if st.get('vector') else np.diag(np.full(leg.ind_len, io.dec(s)))
        exp = exp.reshape(leg.ind_len, leg.ind_len)
        labels = st.get('labels') or [None, None]
    elif what in ('cov_replace_label', 'cov_replace_labels'):
        exp = A
        labels = list(a._labels)
        olds = [st['old']] if what == 'cov_replace_label' else st['olds']
        news = [st['new']] if what == 'cov_replace_label' else st['news']
        pos = [o if not isinstance(o, str) else labels.index(o) for o in olds]
        pos = [p + a.rank if p < 0 else p for p in pos]
        for p, n in zip(pos, news):
            labels[p] = n
    elif what == 'cov_idrop_labels':
        exp = A
        labels = list(a._labels)
        axes = st.get('axes')
        if axes is None:
            labels = [None] * a.rank
        else:
            for o in axes:
                p = o if not isinstance(o, str) else a._labels.index(o)
                labels[p] = None
    elif what == 'cov_has_label':
        nat = int(st['label'] in a._labels)
    elif what == 'cov_truediv':
        exp = A / io.dec(st['s'])
        labels = list(a._labels)
    elif what == 'cov_eq':
        b = ins[1]
        B = dens[1]
        la, lb = list(a._labels), list(b._labels)
        if la != lb and None not in la and None not in lb and set(la) == set(lb):
            B = np.transpose(B, [lb.index(l) for l in la])
        nat = int(A.shape == B.shape and bool(np.array_equal(A, B)))
    elif what in ('cov_add_charge', 'cov_concatenate_nocopy', 'cov_extend_leg'):
        if what == 'cov_add_charge':
            exp, labels = A, list(a._labels)
        elif what == 'cov_concatenate_nocopy':
            k = st['axis'] if not isinstance(st['axis'], str) else a._labels.index(st['axis'])
            exp, labels = np.concatenate(dens, axis=k), list(a._labels)
        else:
            k, n = st['axis'], st['n']
            pad = list(A.shape)
            pad[k] = n
            exp, labels = np.concatenate([A, np.zeros(pad, dtype=A.dtype)], axis=k), list(a._labels)
    elif what in ('cov_apply_charge_mapping', 'cov_flip_leg'):
        exp, labels = A, list(a._labels)
        if what == 'cov_flip_leg' and [ex.phys(l) for l in res.legs] != [ex.phys(l) for l in a.legs]:
            fail('leg-charges-not-propagated', '')
    elif what == 'cov_size_ndim':
        nat = sum(int(t.size) for t in a._data) * 100 + A.ndim
    elif what == 'cov_as_completely_blocked':
        if not all(l.is_blocked() for l in res.legs):
            fail('result-not-blocked', '')
        exp = np.zeros(res.shape, dtype=A.dtype)
        if A.size:
            maps = []
            for l0, l1 in zip(a.legs, res.legs):
                if l1 is l0 or not isinstance(l1, npc.LegPipe) or isinstance(l0, npc.LegPipe) and l1.legs[0] is not l0:
                    maps.append(list(range(l0.ind_len)))
                else:
                    maps.append([int(l1.map_incoming_flat([i])) for i in range(l0.ind_len)])
            exp[np.ix_(*maps)] = A
    elif what == 'cov_is_completely_blocked':
        def blocked(l):
            ch = [tuple(c) for c in l.charges]
            return len(set(ch)) == len(ch)
        nat = int(all(blocked(l) for l in a.legs))
    elif what == 'cov_setitem_int':
        exp = A.copy()
        exp[tuple(st['inds'])] = io.dec(st['value'])
        labels = list(a._labels)
    elif what == 'cov_getitem':
        ix, drop = np_index(ex, st['inds'], A.shape)
        exp = np.squeeze(A[ix], axis=drop)
        if exp.ndim == 0:
            exp = exp[()]
    elif what == 'cov_grid_concat':
        gs = st['gshape']
        zero = np.zeros_like(dens[0])
        cells = [zero if t is None else dens[t] for t in st['grid']]
        grid = np.empty(gs, dtype=object)
        for k, idx in enumerate(np.ndindex(*gs)):
            grid[idx] = cells[k]
        axes = [x if not isinstance(x, str) else a._labels.index(x) for x in st['axes']]

        def rec_concat(g, depth):
            if depth == len(gs) - 1:
                return np.concatenate(list(g), axis=axes[depth])
            return np.concatenate([rec_concat(row, depth + 1) for row in g], axis=axes[depth])
        exp = rec_concat(grid, 0)
        labels = list(a._labels)
    elif what == 'cov_detect_qtotal':
        if np.any(A != 0):
            nat = charge_code(a.qtotal)
    elif what == 'cov_detect_legcharge':
        exp, labels = A, list(a._labels)
        k = st['axis']
        nz = [i for i in range(A.shape[k]) if np.any(np.take(A, i, axis=k) != 0)]
        old, new = ex.phys(a.legs[k]), ex.phys(res.legs[k])
        if any(old[i] != new[i] for i in nz):
            fail('detected-charges-differ', f'axis {k}: {old} vs {new} on indices {nz}')
        if res.legs[k].qconj != st['qconj']:
            fail('qconj', '')
    elif what == 'cov_detect_grid_outer':
        cells = [None if t is None else dens[t] for t in st['grid']]
        first = next(c for c in cells if c is not None)
        exp = np.stack([np.zeros_like(first) if c is None else c for c in cells], axis=0)
    elif what == 'cov_norm':
        flat = (np.concatenate([d.reshape(-1) for d in dens]) if st.get('via') == 'list' else A.reshape(-1))
        if st['ord'] == '0':
            nat = int(np.count_nonzero(flat))
        elif st['ord'] == '1':
            nat = int(round(float(np.sum(np.abs(flat)))))
        else:
            nat = int(round(float(np.sum(np.abs(flat) ** 2))))
    elif what == 'cov_scalar_int_getitem':
        exp = A[tuple(st['inds'])]

    # ---- compare
    if isinstance(res, npc.Array):
        if exp is not None:
            got = res.to_ndarray()
            expa = np.asarray(exp)
            if got.shape != expa.shape or not np.array_equal(got, expa):
                fail('dense-differs-from-numpy', f'got shape {got.shape} expected {expa.shape}; '
                                                 f'first diff {ex.first_diff(got, expa)}')
        if labels is not None and list(res._labels) != list(labels):
            fail('labels-not-as-documented', f'got {res._labels!r} expected {labels!r}')
    elif isinstance(res, tuple):
        if nat is not None and res[1] != nat:
            fail('value-differs-from-numpy', f'got {res[1]} expected {nat}')
    else:
        if exp is not None and not (np.ndim(exp) == 0 and complex(res) == complex(exp)):
            fail('scalar-differs-from-numpy', f'got {res!r} expected {exp!r}')


# ------------------------------------------------------------------------------------------------ generator

def flip_leg(leg):
    """the same leg described with the opposite direction and negated charges (`flip_charges_qconj`)"""
    return dict(leg, qconj=-leg['qconj'], charges=[npcgen.valid(leg['mods'], [-x for x in c]) for c in leg['charges']])


def dense_of_desc(d):
    legs = d['legs']
    shape = [npcgen.leg_len(l) for l in legs]
    dense = np.zeros(shape, dtype=complex)
    for blk in d['blocks']:
        sl = tuple(slice(l['slices'][q], l['slices'][q + 1]) for l, q in zip(legs, blk['q']))
        dense[sl] = np.array([complex(*v) if isinstance(v, list) else v for v in blk['vals']]).reshape(dense[sl].shape)
    vals = [[int(z.real), int(z.imag)] if z.imag != 0 else int(z.real) for z in dense.reshape(-1)]
    return dense, dict(shape=shape, vals=vals)


def gen_coverage_case(g, rng, max_steps):
    """Program of 3-9 steps drawn from the recipes below (see module doc). `g` is the ProgGen."""
    g.rng = rng
    mods, pool, operands = g.gen_operands(rng)
    # a partner over the *flipped* legs of the first operand: equal legs in the sense of test_equal, contractible
    # with its conj — only reachable through LegCharge.flip_charges_qconj in user code
    base = operands[0]
    if rng.random() < 0.6:
        operands.append(arrgen.gen_tensor(rng, mods, [flip_leg(l) for l in base['legs']], dtype=base['dtype'],
                                          labels=list(base['labels']) if base['labels'] else None, qtotal=base['qtotal']))
    case = dict(operands=operands, steps=[], mods=mods, stream='coverage')
    g.pool, g.mods = pool, mods
    g.cplx = any(d['dtype'].startswith('complex') for d in operands)
    try:
        vals = [g.ex.io.make_array(d) for d in operands]
    except Exception:
        return case
    npc = g.npc
    ex = g.ex

    def emit(st, sure=True, malformed=False):
        st.setdefault('op', 'spec')
        if st['op'] == 'spec':
            st.setdefault('kind', 'inject')
        st['malformed'] = malformed
        st['sure'] = sure and not malformed
        try:
            res, _ = ex.run(vals, st)
        except Exception:
            if not sure and not malformed:
                return None
            res = None
        if isinstance(res, npc.Array):
            try:
                dn = res.to_ndarray()
                if dn.size > MAX_SIZE or (dn.size and np.max(np.abs(dn)) > 2 ** 20) or res.rank > 7:
                    return None
            except Exception:
                pass
        case['steps'].append(st)
        vals.append(res if isinstance(res, npc.Array) else None)
        return len(vals) - 1 if isinstance(res, npc.Array) else None

    def arrs():
        return [i for i, v in enumerate(vals) if isinstance(v, npc.Array)]

    def pick(pred=None):
        c = [i for i in arrs() if pred is None or pred(vals[i])]
        return rng.choice(c) if c else None

    def plain(v):
        return not any(isinstance(l, npc.LegPipe) for l in v.legs)

    def fresh_legs(rank, max_total=120):
        return arrgen.pick_legs(rng, pool, rank, max_total=max_total)

    def labels_for(n):
        return arrgen.gen_labels(rng, n) if rng.random() < 0.6 else None

    # ---------------- recipes
    def r_constructors():
        k = rng.choice(['trivial', 'detect', 'lenient', 'func', 'func', 'square', 'eye', 'diag'])
        dtype = rng.choice(arrgen.DTYPES)
        if k == 'trivial':
            shape = [rng.randint(1, 4) for _ in range(rng.randint(1, 3))]
            n = int(np.prod(shape))
            cplx = dtype.startswith('complex')
            emit(dict(what='cov_from_ndarray_trivial', **{'in': []}, dtype=dtype, labels=labels_for(len(shape)),
                      dense=dict(shape=shape, vals=[arrgen.gen_value(rng, cplx) for _ in range(n)])))
        elif k in ('detect', 'lenient'):
            legs = fresh_legs(rng.randint(1, 3))
            d = arrgen.gen_tensor(rng, mods, legs, dtype=dtype, p_store=0.9)
            dense, dd = dense_of_desc(d)
            if k == 'detect':
                if not np.any(dense != 0):
                    return
                emit(dict(what='cov_from_ndarray_detect', **{'in': []}, legs=legs, dtype=dtype, dense=dd,
                          labels=labels_for(len(legs)), expect_qtotal=d['qtotal']))
            else:
                v = list(dd['vals'])
                if not v:
                    return
                for _ in range(rng.randint(1, 2)):
                    j = rng.randrange(len(v))
                    if not isinstance(v[j], list):
                        v[j] = v[j] + 4
                emit(dict(what='cov_from_ndarray_lenient', **{'in': []}, legs=legs, dtype=dtype, qtotal=d['qtotal'],
                          dense=dict(shape=dd['shape'], vals=v), labels=labels_for(len(legs))))
        elif k == 'func':
            legs = fresh_legs(rng.randint(1, 3))
            qt = None if rng.random() < 0.4 else arrgen.gen_tensor(rng, mods, legs)['qtotal']
            emit(dict(what='cov_from_func', **{'in': []}, legs=legs, dtype=rng.choice(['float64', 'complex128', 'int64']),
                      qtotal=qt, via=rng.choice(['ones', 'shape_kw', 'args', 'nodtype']), fill=rng.choice([1, 2, -3]),
                      labels=labels_for(len(legs))))
            if case['steps'] and case['steps'][-1].get('via') == 'ones':
                case['steps'][-1]['fill'] = 1
        elif k == 'square':
            leg = dict(rng.choice(pool))
            if npcgen.leg_len(leg) ** 2 <= 200 and len(leg['charges']) <= 5:
                emit(dict(what='cov_from_func_square', **{'in': []}, leg=leg, dtype='float64',
                          labels=rng.choice([None, ['p', 'p*']])))
        elif k == 'eye':
            i = pick(lambda v: True)
            a = vals[i]
            ax = rng.randrange(a.rank)
            if a.shape[ax] <= 14:
                emit(dict(what='cov_eye_like', **{'in': [i]}, axis=g.axis_arg(a, ax), labels=rng.choice([None, ['p', 'p*']])))
        else:
            leg = dict(rng.choice(pool))
            n = npcgen.leg_len(leg)
            if n <= 14:
                vec = rng.random() < 0.6
                cplx = dtype.startswith('complex')
                s = [arrgen.gen_value(rng, cplx) for _ in range(n)] if vec else arrgen.gen_value(rng, cplx)
                emit(dict(what='cov_diag', **{'in': []}, leg=leg, s=s, vector=vec, dtype=dtype,
                          labels=rng.choice([None, ['a', 'b']])))

    def r_labels():
        i = pick()
        a = vals[i]
        k = rng.choice(['replace', 'replaces', 'drop', 'has'])
        free = [l for l in ['k1', 'k2', 'k3', 'z*', '(u.v)'] if l not in a._labels]
        if k == 'replace':
            ax = rng.randrange(a.rank)
            emit(dict(what='cov_replace_label', **{'in': [i]}, old=g.axis_arg(a, ax), new=free[0],
                      via=rng.choice(['copy', 'inplace'])))
        elif k == 'replaces':
            n = rng.randint(1, min(2, a.rank))
            axs = rng.sample(range(a.rank), n)
            news = free[:n]
            if rng.random() < 0.3 and n == 2 and all(a._labels[x] for x in axs):   # swap two labels
                news = [a._labels[axs[1]], a._labels[axs[0]]]
            emit(dict(what='cov_replace_labels', **{'in': [i]}, olds=[g.axis_arg(a, x) for x in axs], news=news,
                      via=rng.choice(['copy', 'inplace'])))
        elif k == 'drop':
            axes = None if rng.random() < 0.4 else [g.axis_arg(a, x) for x in rng.sample(range(a.rank), rng.randint(1, a.rank))]
            axes = None if axes is None else [x if not isinstance(x, int) or x >= 0 else x + a.rank for x in axes]
            emit(dict(what='cov_idrop_labels', **{'in': [i]}, axes=axes))
        else:
            lab = rng.choice([l for l in a._labels if l] + ['nope']) if rng.random() < 0.7 else 'nope'
            emit(dict(what='cov_has_label', **{'in': [i]}, label=lab))

    def r_arith():
        k = rng.choice(['div', 'div', 'eq', 'eq', 'matvec', 'norm'])
        i = pick()
        a = vals[i]
        if k == 'div':
            # exact division: scale first, then divide by the same (or a dividing) number
            s = rng.choice([2, -2, 4, 3])
            j = emit(dict(op='scale', via='__mul__', **{'in': [i]}, s=s))
            if j is not None:
                d = rng.choice([s, -s, 1, -1] + ([2] if s % 2 == 0 else []))
                if rng.random() < 0.08:      # malformed: division by zero must raise ZeroDivisionError in both kernels
                    emit(dict(what='cov_truediv', **{'in': [j]}, s=0, via=rng.choice(['__truediv__', 'itruediv'])),
                         malformed=True)
                else:
                    emit(dict(what='cov_truediv', **{'in': [j]}, s=d, via=rng.choice(['__truediv__', 'itruediv'])))
        elif k == 'eq':
            r = rng.random()
            if r < 0.35:
                j = emit(dict(op='copy', **{'in': [i]}, deep=True))
            elif r < 0.6:
                j = emit(dict(op='scale', via='__mul__', **{'in': [i]}, s=rng.choice([1, 2, -1])))
            elif r < 0.8 and None not in a._labels and a.rank >= 2:
                perm = list(range(a.rank))
                rng.shuffle(perm)
                j = emit(dict(op='transpose', via='transpose', **{'in': [i]}, axes=[a._labels[x] for x in perm]))
            else:
                c = [x for x in arrs() if x != i and g.compatible(a, vals[x])]
                j = rng.choice(c) if c else None
            if j is not None:
                emit(dict(what='cov_eq', **{'in': [i, j] if rng.random() < 0.5 else [j, i]}))
        elif k == 'matvec':
            i = pick(lambda v: v.rank == 2 and v.shape[0] > 0)
            if i is None:
                return
            a = vals[i]
            j = emit(dict(op='conj', via='conj', **{'in': [i]}))
            if j is None:
                return
            v = emit(dict(op='take_slice', via='lists', **{'in': [j]}, indices=[rng.randrange(a.shape[0])], axes=[0]))
            if v is not None and g.mag(a) ** 2 * max(1, a.shape[1]) < 2 ** 20:
                emit(dict(op='tensordot', via='matvec', **{'in': [i, v]}, axes=1))
        else:
            real = not str(a.dtype).startswith('complex')
            is32 = str(a.dtype) in ('float32', 'complex64')
            small = 2 * g.mag(a) ** 2 * max(1, int(np.prod(a.shape))) < (2 ** 21 if is32 else 2 ** 50)
            via = rng.choice(['ndarray', 'list', 'function', 'function'])
            if via == 'list':
                if small:
                    emit(dict(what='cov_norm', **{'in': [i, pick()]}, ord='2', via='list'))
            else:
                ords = ['0'] + (['1'] if real and small else []) + (['2'] if small else [])
                emit(dict(what='cov_norm', **{'in': [i]}, ord=rng.choice(ords), via=via,
                          convert_to_float=rng.random() < 0.8))

    def r_charges():
        k = rng.choice(['add', 'add', 'blocked', 'blocked', 'isblocked', 'mapping', 'flip', 'flip', 'size'])
        i = pick(plain)
        if i is None:
            return
        a = vals[i]
        if k == 'mapping':
            m = [int(x) for x in a.chinfo.mod]
            perm = list(range(len(m)))
            same = [(x, y) for x in perm for y in perm if x < y and m[x] == m[y]]
            if same and rng.random() < 0.7:          # swapping two charges of equal `mod` commutes with fusion
                x, y = rng.choice(same)
                perm[x], perm[y] = y, x
            emit(dict(what='cov_apply_charge_mapping', **{'in': [i]}, perm=perm))
            return
        if k == 'flip':
            j = emit(dict(what='cov_flip_leg', **{'in': [i]}, axis=rng.randrange(a.rank)))
            if j is not None and rng.random() < 0.7:   # legs equal only up to the flip: a +- flipped
                emit(dict(op='iadd_prefactor_other', via=rng.choice(['__add__', '__sub__']), **{'in': [i, j]}, p=1))
                case['steps'][-1]['p'] = 1 if case['steps'][-1]['via'] == '__add__' else -1
            return
        if k == 'size':
            emit(dict(what='cov_size_ndim', **{'in': [pick()]}))
            return
        if k == 'add':
            variant = rng.choice(['zero', 'copy']) if len(a.chinfo.mod) else 'zero'
            add_legs = []
            for l in a.legs:
                n = l.ind_len
                if variant == 'zero':
                    m = rng.choice([1, 2, 3])
                    if rng.random() < 0.5 or n == 0:
                        add_legs.append(dict(mods=[m], slices=[0, n], charges=[[0]], qconj=int(l.qconj), ctor='qind'))
                    else:
                        add_legs.append(dict(mods=[m], slices=list(range(n + 1)), charges=[[0]] * n, qconj=int(l.qconj), ctor='qind'))
                else:   # the first charge of `a` once more, with its own block structure
                    m = int(a.chinfo.mod[0])
                    add_legs.append(dict(mods=[m], slices=[int(s) for s in l.slices], charges=[[int(c[0])] for c in l.charges],
                                         qconj=int(l.qconj), ctor='qind'))
            if len({tuple(l['mods']) for l in add_legs}) > 1:
                add_legs = [dict(l, mods=add_legs[0]['mods'], charges=[[0]] * len(l['charges'])) for l in add_legs]
                variant = 'zero'
            qt = [0] if variant == 'zero' else [int(a.qtotal[0])]
            if rng.random() < 0.35 and a.stored_blocks > 0 and np.any(a._data[0] != 0):   # (detected from the first block)
                qt = None       # derived from the entries
            emit(dict(what='cov_add_charge', **{'in': [i]}, add_legs=add_legs, qtotal=qt))
        elif k == 'blocked':
            if int(np.prod([max(1, l.block_number) for l in a.legs])) <= 200:
                emit(dict(what='cov_as_completely_blocked', **{'in': [i]}))
        else:
            emit(dict(what='cov_is_completely_blocked', **{'in': [pick()]}))

    def r_indexing():
        k = rng.choice(['set_arr', 'set_arr', 'set_int', 'ellipsis', 'short', 'int_scalar'])
        i = pick(plain)
        if i is None:
            return
        a = vals[i]
        if any(s == 0 for s in a.shape):
            return
        if k == 'set_arr':
            inds = []
            for n in a.shape:
                r = rng.random()
                if r < 0.3:
                    inds.append(rng.randrange(n))
                elif r < 0.55:
                    inds.append(dict(slice=[None, None, None]))
                elif r < 0.8:
                    lo = rng.randint(0, n - 1)
                    inds.append(dict(slice=[lo, rng.randint(lo + 1, n), None]))
                else:
                    m = [rng.random() < 0.6 for _ in range(n)]
                    if not any(m):
                        m[0] = True
                    inds.append(dict(mask=m))
            if all(not isinstance(x, dict) for x in inds):
                inds[rng.randrange(a.rank)] = dict(slice=[None, None, None])
            st = dict(op='spec', kind='ix', what='getitem', **{'in': [i]}, inds=inds)
            g.add_ix(st, a.shape)
            v = emit(st)
            if v is None:
                return
            w = emit(dict(op='scale', via='__mul__', **{'in': [v]}, s=rng.choice([2, -1, 3])))
            if w is None:
                return
            st = dict(op='spec', kind='setix', what='setitem', **{'in': [i, w]}, inds=inds)
            g.add_ix(st, a.shape)
            emit(st)
        elif k == 'set_int':
            nz = np.argwhere(a.to_ndarray() != 0)
            if len(nz) == 0:
                return
            idx = [int(x) for x in nz[rng.randrange(len(nz))]]
            idx = [x - n if rng.random() < 0.2 else x for x, n in zip(idx, a.shape)]
            emit(dict(what='cov_setitem_int', **{'in': [i]}, inds=idx, value=rng.choice([0, 5, -2])))
        elif k == 'ellipsis' and a.rank >= 2:
            pos = rng.choice(['front', 'back', 'middle'])
            i0, i1 = rng.randrange(a.shape[0]), rng.randrange(a.shape[-1])
            inds = {'front': [dict(ellipsis=True), i1], 'back': [i0, dict(ellipsis=True)],
                    'middle': [i0, dict(ellipsis=True), i1]}[pos]
            if pos == 'middle' and a.rank == 2:
                return
            emit(dict(what='cov_getitem', **{'in': [i]}, inds=inds))
        elif k == 'short' and a.rank >= 2:
            emit(dict(what='cov_getitem', **{'in': [i]}, inds=[rng.randrange(a.shape[0])]))
        elif k == 'int_scalar':
            emit(dict(what='cov_scalar_int_getitem', **{'in': [i]}, inds=[rng.randrange(n) for n in a.shape]))

    def r_grids():
        k = rng.choice(['grid2', 'grid2', 'nocopy', 'detect_grid', 'extend_leg'])
        i = pick(lambda v: plain(v) and v.rank >= (2 if k == 'grid2' else 1))
        if i is None:
            return
        a = vals[i]
        if k == 'grid2':
            ax = rng.sample(range(a.rank), 2)
            gs = [rng.randint(1, 2), rng.randint(1, 2)]
            if int(np.prod(a.shape)) * gs[0] * gs[1] > MAX_SIZE:
                return
            sib = [x for x in arrs() if g.compatible(a, vals[x]) and vals[x]._labels == a._labels]
            ids = [i] + ([rng.choice(sib)] if sib else [])
            cells = [rng.choice(list(range(len(ids))) + [None]) for _ in range(gs[0] * gs[1])]
            # no row / column of the grid may consist of None only
            grid = np.array(cells, dtype=object).reshape(gs)
            for r_ in range(gs[0]):
                if all(x is None for x in grid[r_, :]):
                    grid[r_, 0] = 0
            for c_ in range(gs[1]):
                if all(x is None for x in grid[:, c_]):
                    grid[0, c_] = 0
            emit(dict(what='cov_grid_concat', **{'in': ids}, gshape=gs, grid=[x for x in grid.reshape(-1)],
                      axes=[g.axis_arg(a, x) if a._labels[x] else x for x in ax], copy=rng.random() < 0.7))
        elif k == 'nocopy':
            ax = rng.randrange(a.rank)
            if int(np.prod(a.shape)) * 2 <= MAX_SIZE:
                emit(dict(what='cov_concatenate_nocopy', **{'in': [i, i]}, axis=g.axis_arg(a, ax)))
        elif k == 'detect_grid':
            n = rng.randint(1, 3)
            if int(np.prod(a.shape)) * n > MAX_SIZE or a.rank > 4:
                return
            grid = [rng.choice([0, 0, None]) for _ in range(n)]
            if any(x is None for x in grid) and False:
                pass
            grid = [0 if x is None else x for x in grid]      # every index needs an entry to derive its charge
            emit(dict(what='cov_detect_grid_outer', **{'in': [i]}, grid=grid, qconj=rng.choice([1, -1]),
                      qtotal=None if rng.random() < 0.5 else [int(x) for x in a.qtotal]))
        else:
            ax = rng.randrange(a.rank)
            extra = dict(rng.choice(pool))
            extra = dict(extra, qconj=rng.choice([1, -1]))
            n = npcgen.leg_len(extra)
            if [int(m) for m in a.chinfo.mod] != list(extra['mods']):
                return
            if int(np.prod(a.shape)) // max(1, a.shape[ax]) * (a.shape[ax] + n) <= MAX_SIZE:
                emit(dict(what='cov_extend_leg', **{'in': [i]}, axis=ax, axis_arg=g.axis_arg(a, ax), n=n, extra=extra))

    def r_detect():
        i = pick(plain)
        if i is None:
            return
        a = vals[i]
        if a.stored_blocks == 0 or not np.any(a.to_ndarray() != 0):
            return
        if rng.random() < 0.4:
            emit(dict(what='cov_detect_qtotal', **{'in': [i]}))
        else:
            emit(dict(what='cov_detect_legcharge', **{'in': [i]}, axis=rng.randrange(a.rank), qconj=rng.choice([1, -1])))

    def r_pipes():
        """scale_axis / iproject / permute / take_slice / sort_legcharge on a pipe leg; qconj lists and new_axes"""
        i = pick(lambda v: 2 <= v.rank <= 5 and plain(v))
        if i is None:
            return
        a = vals[i]
        axes = list(range(a.rank))
        rng.shuffle(axes)
        if a.rank >= 4 and rng.random() < 0.5:
            cl = [axes[:2], axes[2:4]]
            qc = [rng.choice([1, -1]), rng.choice([1, -1])]
        else:
            cl, qc = [axes[:2]], [rng.choice([None, 1, -1])]
        for grp in cl:
            if np.prod([a.legs[x].block_number for x in grp]) > 40:
                return
        new_rank = a.rank - sum(len(c) for c in cl) + len(cl)
        na = rng.sample(range(new_rank), len(cl))
        na = [x - new_rank if rng.random() < 0.5 else x for x in na]
        j = emit(dict(op='combine_legs', **{'in': [i]}, cl=[[g.axis_arg(a, x) for x in c] for c in cl], new_axes=na, qconj=qc),
                 sure=False)
        if j is None:
            return
        b = vals[j]
        p = [x for x, l in enumerate(b.legs) if isinstance(l, npc.LegPipe)][0]
        n = b.shape[p]
        k = rng.choice(['scale_axis', 'iproject', 'permute', 'take_slice', 'sort'])
        if n == 0:
            return
        if k == 'scale_axis':
            emit(dict(op='scale_axis', via=rng.choice(['scale_axis', 'iscale_axis']), **{'in': [j]},
                      s=[rng.choice([-2, -1, 1, 2, 3, 0]) for _ in range(n)], axis=g.axis_arg(b, p)))
        elif k == 'iproject':
            m = [rng.random() < 0.6 for _ in range(n)]
            emit(dict(op='iproject', via='single', **{'in': [j]}, masks=[dict(b=m)], axes=[g.axis_arg(b, p)]))
        elif k == 'permute' and n <= 12:
            perm = list(range(n))
            rng.shuffle(perm)
            emit(dict(op='permute', **{'in': [j]}, perm=perm, axis=g.axis_arg(b, p)))
        elif k == 'take_slice' and b.rank >= 2:
            emit(dict(op='take_slice', via='scalar_args', **{'in': [j]}, indices=[rng.randrange(n) - (n if rng.random() < 0.3 else 0)],
                      axes=[g.axis_arg(b, p)]))
        else:
            sort = [rng.random() < 0.5 for _ in range(b.rank)]
            bunch = [rng.random() < 0.5 for _ in range(b.rank)]
            sort[p] = True
            emit(dict(op='sort_legcharge', via='lists', **{'in': [j]}, sort=sort, bunch=bunch))

    def r_flipped():
        """operations between tensors over legs that agree only up to flip_charges_qconj"""
        if len(vals) < 2 or vals[-1] is None:
            return
        n0 = len(operands)
        i, j = 0, n0 - 1
        if not (isinstance(vals[i], npc.Array) and isinstance(vals[j], npc.Array)) or i == j:
            return
        a, b = vals[i], vals[j]
        if not g.compatible(a, b):
            return
        k = rng.choice(['add', 'inner', 'tensordot', 'concat'])
        if k == 'add':
            emit(dict(op='iadd_prefactor_other', via=rng.choice(['__add__', '__sub__']), **{'in': [i, j] if rng.random() < 0.5 else [j, i]},
                      p=1))
            case['steps'][-1]['p'] = 1 if case['steps'][-1]['via'] == '__add__' else -1
        elif k == 'inner':
            if g.mag(a) * g.mag(b) * max(1, int(np.prod(a.shape))) < 2 ** 20:
                emit(dict(op='inner', **{'in': [i, j]}, axes='range', do_conj=True))
        elif k == 'tensordot':
            c = emit(dict(op='conj', via='conj', **{'in': [j]}))
            if c is not None and g.mag(a) * g.mag(b) * max(1, int(np.prod(a.shape))) < 2 ** 20:
                kk = rng.randint(1, a.rank)
                ax = rng.sample(range(a.rank), kk)
                if int(np.prod([s for t, s in enumerate(a.shape) if t not in ax])) ** 2 <= MAX_SIZE:
                    emit(dict(op='tensordot', **{'in': [i, c]}, axes=[ax, ax]))
        else:
            ax = rng.randrange(a.rank)
            if int(np.prod(a.shape)) * 2 <= MAX_SIZE:
                emit(dict(op='concatenate', via='concatenate', **{'in': [i, j]}, axis=ax))

    def r_reported():
        """calls on which the model was found to deviate (prover round 3): concatenate with an operand of lower
        rank, sort_legcharge with nothing selected, a[i] with fewer integers than legs, qconj not in {+1, -1},
        ChargeInfo names (compatible and conflicting)"""
        k = rng.choice(['sort_none', 'partial', 'partial', 'names_ok', 'names_ok', 'names_bad', 'concat_rank', 'qconj'])
        i = pick()
        a = vals[i]
        if k == 'sort_none':
            if rng.random() < 0.5:
                emit(dict(op='sort_legcharge', via='bools', **{'in': [i]}, sort=[False] * a.rank, bunch=[False] * a.rank))
            else:
                emit(dict(op='sort_legcharge', via='lists', **{'in': [i]}, sort=[False] * a.rank, bunch=[False] * a.rank))
        elif k == 'partial':
            if a.rank >= 2 and all(n > 0 for n in a.shape):
                n = rng.randint(1, a.rank - 1)
                emit(dict(op='getitem_int', **{'in': [i]},
                          inds=[rng.randrange(s) - (s if rng.random() < 0.3 else 0) for s in a.shape[:n]]))
                if rng.random() < 0.3:       # malformed: out of range / too many
                    bad = [rng.randrange(s) for s in a.shape[:n]]
                    bad[0] = a.shape[0] + rng.randint(0, 1) if rng.random() < 0.5 else -a.shape[0] - 1
                    emit(dict(op='getitem_int', **{'in': [i]}, inds=bad), malformed=True)
        elif k in ('names_ok', 'names_bad'):
            base = operands[0]
            if not mods or any(not l['charges'] for l in base['legs']):
                return
            cur = base.get('names') or [''] * len(mods)

            def fresh(names):
                d = arrgen.gen_tensor(rng, mods, base['legs'], dtype=base['dtype'], qtotal=base['qtotal'], p_store=0.8)
                _, dd = dense_of_desc(d)
                return emit(dict(op='from_ndarray', **{'in': []}, legs=[dict(l) for l in base['legs']], mods=mods,
                                 qtotal=base['qtotal'], dtype=base['dtype'], labels=base['labels'], dense=dd, names=names))
            if k == 'names_ok':
                # missing names are ignored by ChargeInfo.__eq__
                other = [n if rng.random() < 0.5 else '' for n in cur] if any(cur) else ['Q%d' % t if rng.random() < 0.7 else '' for t in range(len(mods))]
                x, y = 0, fresh(other)
                bad = False
            else:
                x = fresh(['A%d' % t for t in range(len(mods))])
                y = fresh(['A0' if t else 'B0' for t in range(len(mods))] if len(mods) > 1 and rng.random() < 0.5
                          else ['B%d' % t for t in range(len(mods))])
                bad = True
            if x is None or y is None:
                return
            ax, bx = vals[x], vals[y]
            op = rng.choice(['add', 'binary', 'outer', 'inner', 'concat', 'tensordot'])
            small = g.mag(ax) * g.mag(bx) * max(1, int(np.prod(ax.shape))) < 2 ** 20
            if op == 'add':
                emit(dict(op='iadd_prefactor_other', via='direct', **{'in': [x, y]}, p=rng.choice([1, -1, 2])), malformed=bad)
            elif op == 'binary':
                emit(dict(op='binary_blockwise', via='binary_blockwise', **{'in': [x, y]}, f=rng.choice(['add', 'sub'])), malformed=bad)
            elif op == 'outer' and int(np.prod(ax.shape)) ** 2 <= MAX_SIZE and ax.rank <= 3:
                emit(dict(op='outer', **{'in': [x, y]}), malformed=bad)
            elif op == 'inner' and small:
                emit(dict(op='inner', **{'in': [x, y]}, axes='range', do_conj=True), malformed=bad)
            elif op == 'concat' and int(np.prod(ax.shape)) * 2 <= MAX_SIZE:
                emit(dict(op='concatenate', via='concatenate', **{'in': [x, y]}, axis=rng.randrange(ax.rank)), malformed=bad)
            elif op == 'tensordot' and small and ax.rank >= 2:
                c = emit(dict(op='conj', via='conj', **{'in': [y]}))
                if c is not None:
                    kk = rng.randint(1, ax.rank - 1)         # the result keeps a leg of the first operand
                    axs = rng.sample(range(ax.rank), kk)
                    if int(np.prod([s_ for t, s_ in enumerate(ax.shape) if t not in axs])) ** 2 <= MAX_SIZE:
                        emit(dict(op='tensordot', **{'in': [x, c]}, axes=[axs, axs]), malformed=bad)
        elif k == 'concat_rank':
            if a.rank > 5 or int(np.prod(a.shape)) * 2 > MAX_SIZE:
                return
            c = emit(dict(op='add_trivial_leg', **{'in': [i]}, axis=a.rank, label=None, qconj=rng.choice([1, -1])))
            if c is not None:   # [rank r+1, rank r] along the last axis of the first: `a.legs[axis]` fails
                emit(dict(op='concatenate', via='concatenate', **{'in': [c, i]}, axis=rng.choice([a.rank, -1])), malformed=True)
        else:
            if rng.random() < 0.5:
                emit(dict(op='add_trivial_leg', **{'in': [i]}, axis=rng.randint(0, a.rank), label=None,
                          qconj=rng.choice([0, 2, -2, 3])), malformed=True)
            elif a.rank >= 2:
                grp = rng.sample(range(a.rank), 2)
                emit(dict(op='combine_legs', **{'in': [i]}, cl=[[g.axis_arg(a, x) for x in grp]],
                          qconj=[rng.choice([0, 2, -3])], via=rng.choice(['single', None])), malformed=True)

    recipes = [r_constructors, r_labels, r_arith, r_charges, r_indexing, r_grids, r_detect, r_pipes, r_flipped, r_reported]
    weights = [3, 2, 3, 2, 3, 2, 2, 3, 3, 4]
    n = rng.randint(2, 4)
    for _ in range(3 * n):
        if len(case['steps']) >= max(3, min(max_steps + 1, 9)):
            break
        try:
            rng.choices(recipes, weights=weights)[0]()
        except Exception:
            continue
        n -= 1
        if n <= 0 and len(case['steps']) >= 3:
            break
    cplx = g.cplx or any(g.is_cplx_step(s) for s in case['steps']) or any(
        str(v.dtype).startswith('complex') for v in vals if isinstance(v, npc.Array))
    case['scalar'] = 'gint' if cplx else 'int'
    return case
