"""DictCache / CacheFile over Storage, PickleStorage, Hdf5Storage (sequential part of C20).

Three parties per generated operation sequence:
  impl    the real `tenpy.tools.cache` classes
  model   the Lean model `TenpyModel.C20.Cache` (through the driver)       -> correspondence
  oracle  a plain Python dict per cache (written here, independent of the model) -> property

Operations are JSON lists `[cache id, name, args...]` (cache 0 = the CacheFile, sub-caches are numbered in
creation order).  Keys are small ints (`'k<i>'` in the implementation), values small ints mapped to
ints / strings / lists, sub-container names small ints (`'s<i>'`; names >= 10 are `'k<i-10>'`, i.e. equal to a
key name, used only by the name-collision stream).
"""
import json
import multiprocessing
import os
import shutil
import tempfile
import warnings

from vlib import core

STORAGES = ['Storage', 'PickleStorage', 'Hdf5Storage']
UNSPEC = '<unspecified>'


def keyname(k):
    return 'k%d' % k


def subname(n):
    return 's%d' % n if n < 10 else 'k%d' % (n - 10)


def mkval(n):
    r = n % 3
    if r == 0:
        return n
    if r == 1:
        return 'v%d' % n
    return [n, n + 1]


def unval(x):
    """inverse of mkval (after a round trip through pickle / hdf5); anything else is returned as a string"""
    try:
        import numpy as np
        if isinstance(x, np.generic):
            x = x.item()
        if isinstance(x, np.ndarray):
            x = x.tolist()
    except Exception:
        pass
    if isinstance(x, bool):
        return 'bad:%r' % (x,)
    if isinstance(x, int) and x % 3 == 0:
        return x
    if isinstance(x, str) and x.startswith('v') and x[1:].isdigit() and int(x[1:]) % 3 == 1:
        return int(x[1:])
    if isinstance(x, (list, tuple)) and len(x) == 2 and all(isinstance(y, int) for y in x) \
            and x[1] == x[0] + 1 and x[0] % 3 == 2:
        return x[0]
    return 'bad:%r' % (x,)


# ---------------------------------------------------------------------------------------------
# generator


def gen_ops(rng, maxlen, nkeys=4, subs=True, close_prob=0.25, collide=False):
    n = rng.randint(2, maxlen)
    ops = []
    ncache = 1
    nval = [0]

    def key():
        return rng.randrange(nkeys)

    def fresh_val():
        nval[0] += 1
        return nval[0]

    closed_at = rng.randrange(n) if rng.random() < close_prob else None
    for i in range(n):
        c = rng.randrange(ncache) if rng.random() < 0.6 else (ncache - 1 if rng.random() < 0.5 else 0)
        if closed_at is not None and i == closed_at:
            ops.append([0, 'close'])
            continue
        r = rng.random()
        if r < 0.24:
            ops.append([c, 'set', key(), fresh_val()])
        elif r < 0.42:
            ops.append([c, 'getitem', key()])
        elif r < 0.50:
            ops.append([c, 'get', key()])
        elif r < 0.62:
            ops.append([c, 'del', key()])
        elif r < 0.67:
            ops.append([c, 'contains', key()])
        elif r < 0.70:
            ops.append([c, 'len'])
        elif r < 0.74:
            ops.append([c, 'iter'])
        elif r < 0.84:
            ks = [key() for _ in range(rng.randint(0, 3))]
            ops.append([c, 'stk', ks])
        elif r < 0.92:
            ks = [key() for _ in range(rng.randint(1, 3))]
            ops.append([c, 'preload', ks, rng.random() < 0.3])
        elif r < 0.97 and subs and ncache < 4:
            name = rng.randrange(3) if not collide else 10 + rng.randrange(nkeys)
            ops.append([c, 'sub', name])
            ncache += 1  # optimistic; fixed below
        else:
            ops.append([c, 'bool'])
    return fix_cids(ops)


def fix_cids(ops, unique=True):
    """Make cache ids valid w.r.t. the sub-caches that are actually created (a duplicate name or a closed
    storage creates nothing): ops on a non-existent cache are redirected to cache 0."""
    n = 1
    names = {}
    closed = False
    out = []
    for op in ops:
        c = op[0] if op[0] < n else 0
        op = [c] + list(op[1:])
        if op[1] == 'close' and c == 0:
            closed = True  # a second close changes nothing
        if op[1] == 'sub' and not closed:
            # with unique names (pickle/hdf5) a duplicate raises; for plain Storage it creates. To keep one op
            # list valid for every storage class, duplicate names are only generated as *failing* for
            # unique kinds and cache ids are assigned as the unique kinds do -> drop duplicates for Storage
            if op[2] in names.setdefault(c, set()):
                op = [c, 'sub_dup', op[2]]
            else:
                names[c].add(op[2])
                n += 1
        out.append(op)
    return out


# ---------------------------------------------------------------------------------------------
# implementation runner

ERRS = {
    'Trying to access closed storage': 'closed',
    'storage was already closed': 'alreadyClosed',
    'Subcontainer with that name already exists': 'subExists',
}


def exc_name(e):
    if isinstance(e, KeyError):
        return 'KeyError'
    if isinstance(e, ValueError):
        for msg, name in ERRS.items():
            if msg in str(e):
                return name
    return 'exc:' + type(e).__name__


def apply_op(caches, op):
    """apply one op to the list of real caches; returns the JSON-able output"""
    if op[0] >= len(caches):     # an earlier create_subcache failed on the real classes
        return {'err': 'noSuchCache'}
    c = caches[op[0]]
    name = op[1]
    try:
        if name == 'set':
            c[keyname(op[2])] = mkval(op[3])
            return None
        if name == 'getitem':
            return {'val': unval(c[keyname(op[2])])}
        if name == 'get':
            r = c.get(keyname(op[2]))
            return {'val': None if r is None else unval(r)}
        if name == 'del':
            del c[keyname(op[2])]
            return None
        if name == 'contains':
            return {'bool': keyname(op[2]) in c}
        if name == 'len':
            return {'nat': len(c)}
        if name == 'iter':
            return {'keys': sorted(int(k[1:]) for k in c)}
        if name == 'stk':
            c.set_short_term_keys(*[keyname(k) for k in op[2]])
            return None
        if name == 'preload':
            c.preload(*[keyname(k) for k in op[2]], raise_missing=op[3])
            return None
        if name in ('sub', 'sub_dup'):
            s = c.create_subcache(subname(op[2]))
            caches.append(s)
            return {'sub': len(caches) - 1}
        if name == 'close':
            c.close()
            return None
        if name == 'bool':
            return {'bool': bool(c)}
        raise RuntimeError('unknown op ' + name)
    except Exception as e:  # noqa
        return {'err': exc_name(e)}


def run_impl(storage, ops, threaded=False, max_queue_size=2):
    """Run on the real classes. Returns (outs, post) where post = facts about the state after a final close."""
    from tenpy.tools.cache import CacheFile
    tmp = tempfile.mkdtemp(prefix='verif_c20_')
    post = {}
    try:
        kw = {}
        if storage != 'Storage':
            kw['tmpdir'] = tmp
        with warnings.catch_warnings():
            warnings.simplefilter('ignore')
            cache = CacheFile.open(storage_class=storage, use_threading=threaded, max_queue_size=max_queue_size,
                                   **kw)
        caches = [cache]
        outs = []
        try:
            for op in ops:
                outs.append(apply_op(caches, op))
        finally:
            if cache.long_term_storage._opened:
                try:
                    cache.close()
                    post['close_exc'] = None
                except Exception as e:  # noqa
                    post['close_exc'] = type(e).__name__ + ': ' + str(e)[:100]
        post['open_after_close'] = [i for i, c in enumerate(caches) if bool(c)]
        post['leftover'] = sorted(os.listdir(tmp))
        if threaded:
            post['thread_alive'] = cache.long_term_storage.worker.worker_thread.is_alive()
        return outs, post
    finally:
        shutil.rmtree(tmp, ignore_errors=True)


# ---------------------------------------------------------------------------------------------
# oracle: a dictionary per cache


def run_oracle(ops, unique):
    """Expected outputs by the dictionary specification; UNSPEC where the spec is silent (data access after
    close)."""
    dicts = [{}]
    names = [set()]
    closed = False
    outs = []
    for op in ops:
        c, name = op[0], op[1]
        d = dicts[c]
        if closed:
            if name == 'close':
                outs.append({'err': 'alreadyClosed'})
            elif name == 'bool':
                outs.append({'bool': False})
            else:
                outs.append(UNSPEC)
            continue
        if name == 'set':
            d[op[2]] = op[3]
            outs.append(None)
        elif name == 'getitem':
            outs.append({'val': d[op[2]]} if op[2] in d else {'err': 'KeyError'})
        elif name == 'get':
            outs.append({'val': d.get(op[2])})
        elif name == 'del':
            d.pop(op[2], None)
            outs.append(None)
        elif name == 'contains':
            outs.append({'bool': op[2] in d})
        elif name == 'len':
            outs.append({'nat': len(d)})
        elif name == 'iter':
            outs.append({'keys': sorted(d)})
        elif name == 'stk':
            outs.append(None)
        elif name == 'preload':
            outs.append({'err': 'KeyError'} if op[3] and any(k not in d for k in op[2]) else None)
        elif name in ('sub', 'sub_dup'):
            if unique and op[2] in names[c]:
                outs.append({'err': 'subExists'})
            else:
                names[c].add(op[2])
                dicts.append({})
                names.append(set())
                outs.append({'sub': len(dicts) - 1})
        elif name == 'close':
            closed = True
            outs.append(None)
        elif name == 'bool':
            outs.append({'bool': True})
    return outs


def model_ops(ops, unique):
    """ops as the Lean driver wants them (sub_dup is a plain sub there; the model decides)"""
    out = []
    for op in ops:
        if op[1] == 'sub_dup':
            out.append([op[0], 'sub', op[2]])
        else:
            out.append(op)
    return out


def usable_for(storage, ops):
    """`Storage.subcontainer` accepts duplicate names (creates a second dict): cache numbering would differ from
    the unique kinds, so sequences with a duplicate name are only run on the unique kinds."""
    return storage != 'Storage' or not any(op[1] == 'sub_dup' for op in ops)


# ---------------------------------------------------------------------------------------------
# classification of a property failure


def collides(storage, ops, i):
    """does op i touch a key / sub-container name that equals a sub-container name / key of the same cache?
    (Hdf5Storage keeps both in one hdf5 group)"""
    if storage != 'Hdf5Storage':
        return False
    op = ops[i]
    c = op[0]
    keys_used = {keyname(o[2]) for o in ops[:i + 1] if o[0] == c and o[1] in ('set',)}
    subs_used = {subname(o[2]) for o in ops[:i + 1] if o[0] == c and o[1] in ('sub', 'sub_dup')}
    return bool(keys_used & subs_used)


def classify(storage, ops, impl, post, orc):
    """First deviation of the implementation from the dictionary spec -> (signature, detail) or (None, None)."""
    tag = storage
    for i, (a, b) in enumerate(zip(impl, orc)):
        if b == UNSPEC or a == b:
            continue
        name = ops[i][1]
        if collides(storage, ops, i):
            return ('cache.hdf5.key-equals-subcache-name',
                    f'{tag} step {i} {ops[i]}: impl {a} expected {b} (key and sub-container share one hdf5 group)')
        if name in ('getitem', 'get'):
            if isinstance(a, dict) and a.get('val') is not None and (b == {'err': 'KeyError'} or b == {'val': None}):
                deleted = any(o[0] == ops[i][0] and o[1] == 'del' and o[2] == ops[i][2] for o in ops[:i])
                what = 'stale-value-after-delete' if deleted else 'value-for-absent-key'
                return f'cache.read.{what}', f'{tag} step {i} {ops[i]}: impl {a} expected {b}'
            if isinstance(a, dict) and 'err' in a:
                return f'cache.read.raises.{a["err"]}', f'{tag} step {i} {ops[i]}: impl {a} expected {b}'
            return 'cache.read.wrong-value', f'{tag} step {i} {ops[i]}: impl {a} expected {b}'
        if name == 'set' and isinstance(a, dict) and 'err' in a:
            over = any(o[0] == ops[i][0] and o[1] == 'set' and o[2] == ops[i][2] for o in ops[:i])
            return (f'cache.set.{"overwrite-" if over else ""}raises.{storage}',
                    f'{tag} step {i} {ops[i]}: impl {a} expected {b}')
        if name == 'bool':
            return (f'cache.close.{"sub" if ops[i][0] else ""}cache-still-open',
                    f'{tag} step {i} {ops[i]}: bool() is {a} expected {b}')
        return f'cache.{name}.mismatch', f'{tag} step {i} {ops[i]}: impl {a} expected {b}'
    if post.get('close_exc'):
        return 'cache.close.raises', f'{tag}: final close raised {post["close_exc"]}'
    if post.get('open_after_close'):
        which = post['open_after_close']
        return (f'cache.close.{"sub" if min(which) > 0 else ""}cache-still-open',
                f'{tag}: caches {which} are still "open" (bool() is True) after the CacheFile was closed')
    if post.get('leftover'):
        return 'cache.close.files-left-behind', f'{tag}: {post["leftover"]}'
    if post.get('thread_alive'):
        return 'cache.close.thread-alive', f'{tag}: worker thread alive after close'
    return None, None


def shrink(ops, fails):
    """greedy removal of operations (never of a sub-cache creation that is referenced later)"""
    cur = list(ops)
    changed = True
    while changed:
        changed = False
        for i in range(len(cur)):
            if cur[i][1] in ('sub', 'sub_dup'):
                continue
            cand = cur[:i] + cur[i + 1:]
            if cand and fails(cand):
                cur, changed = cand, True
                break
    # trailing sub creations that nobody uses
    while len(cur) > 1 and cur[-1][1] in ('sub', 'sub_dup') and fails(cur[:-1]):
        cur = cur[:-1]
    return cur


# ---------------------------------------------------------------------------------------------


def nontrivial(ops):
    """>= 1 read of a key that was written before, and at least one of: delete, overwrite, short-term keys,
    sub-cache"""
    written = set()
    read_after_write = False
    spice = False
    for op in ops:
        if op[1] == 'set':
            if (op[0], op[2]) in written:
                spice = True
            written.add((op[0], op[2]))
        elif op[1] in ('getitem', 'get') and (op[0], op[2]) in written:
            read_after_write = True
        elif op[1] in ('del', 'stk', 'preload', 'sub'):
            spice = True
    return read_after_write and spice


def check_case(res, storage, ops, mod, threaded=False, pre=None):
    """one (storage, ops) pair: impl vs oracle (property) and impl vs model (correspondence)"""
    unique = storage != 'Storage'
    case = {'part': 'cache', 'storage': storage, 'ops': ops, 'threaded': threaded}
    res.note_case(case, nontrivial(ops))
    res.count('cache.storage.' + storage + ('+thread' if threaded else ''))
    res.count('cache.len=%d' % min(len(ops), 20))
    for o in ops:
        res.count('cache.op.' + o[1])
    if any(o[1] == 'close' for o in ops):
        res.count('cache.with-close')
    if any(o[0] > 0 for o in ops):
        res.count('cache.with-subcache-ops')
    impl, post = pre if pre is not None else run_impl(storage, ops, threaded=threaded)
    orc = run_oracle(ops, unique)
    sig, detail = classify(storage, ops, impl, post, orc)
    if sig:
        def fails(c):
            c = fix_cids([[o[0], 'sub' if o[1] == 'sub_dup' else o[1]] + list(o[2:]) for o in c])
            if not usable_for(storage, c):
                return False
            i2, p2 = run_impl(storage, c, threaded=threaded)
            return classify(storage, c, i2, p2, run_oracle(c, unique))[0] == sig
        shrunk = getattr(res, '_shrunk', None)
        if shrunk is None:
            shrunk = res._shrunk = set()
        small = ops
        if (sig, storage) not in shrunk:     # shrink only the first failure of each kind
            shrunk.add((sig, storage))
            small = shrink(ops, fails)
        small = fix_cids([[o[0], 'sub' if o[1] == 'sub_dup' else o[1]] + list(o[2:]) for o in small])
        i2, p2 = run_impl(storage, small, threaded=threaded)
        sig2, detail2 = classify(storage, small, i2, p2, run_oracle(small, unique))
        if sig2 != sig:
            small, detail2 = ops, detail
        res.fail('property', sig, detail2, {'part': 'cache', 'storage': storage, 'threaded': threaded,
                                            'ops': small, 'original': ops})
    if mod is not None:
        res.traces_validated += 1
        mouts = mod.get('outs')
        if 'error' in mod or mouts != impl:
            if not sig:
                first = next((i for i, (a, b) in enumerate(zip(mouts or [], impl)) if a != b), None)
                res.fail('correspondence', 'cache.model-vs-impl',
                         f'{storage}: first difference at step {first}: '
                         f'model {mouts[first] if mouts and first is not None else mod} '
                         f'impl {impl[first] if first is not None else impl}', case)
    return sig


CORPUS = [
    # DESIGN section 10: stale short-term copy after delete
    ('delitem-stale', [[0, 'stk', [0]], [0, 'set', 0, 1], [0, 'del', 0], [0, 'getitem', 0]]),
    # DESIGN section 10: Hdf5Storage cannot overwrite
    ('overwrite', [[0, 'set', 0, 1], [0, 'set', 0, 2], [0, 'getitem', 0]]),
    # sub-caches: same keys, isolated; closed together with the parent
    ('subcache', [[0, 'set', 1, 3], [0, 'sub', 0], [1, 'set', 1, 4], [1, 'sub', 0], [2, 'set', 1, 5],
                  [0, 'getitem', 1], [1, 'getitem', 1], [2, 'getitem', 1], [1, 'del', 1], [0, 'getitem', 1],
                  [2, 'getitem', 1], [0, 'close'], [1, 'bool'], [2, 'bool']]),
    ('preload-stk', [[0, 'set', 0, 1], [0, 'preload', [0, 1], False], [0, 'getitem', 0], [0, 'set', 0, 2],
                     [0, 'getitem', 0], [0, 'stk', []], [0, 'getitem', 0], [0, 'preload', [1], True]]),
    # known finding: Hdf5Storage keeps keys and sub-containers in one hdf5 group (names >= 10 are key names)
    ('hdf5-name-collision', [[0, 'set', 0, 1], [0, 'sub', 10], [0, 'getitem', 0]]),
]


def _impl_job(job):
    core.use_repo()
    return run_impl(job[0], job[1])


def load_corpus_files():
    out = []
    for f in sorted((core.CORPUS_DIR / 'C20').glob('*.json')):
        c = json.loads(f.read_text())
        if c.get('part') == 'cache' and not c.get('threaded'):
            out.append(c['ops'])
    return out


def run_cases(ctx, cases, use_model=True, storages=STORAGES, procs=1):
    """cases: list of op lists. Every case is run on every storage class."""
    if os.environ.get('VERIF_PROCS'):      # e.g. VERIF_PROCS=1 for coverage measurements (everything in-process)
        procs = int(os.environ['VERIF_PROCS'])
    res = core.Result()
    jobs = []
    for ops in cases:
        for st in storages:
            if usable_for(st, ops):
                jobs.append((st, ops))
    mods = [None] * len(jobs)
    if use_model and jobs:
        mods = core.run_driver('C20', [{'k': 'cache', 'unique': st != 'Storage', 'ops': model_ops(ops, st != 'Storage')}
                                       for st, ops in jobs])
    pres = [None] * len(jobs)
    if procs > 1 and len(jobs) > 50:
        with multiprocessing.get_context('fork').Pool(procs) as pool:
            pres = pool.map(_impl_job, jobs, chunksize=16)
    for (st, ops), mod, pre in zip(jobs, mods, pres):
        check_case(res, st, ops, mod, pre=pre)
    return res


def run(ctx):
    rng = ctx.sub_rng('cache')
    n = 300 if ctx.quick else 6000
    procs = 8 if ctx.quick else 14
    cases = [c for _, c in CORPUS] + load_corpus_files()
    cases += [gen_ops(rng, 14 if ctx.quick else 24) for _ in range(n)]
    res = run_cases(ctx, cases, procs=procs)
    # name-collision stream (keys named like sub-containers): known finding for Hdf5Storage
    rng2 = ctx.sub_rng('cache-collide')
    res.merge(run_cases(ctx, [gen_ops(rng2, 10, collide=True) for _ in range(40 if ctx.quick else 600)],
                        procs=procs))
    return res


def search(ctx):
    rng = ctx.sub_rng('cache-search')
    cases = [c for _, c in CORPUS] + [gen_ops(rng, 12) for _ in range(300 if ctx.quick else 5000)]
    return run_cases(ctx, cases, use_model=False)
