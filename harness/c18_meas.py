"""Measurement / checkpoint callbacks used by the C18 resume harness (referenced by module name from the
simulation parameters, so they survive saving and resuming)."""
import os
import signal


def m_steps(results, psi, model, simulation, results_key='c18_steps', offset=0.0):
    """The loop counter at the time of the measurement: `sweeps` for sweep algorithms that iterate
    (DMRG), the time evolved since `offset` (= the `start_time` option) otherwise."""
    eng = simulation.engine
    if hasattr(eng, 'evolved_time'):
        results[results_key] = float(abs(eng.evolved_time - offset))
    else:
        results[results_key] = float(getattr(eng, 'sweeps', -1))


def sigint_at(algorithm, at, offset=0.0):
    """Checkpoint listener: deliver a real SIGINT to this process when the loop counter equals `at`.
    `Simulation.handle_abort_signal` then makes `save_at_checkpoint` (same emit, lower priority) save and
    raise KeyboardInterrupt."""
    if hasattr(algorithm, 'evolved_time'):
        cur = float(abs(algorithm.evolved_time - offset))
    else:
        cur = float(algorithm.sweeps)
    if abs(cur - at) < 1e-9:
        os.kill(os.getpid(), signal.SIGINT)


# ---- callbacks for the option scenarios (harness/c18_options.py) ------------------------------------

LOG = []  # in-process event log: ('listener', priority, counter) | ('measure',) | ('save',)


def _counter(algorithm):
    if hasattr(algorithm, 'evolved_time'):
        return round(float(abs(algorithm.evolved_time)), 9)
    return float(getattr(algorithm, 'sweeps', -1))


def log_listener(algorithm, tag):
    """checkpoint listener connected with several priorities; records when it is called"""
    LOG.append(('listener', tag, _counter(algorithm)))


def m_flaky_key(results, psi, model, simulation, every=2, offset=0, results_key='c18_sometimes'):
    """writes its key only at every `every`-th measurement (starting with number `offset`): exercises the
    fill-up with None for keys that appear late and for keys that are missing"""
    n = len(simulation.results.get('measurements', {}).get('measurement_index', []))
    if n % every == offset % every:
        results[results_key] = float(n)


def m_returns(results, psi, model, simulation):
    """a measurement function that (wrongly) returns its value: collected under 'UNKNOWN'"""
    return float(len(simulation.results.get('measurements', {}).get('measurement_index', [])))


def m_trunc_err(results, psi, model, simulation, results_key='c18_terr'):
    """stores the TruncationError object itself (converted to `_eps` / `_ov` arrays when saving)"""
    results[results_key] = simulation.engine.trunc_err


def pp_none(DL):
    return None


def pp_raises(DL):
    raise ValueError('c18: deliberately failing post-processing step')


def m_raises(results, psi, model, simulation, at=(1,)):
    """a measurement function with a bug: raises at the given measurement indices"""
    n = len(simulation.results.get('measurements', {}).get('measurement_index', []))
    if n in tuple(at):
        raise ValueError('c18: deliberately failing measurement %d' % n)
    results['c18_ok'] = float(n)


def pp_energy_span(DL, *, key='energy_MPO'):
    """post-processing step: max - min of a measurement series"""
    import numpy as np
    v = np.asarray(DL.sim.results['measurements'][key], dtype=float)
    return float(v.max() - v.min())
