"""Measurement / checkpoint callbacks used by the C18 resume harness (referenced by module name from the
simulation parameters, so they survive saving and resuming)."""
import os
import signal


def m_steps(results, psi, model, simulation, results_key='c18_steps'):
    """The loop counter at the time of the measurement: `sweeps` for sweep algorithms that iterate
    (DMRG), the evolved time otherwise."""
    eng = simulation.engine
    if hasattr(eng, 'evolved_time'):
        results[results_key] = float(abs(eng.evolved_time))
    else:
        results[results_key] = float(getattr(eng, 'sweeps', -1))


def sigint_at(algorithm, at):
    """Checkpoint listener: deliver a real SIGINT to this process when the loop counter equals `at`.
    `Simulation.handle_abort_signal` then makes `save_at_checkpoint` (same emit, lower priority) save and
    raise KeyboardInterrupt."""
    if hasattr(algorithm, 'evolved_time'):
        cur = float(abs(algorithm.evolved_time))
    else:
        cur = float(algorithm.sweeps)
    if abs(cur - at) < 1e-9:
        os.kill(os.getpid(), signal.SIGINT)
