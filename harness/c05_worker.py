"""Runs the REAL matrix factorizations of tenpy.linalg.np_conserved on generated cases (child process; kernel
configuration from the environment).

usage: python -m harness.c05_worker <cases.json> <out.json>

For each case the result is
  {"in":     the matrix `a` as actually constructed (legs with flags, qtotal, labels, _qdata, integer block data) + op + options,
   "rec":    what happened inside the call: the completely blocked copy of `a`, every per-block LAPACK/scipy call
             (outputs as numbers), argsort permutations,
   "out":    the returned factors (legs, qtotal, labels, _qdata, block shapes, dense entries) or {"error": class},
   "oracle": [[signature, detail], ...]  verdicts of the model-free oracle (numpy on dense matrices)}
"""
import json
import sys
import warnings

import numpy as np
import scipy.linalg

warnings.simplefilter('ignore')

TOL = 1.0e-9


# ------------------------------------------------------------------------------------------------
# serialisation

def num(x):
    x = complex(x)
    if x.imag == 0.0:
        return float(x.real)
    return [float(x.real), float(x.imag)]


def arr2(m):
    m = np.asarray(m)
    if m.ndim == 1:
        return [num(x) for x in m]
    return [[num(x) for x in row] for row in m]


def code_of(z):
    """integer code of a small Gaussian integer entry (0 <-> exact zero)"""
    z = complex(z)
    re, im = int(round(z.real)), int(round(z.imag))
    assert re == z.real and im == z.imag and abs(re) < 32 and abs(im) < 32, z
    if re == 0 and im == 0:
        return 0
    return 1 + (re + 32) * 64 + (im + 32)


def dump_arr(a, io, data='dense'):
    d = dict(legs=[io.dump_leg(l) for l in a.legs], qtotal=[int(x) for x in a.qtotal], labels=list(a._labels),
             qdata=[[int(x) for x in row] for row in a._qdata], shapes=[list(b.shape) for b in a._data],
             dtype=a.dtype.kind)
    if data == 'dense':
        try:
            d['dense'] = arr2(a.to_ndarray())
        except Exception:   # blocks that do not fit the legs (reported by the oracle as `insane`)
            d['dense'] = None
    elif data == 'codes':
        d['blocks'] = [[[code_of(x) for x in row] for row in b] for b in a._data]
    return d


# ------------------------------------------------------------------------------------------------
# construction of the input

def build(case, npc, ch, io):
    rs = np.random.RandomState(case['seed'])
    cplx = case['dtype'] == 'complex'
    dtype = np.complex128 if cplx else np.float64
    lo, hi = case.get('range', [-3, 3])

    def func(shape):
        x = rs.randint(lo, hi + 1, shape).astype(dtype)
        if cplx:
            x = x + 1j * rs.randint(lo, hi + 1, shape)
        return x

    b = case['build']
    legs = [io.make_leg(l) for l in b['legs']]
    qtotal = case['qtotal']
    if b['kind'] == 'rank3':   # not a matrix: every routine has to reject it
        a = npc.Array.from_func(func, legs, dtype=dtype, qtotal=qtotal)
        a.test_sanity()
        return a
    if b['kind'] == 'direct':
        a = npc.Array.from_func(func, legs, dtype=dtype, qtotal=qtotal)
    else:
        t = npc.Array.from_func(func, legs, dtype=dtype, qtotal=qtotal, labels=b.get('tlabels'))
        groups, pipes = [], []
        for g, po in zip(b['groups'], b['pipes']):
            if po is None:
                continue
            groups.append(g)
            pipes.append(ch.LegPipe([legs[i] for i in g], qconj=po['qconj'], sort=po['sort'], bunch=po['bunch']))
        a = t.combine_legs(groups, pipes=pipes) if groups else t
    assert a.rank == 2, a.rank
    # block pattern: drop / zero / rank-deficient blocks
    pat = case.get('pattern', {})
    keep_data, keep_q = [], []
    for blk, q in zip(a._data, a._qdata):
        u = rs.random_sample()
        blk = np.array(blk)
        if u < pat.get('drop', 0):
            continue
        u = rs.random_sample()
        if u < pat.get('zero', 0):
            blk[...] = 0
        elif u < pat.get('zero', 0) + pat.get('rankdef', 0):
            if blk.shape[1] >= 2 and rs.random_sample() < 0.5:
                blk[:, -1] = blk[:, 0]
            elif blk.shape[0] >= 2:
                blk[-1, :] = blk[0, :]
            else:
                blk[...] = 0
        keep_data.append(blk)
        keep_q.append(q)
    a._data = keep_data
    a._qdata = np.array(keep_q, dtype=np.intp).reshape(len(keep_q), 2)
    if case.get('shuffle') and len(keep_q) > 1:
        perm = rs.permutation(len(keep_q))
        a._data = [a._data[i] for i in perm]
        a._qdata = a._qdata[perm]
        a._qdata_sorted = False
    final_labels = b.get('labels') or list(a._labels)
    if case.get('hermitian'):
        a.iset_leg_labels([None, None])
        try:
            a = a + a.conj().transpose()
        except ValueError:   # legs not contractible: the call under test has to reject this input
            pass
        if case.get('purge'):
            a.ipurge_zeros()
    a.iset_leg_labels(final_labels)
    a.test_sanity()
    return a


# ------------------------------------------------------------------------------------------------
# recording of per-block calls

class Recorder:
    def __init__(self, npc):
        self.npc = npc
        self.calls = []
        self.perms = []
        self.blocked = []
        self.saved = []

    def _patch(self, obj, name, fn):
        self.saved.append((obj, name, getattr(obj, name)))
        setattr(obj, name, fn)

    def __enter__(self):
        npc = self.npc
        rec = self

        def wrap(kind, orig):
            def f(*args, **kw):
                blk = np.array(args[0])   # before the call: gesvd with overwrite_a=True destroys its input
                out = orig(*args, **kw)
                snap = tuple(np.array(x) for x in out) if isinstance(out, tuple) else np.array(out)
                rec.calls.append((kind, blk, out, snap))
                return out
            return f

        self._patch(npc, 'svd_flat', wrap('svd', npc.svd_flat))
        self._patch(npc, 'qr_li', wrap('qr_li', npc.qr_li))
        self._patch(np.linalg, 'qr', wrap('qr', np.linalg.qr))
        self._patch(np.linalg, 'eigh', wrap('eigh', np.linalg.eigh))
        self._patch(np.linalg, 'eig', wrap('eig', np.linalg.eig))
        self._patch(np.linalg, 'eigvalsh', wrap('eigvalsh', np.linalg.eigvalsh))
        self._patch(np.linalg, 'eigvals', wrap('eigvals', np.linalg.eigvals))
        self._patch(scipy.linalg, 'expm', wrap('expm', scipy.linalg.expm))
        self._patch(npc, '_sp_speigs', wrap('speigs', npc._sp_speigs))
        orig_argsort = npc.argsort

        def argsort(a, sort=None, **kw):
            p = orig_argsort(a, sort, **kw)
            rec.perms.append([int(x) for x in p])
            return p
        self._patch(npc, 'argsort', argsort)
        orig_acb = npc.Array.as_completely_blocked

        def acb(self_):
            axes, res = orig_acb(self_)
            rec.blocked.append((list(axes), res.copy(deep=True)))
            return axes, res
        self._patch(npc.Array, 'as_completely_blocked', acb)
        return self

    def __exit__(self, *a):
        for obj, name, val in reversed(self.saved):
            setattr(obj, name, val)


class Inject:
    """fault injection below svd_robust: `scipy.linalg.svd` with the 'gesdd' driver raises LinAlgError
    ('linalg_error': svd_robust has to fall back to 'gesvd') or returns NaN ('nan': _svd_worker has to retry with
    'gesvd'; 'nan_always': both drivers return NaN, _svd_worker has to raise)."""

    def __init__(self, mode):
        self.mode = mode
        self.gesdd_calls = 0
        self.gesvd_calls = 0
        self.overwrite_seen = []

    def __enter__(self):
        self.orig = scipy.linalg.svd
        inj = self

        def poison(out):
            if isinstance(out, tuple):
                s_ = np.array(out[1], dtype=float)
                if s_.size:
                    s_[0] = np.nan
                return out[0], s_, out[2]
            s_ = np.array(out, dtype=float)
            if s_.size:
                s_[0] = np.nan
            return s_

        def svd(a, full_matrices=True, compute_uv=True, overwrite_a=False, check_finite=True, lapack_driver='gesdd'):
            if lapack_driver == 'gesdd':
                inj.gesdd_calls += 1
                if inj.mode == 'linalg_error':
                    raise np.linalg.LinAlgError('injected: gesdd did not converge')
                out = inj.orig(a, full_matrices, compute_uv, overwrite_a, check_finite, lapack_driver)
                return poison(out) if inj.mode in ('nan', 'nan_always') else out
            inj.gesvd_calls += 1
            inj.overwrite_seen.append(bool(overwrite_a))
            out = inj.orig(a, full_matrices, compute_uv, overwrite_a, check_finite, lapack_driver)
            return poison(out) if inj.mode == 'nan_always' else out
        if self.mode:
            scipy.linalg.svd = svd
        return self

    def __exit__(self, *a):
        scipy.linalg.svd = self.orig


def fac_json(kind, out):
    if kind == 'svd':
        if isinstance(out, tuple):
            return dict(u=arr2(out[0]), s=arr2(out[1]), vh=arr2(out[2]))
        return dict(s=arr2(out))
    if kind in ('qr', 'qr_li'):
        return dict(q=arr2(out[0]), r=arr2(out[1]), k=int(out[0].shape[1]), qshape=list(out[0].shape),
                    rshape=list(out[1].shape))
    if kind in ('eigh', 'eig'):
        return dict(w=arr2(out[0]), v=arr2(out[1]))
    if kind in ('eigvalsh', 'eigvals'):
        return dict(w=arr2(out))
    if kind == 'expm':
        return dict(e=arr2(out))
    return {}


# ------------------------------------------------------------------------------------------------
# the call

def call(op, a, o, npc):
    if op == 'svd':
        conv = (lambda q: q) if o.get('aslist') else (lambda q: None if q is None else np.array(q, dtype=np.int64))
        kw = dict(full_matrices=o['full'], compute_uv=o['uv'], cutoff=o['cutoff'],
                  qtotal_LR=[conv(o['qL']), conv(o['qR'])], inner_labels=o['labels'], inner_qconj=o['iq'])
        r = npc.svd(a, **kw)
        return dict(S=r) if not o['uv'] else dict(U=r[0], S=r[1], VH=r[2])
    if op in ('qr', 'lq'):
        kw = dict(mode=o['mode'], inner_labels=o['labels'], cutoff=o['cutoff'], qtotal_Q=o['qQ'], inner_qconj=o['iq'])
        if op == 'qr':
            q, r = npc.qr(a, pos_diag_R=o['pos'], **kw)
            return dict(Q=q, R=r)
        l, q = npc.lq(a, pos_diag_L=o['pos'], **kw)
        return dict(L=l, Q=q)
    if op == 'eigh':
        w, v = npc.eigh(a, UPLO=o['uplo'], sort=o['sort'])
        return dict(W=w, V=v)
    if op == 'eig':
        w, v = npc.eig(a, sort=o['sort'])
        return dict(W=w, V=v)
    if op == 'eigvalsh':
        return dict(W=npc.eigvalsh(a, UPLO=o['uplo'], sort=o['sort']))
    if op == 'eigvals':
        return dict(W=npc.eigvals(a, sort=o['sort']))
    if op == 'expm':
        return dict(E=npc.expm(a))
    if op == 'pinv':
        return dict(P=npc.pinv(a, cutoff=o['cutoff']))
    if op == 'polar':
        u, p, s = npc.polar(a, cutoff=o['cutoff'], left=o['left'], inner_labels=o['labels'])
        return dict(U=u, P=p, S=s)
    if op == 'ortho':
        return dict(O=npc.orthogonal_columns(a, new_label=o['label']))
    if op == 'speigs':
        kw = dict(which=o['which'])
        if o.get('sigma') is not None:
            kw['sigma'] = o['sigma']
        if o.get('ret_eigv', True) is False:
            kw['return_eigenvectors'] = False
            return dict(W=npc.speigs(a, o['sector'], o['k'], **kw))
        w, v = npc.speigs(a, o['sector'], o['k'], **kw)
        return dict(W=w, Vs=v)
    raise KeyError(op)


# ------------------------------------------------------------------------------------------------
# model-free oracle

def sane(x):
    try:
        x.test_sanity()
        return None
    except Exception as e:
        return (type(e).__name__ + ': ' + str(e))[:160]


def close(x, y, tol):
    x, y = np.asarray(x), np.asarray(y)
    if x.shape != y.shape:
        return False
    if x.size == 0:
        return True
    if not (np.all(np.isfinite(x)) and np.all(np.isfinite(y))):
        return False
    return float(np.max(np.abs(x - y))) <= tol


def eye_dev(m):
    m = np.asarray(m)
    if m.size == 0:
        return 0.0
    if not np.all(np.isfinite(m)):
        return float('inf')
    return float(np.max(np.abs(m - np.eye(m.shape[0]))))


def legs_equal(l, m):
    try:
        l.test_equal(m)
        return True
    except Exception:
        return False


def valid(a, q):
    return [int(x) for x in a.chinfo.make_valid(np.array(q if q is not None else [0] * a.chinfo.qnumber))]


def sectors(leg):
    """groups of flat indices with equal physical charge, each in the original order"""
    q = leg.chinfo.make_valid(leg.to_qflat() * leg.qconj)
    groups = {}
    for i, row in enumerate(q):
        groups.setdefault(tuple(int(x) for x in row), []).append(i)
    return list(groups.values())


def match_multiset(x, y, tol):
    """greedy matching of two lists of (complex) numbers within tol"""
    x, y = list(x), list(y)
    if len(x) != len(y):
        return False
    for v in x:
        if not y:
            return False
        d = [abs(v - w) for w in y]
        k = int(np.argmin(d))
        if not d[k] <= tol:
            return False
        y.pop(k)
    return True


def sorted_ok(w, sort, tol):
    if len(w) < 2:
        return True
    if sort is None or sort == '<':
        k = np.real(w)
    elif sort == '>':
        k = -np.real(w)
    elif sort == 'm<':
        k = np.abs(w)
    else:
        k = -np.abs(w)
    return bool(np.all(k[1:] - k[:-1] >= -tol))


def triangular_blockwise(R, row_leg, col_leg, tol, pos):
    """R restricted to (row block of the inner leg) x (column charge sector, original order) is upper triangular;
    returns list of problems"""
    probs = []
    Rd = R.to_ndarray()
    if not np.all(np.isfinite(Rd)):
        return ['nan']
    sl = row_leg.slices
    for k in range(row_leg.block_number):
        rows = list(range(sl[k], sl[k + 1]))
        for cols in sectors(col_leg):
            sub = Rd[np.ix_(rows, cols)]
            if not np.any(sub != 0):
                continue
            if np.max(np.abs(np.tril(sub, -1))) > tol:
                probs.append('not-upper-triangular')
            if pos:
                d = np.diag(sub)
                if np.max(np.abs(d.imag)) > tol or np.min(d.real) < -tol:
                    probs.append('diagonal-not-positive')
    return sorted(set(probs))


def oracle(op, o, a, A, res, npc):
    """list of (signature, detail)"""
    out = []
    scale = max(1.0, float(np.linalg.norm(A)))
    tol = TOL * scale
    M, N = A.shape
    ci = a.chinfo

    def bad(sig, detail=''):
        out.append(('c05.%s.%s' % (op, sig), str(detail)[:300]))

    def check_sane(name, x):
        s = sane(x)
        if s is not None:
            bad(name + '.insane', s)
            return False
        return True

    if op == 'svd':
        S = np.asarray(res['S'])
        cutoff = o['cutoff']
        if not np.all(np.isfinite(S)) or np.any(S < 0) or (cutoff is not None and np.any(S <= cutoff)):
            bad('S.negative-or-below-cutoff', S)
        sd = np.linalg.svd(A, compute_uv=False)
        thr = cutoff if cutoff is not None else 0.0
        near = np.any(np.abs(sd - thr) < 100 * tol) if cutoff is not None else False
        if not near:
            big = sorted([x for x in sd if x > max(thr, 100 * tol)], reverse=True)
            mine = sorted([x for x in S if x > 100 * tol], reverse=True)
            if len(big) != len(mine) or not close(big, mine, 100 * tol):
                bad('S.not-the-singular-values', f'{mine} vs dense {big}')
        if o['uv']:
            U, VH = res['U'], res['VH']
            pre = 'full.' if o['full'] else ''
            ok = check_sane(pre + 'U', U) & check_sane(pre + 'VH', VH)
            Ud, Vd = U.to_ndarray(), VH.to_ndarray()
            qL, qR = o['qL'], o['qR']
            if qL is None and qR is None:
                qR = [int(x) for x in a.qtotal]
            if qL is None:
                qL = [int(x) for x in ci.make_valid(a.qtotal - np.array(qR))]
            if qR is None:
                qR = [int(x) for x in ci.make_valid(a.qtotal - np.array(qL))]
            if [int(x) for x in U.qtotal] != valid(a, qL) or [int(x) for x in VH.qtotal] != valid(a, qR):
                bad('qtotal-not-as-requested', f'U {U.qtotal} VH {VH.qtotal} requested {qL} {qR}')
            if not legs_equal(U.legs[0], a.legs[0]) or not legs_equal(VH.legs[1], a.legs[1]):
                bad('outer-legs-changed')
            if U._labels != [a._labels[0], o['labels'][0]] or VH._labels != [o['labels'][1], a._labels[1]]:
                bad('labels', f'{U._labels} {VH._labels}')
            if not o['full']:
                K = len(S)
                if Ud.shape != (M, K) or Vd.shape != (K, N):
                    bad('shape', f'{Ud.shape} {S.shape} {Vd.shape}')
                else:
                    try:
                        U.get_leg(1).test_contractible(VH.get_leg(0))
                    except ValueError:
                        bad('inner-legs-not-contractible')
                    if VH.legs[0].qconj != o['iq']:
                        bad('inner-qconj', VH.legs[0].qconj)
                    if eye_dev(Ud.conj().T @ Ud) > tol:
                        bad('U.not-isometry', eye_dev(Ud.conj().T @ Ud))
                    if eye_dev(Vd @ Vd.conj().T) > tol:
                        bad('VH.not-isometry', eye_dev(Vd @ Vd.conj().T))
                    rec = (Ud * S) @ Vd
                    if cutoff is None:
                        if not close(rec, A, 10 * tol):
                            bad('reconstruction', np.max(np.abs(rec - A)))
                    elif not near:
                        dropped = np.sqrt(np.sum(np.array([x for x in sd if x <= cutoff]) ** 2))
                        if abs(np.linalg.norm(rec - A) - dropped) > 100 * tol:
                            bad('reconstruction-with-cutoff', f'{np.linalg.norm(rec - A)} vs dropped weight {dropped}')
            else:
                if Ud.shape != (M, M) or Vd.shape != (N, N):
                    bad('shape', f'{Ud.shape} {Vd.shape}')
                else:
                    if eye_dev(Ud.conj().T @ Ud) > tol or eye_dev(Ud @ Ud.conj().T) > tol:
                        bad('full.U-not-unitary', eye_dev(Ud.conj().T @ Ud))
                    if eye_dev(Vd @ Vd.conj().T) > tol or eye_dev(Vd.conj().T @ Vd) > tol:
                        bad('full.VH-not-unitary', eye_dev(Vd @ Vd.conj().T))
                    D = Ud.conj().T @ A @ Vd.conj().T
                    nz = np.abs(D) > 100 * tol
                    if np.any(nz.sum(axis=0) > 1) or np.any(nz.sum(axis=1) > 1) \
                            or not match_multiset(D[nz], [x for x in S if x > 100 * tol], 100 * tol):
                        if eye_dev(Ud.conj().T @ Ud) <= tol and eye_dev(Vd @ Vd.conj().T) <= tol:
                            bad('full.not-diagonalising')
    elif op in ('qr', 'lq'):
        if op == 'qr':
            Q, R = res['Q'], res['R']
            want_q, want_r = [a._labels[0], o['labels'][0]], [o['labels'][1], a._labels[1]]
        else:
            # everything is checked on the transposed problem  a^T = Q^T L^T
            Q, R = res['Q'].transpose(), res['L'].transpose()
            A = A.T
            M, N = A.shape
            want_q, want_r = [a._labels[1], o['labels'][1]], [o['labels'][0], a._labels[0]]
        ok = check_sane('Q', Q) & check_sane('R', R)
        if Q._labels != want_q or R._labels != want_r:
            bad('labels', f'{Q._labels} {R._labels}')
        Qd, Rd = Q.to_ndarray(), R.to_ndarray()
        if [int(x) for x in Q.qtotal] != valid(a, o['qQ']) \
                or [int(x) for x in R.qtotal] != [int(x) for x in ci.make_valid(a.qtotal - Q.qtotal)]:
            bad('qtotal-not-as-requested', f'Q {Q.qtotal} R {R.qtotal}')
        if R.legs[0].qconj != o['iq']:
            bad('inner-qconj', R.legs[0].qconj)
        if ok:
            try:
                Q.get_leg(1).test_contractible(R.get_leg(0))
            except ValueError:
                bad('inner-legs-not-contractible')
        if not np.all(np.isfinite(Qd)) or not np.all(np.isfinite(Rd)):
            bad('pos_diag.nan' if o['pos'] else 'nan', 'pos_diag=%s' % o['pos'])
        elif Qd.shape[0] != M or Rd.shape[1] != N or Qd.shape[1] != Rd.shape[0]:
            bad('shape', f'{Qd.shape} {Rd.shape}')
        else:
            ctol = tol if o['cutoff'] is None else max(tol, 100 * o['cutoff'] * scale)
            if not close(Qd @ Rd, A, 10 * ctol):
                bad('reconstruction', np.max(np.abs(Qd @ Rd - A)))
            if eye_dev(Qd.conj().T @ Qd) > tol:
                bad('Q.not-isometry', eye_dev(Qd.conj().T @ Qd))
            if o['mode'] == 'complete' and (Qd.shape != (M, M) or eye_dev(Qd @ Qd.conj().T) > tol):
                bad('Q.not-unitary', Qd.shape)
            if ok:
                col_leg = a.legs[1] if op == 'qr' else a.legs[0]
                for p in triangular_blockwise(R, R.legs[0], col_leg, tol, o['pos']):
                    bad('R.' + p)
    elif op in ('eigh', 'eig', 'eigvalsh', 'eigvals'):
        W = np.asarray(res['W'])
        herm = op in ('eigh', 'eigvalsh')
        # eigenvalues of a defective (Jordan) block of size k move by ~eps^(1/k)*|A| (6e-6 for k = 3), independently in
        # the block-wise and in the dense computation
        wtol = 100 * tol if herm else 1.0e-4 * scale
        if W.shape != (M,) or not np.all(np.isfinite(W)):
            bad('W.shape-or-nan', W.shape)
        else:
            dense = np.linalg.eigvalsh(A) if herm else np.linalg.eigvals(A)
            if not match_multiset(W, dense, wtol):
                bad('W.not-the-eigenvalues', f'{W} vs {dense}')
        if 'V' in res:
            V = res['V']
            ok = check_sane('V', V)
            Vd = V.to_ndarray()
            if V._labels != [a._labels[0], 'eig']:
                bad('labels', V._labels)
            if not legs_equal(V.legs[0], a.legs[0]):
                bad('outer-leg-changed')
            if Vd.shape != (M, M) or not np.all(np.isfinite(Vd)):
                bad('V.shape-or-nan', Vd.shape)
            else:
                if not close(A @ Vd, Vd * W, 100 * tol):
                    bad('eigen-equation', np.max(np.abs(A @ Vd - Vd * W)))
                if herm and eye_dev(Vd.conj().T @ Vd) > 10 * tol:
                    bad('V.not-unitary', eye_dev(Vd.conj().T @ Vd))
                if not herm and not close(np.linalg.norm(Vd, axis=0), np.ones(M), 10 * tol):
                    bad('V.columns-not-normalised')
                sl = V.legs[1].slices
                # (for eig, sort=None leaves the order of np.linalg.eig; only eigh promises ascending order then)
                for k in range(V.legs[1].block_number if (herm or o['sort'] is not None) else 0):
                    if not sorted_ok(W[sl[k]:sl[k + 1]], o['sort'], wtol):
                        bad('W.not-sorted-within-block', f'sort={o["sort"]} {W[sl[k]:sl[k + 1]]}')
                        break
    elif op == 'expm':
        E = res['E']
        check_sane('E', E)
        want = scipy.linalg.expm(A)
        if not close(E.to_ndarray(), want, 1.0e-9 * max(1.0, float(np.max(np.abs(want)))) * M):
            bad('not-the-exponential', np.max(np.abs(E.to_ndarray() - want)))
        if E._labels != a._labels:
            bad('labels', E._labels)
        if not legs_equal(E.legs[0], a.legs[0]) or not legs_equal(E.legs[1], a.legs[1]):
            bad('legs-changed')
    elif op == 'pinv':
        P = res['P']
        check_sane('P', P)
        Pd = P.to_ndarray()
        sd = np.linalg.svd(A, compute_uv=False)
        kept = [x for x in sd if x > o['cutoff']]
        near = np.any(np.abs(sd - o['cutoff']) < 100 * tol)
        if Pd.shape != (N, M):
            bad('shape', Pd.shape)
        elif kept and not near:
            cond = max(kept) / min(kept)
            t = 100 * tol * max(1.0, cond) ** 2
            want = np.linalg.pinv(A, rcond=(o['cutoff'] * (1 + 1e-9)) / max(kept))
            Ac = A
            if t < 1e-3 * scale:
                if not close(Ac @ Pd @ Ac, A if min(sd) > o['cutoff'] else Ac @ want @ Ac, t):
                    bad('moore-penrose.APA', np.max(np.abs(Ac @ Pd @ Ac - Ac @ want @ Ac)))
                if not close(Pd @ Ac @ Pd, Pd, t * max(1.0, np.max(np.abs(Pd)))):
                    bad('moore-penrose.PAP')
                if not close((Ac @ Pd).conj().T, Ac @ Pd, t):
                    bad('moore-penrose.AP-hermitian')
                if not close((Pd @ Ac).conj().T, Pd @ Ac, t):
                    bad('moore-penrose.PA-hermitian')
                if not close(Pd, want, t * max(1.0, np.max(np.abs(want)))):
                    bad('not-the-pseudo-inverse', np.max(np.abs(Pd - want)))
        if not legs_equal(P.legs[0], a.legs[1].conj()) or not legs_equal(P.legs[1], a.legs[0].conj()):
            bad('legs')
    elif op == 'polar':
        U, P, S = res['U'], res['P'], np.asarray(res['S'])
        check_sane('U', U)
        check_sane('P', P)
        Ud, Pd = U.to_ndarray(), P.to_ndarray()
        prod = Pd @ Ud if o['left'] else Ud @ Pd
        if not close(prod, A, 100 * tol):
            bad('left.reconstruction' if o['left'] else 'reconstruction', np.max(np.abs(prod - A)) if prod.shape == A.shape else prod.shape)
        if not close(Pd, Pd.conj().T, 100 * tol):
            bad('P.not-hermitian')
        elif Pd.size and np.min(np.linalg.eigvalsh((Pd + Pd.conj().T) / 2)) < -100 * tol:
            bad('P.not-positive')
        if not close(Ud @ Ud.conj().T @ Ud, Ud, 100 * tol):
            bad('U.not-partial-isometry')
        if np.any(S < 0):
            bad('S.negative')
    elif op == 'ortho':
        O = res['O']
        check_sane('O', O)
        Od = O.to_ndarray()
        if Od.shape[0] != M:
            bad('shape', Od.shape)
        else:
            if eye_dev(Od.conj().T @ Od) > tol:
                bad('not-orthonormal', eye_dev(Od.conj().T @ Od))
            if Od.shape[1] and np.max(np.abs(A.conj().T @ Od)) > 10 * tol:
                bad('not-orthogonal-to-a', np.max(np.abs(A.conj().T @ Od)))
            full_rank = N == 0 or np.linalg.matrix_rank(A) == N
            if full_rank and Od.shape[1] != M - N:
                bad('not-a-completion', f'{Od.shape} for a of shape {A.shape}')
        if O._labels != [a._labels[0], o['label'] if o['label'] is not None else a._labels[1]]:
            bad('labels', O._labels)
        if not legs_equal(O.legs[0], a.legs[0]):
            bad('outer-leg-changed')
    elif op == 'speigs' and 'Vs' not in res:
        # return_eigenvectors=False: W are eigenvalues of the selected sector block
        W = np.asarray(res['W'])
        sec = valid(a, o['sector'])
        q = ci.make_valid(a.legs[0].to_qflat() * a.legs[0].qconj)
        idx = [i for i, row in enumerate(q) if [int(x) for x in row] == sec]
        blockd = np.linalg.eigvals(A[np.ix_(idx, idx)])
        if len(W) != min(o['k'], len(idx)):
            bad('W-only.count', f'{len(W)} eigenvalues for k={o["k"]} in a sector of size {len(idx)}')
        else:
            remaining = list(blockd)
            for w in W:
                dd = [abs(w - x) for x in remaining]
                j = int(np.argmin(dd))
                if dd[j] > 1.0e-4 * scale:
                    bad('not-eigenvalues', f'{W} vs {blockd}')
                    break
                remaining.pop(j)
    elif op == 'speigs':
        W, Vs = np.asarray(res['W']), res['Vs']
        if len(W) != len(Vs):
            bad('count', f'{len(W)} {len(Vs)}')
        sec = valid(a, o['sector'])
        for w, v in zip(W, Vs):
            if sane(v) is not None:
                bad('V.insane', sane(v))
                break
            if [int(x) for x in v.qtotal] != sec:
                bad('V.qtotal', v.qtotal)
            vd = v.to_ndarray()
            if not close(A @ vd, w * vd, 1.0e-7 * scale):
                bad('eigen-equation', np.max(np.abs(A @ vd - w * vd)))
            if np.linalg.norm(vd) < 0.5:
                bad('V.zero-vector')
    return out


def lapack_oracle(kind, block, out_final, out):
    """post-conditions assumed of the per-block routine (hypotheses of the assembly theorems)"""
    t = TOL * max(1.0, float(np.linalg.norm(block))) * 100
    if not np.all(np.isfinite(block)):
        return None
    try:
        if kind == 'svd' and isinstance(out, tuple):
            u, s, vh = out
            k = len(s)
            if not close((u[:, :k] * s) @ vh[:k, :], block, t) or eye_dev(u.conj().T @ u) > t \
                    or eye_dev(vh @ vh.conj().T) > t or np.any(s < 0) or np.any(np.diff(s) > t):
                return 'svd'
        elif kind == 'qr':
            q, r = out
            if not close(q @ r, block, t) or eye_dev(q.conj().T @ q) > t or np.max(np.abs(np.tril(r, -1)), initial=0) > t:
                return 'qr'
        elif kind == 'eigh':
            w, v = out
            if eye_dev(v.conj().T @ v) > t or np.any(np.diff(w) < -t):
                return 'eigh'
        elif kind == 'eig':
            w, v = out
            if not close(block @ v, v * w, t):
                return 'eig'
    except Exception as e:  # shape surprises count as a failed post-condition
        return kind + ':' + type(e).__name__
    return None


# ------------------------------------------------------------------------------------------------

def run_case(case, npc, ch, io):
    op, o = case['op'], case['opts']
    if op in ('svd_robust', 'math'):
        return run_direct(case)
    a = build(case, npc, ch, io)
    if a.rank != 2:
        return run_rejected(case, a, npc, io)
    inp = dict(op=op, opts=o, a=dump_arr(a, io, 'codes'))
    A = a.to_ndarray().copy()
    before = dump_arr(a, io, 'codes')
    rec = Recorder(npc)
    err = None
    res = None
    inj = Inject(o.get('inject'))
    with rec, inj:
        try:
            res = call(op, a, o, npc)
        except (ValueError, RuntimeError, NotImplementedError, AssertionError, IndexError, TypeError, KeyError,
                np.linalg.LinAlgError) as e:
            err = io.err_class(e) if not isinstance(e, (RuntimeError, NotImplementedError, np.linalg.LinAlgError)) \
                else type(e).__name__
            errmsg = str(e)[:200]
    orc = []
    if dump_arr(a, io, 'codes') != before or not np.array_equal(a.to_ndarray(), A):
        orc.append(('c05.%s.input-mutated' % op, ''))
    kinds = {'svd': ['svd'], 'pinv': ['svd'], 'polar': ['svd'], 'qr': ['qr', 'qr_li'], 'lq': ['qr', 'qr_li'],
             'eigh': ['eigh'], 'eig': ['eig'], 'eigvalsh': ['eigvalsh'], 'eigvals': ['eigvals'], 'expm': ['expm'],
             'ortho': ['qr'], 'speigs': ['speigs']}[op]
    calls = [c for c in rec.calls if c[0] in kinds]
    if o.get('inject') == 'nan':
        # the poisoned gesdd results were discarded by _svd_worker: one surviving (gesvd) call per block
        calls = [c for c in calls if not (isinstance(c[2], tuple) and any(np.any(np.isnan(x)) for x in c[2]))]
    recd = dict(calls=[fac_json(c[0], c[2]) for c in calls], perms=rec.perms,
                blocked=None if not rec.blocked else dict(axes=rec.blocked[0][0],
                                                          a=dump_arr(rec.blocked[0][1], io, 'codes')))
    for c in ([] if str(o.get('inject')).startswith('nan') else calls):
        p = lapack_oracle(*c)
        if p:
            orc.append(('c05.lapack-postcondition.' + p, ''))
    if err is not None:
        out = {'error': err, 'msg': errmsg}
        # errors that the documentation does not announce are property failures
        expected = expected_error(op, o, a, A)
        if expected is None or err not in expected:
            orc.append(('c05.%s.unexpected-error.%s' % (op, err), errmsg))
    else:
        out = {}
        for k, v in res.items():
            if isinstance(v, npc.Array):
                out[k] = dump_arr(v, io, 'dense')
            elif isinstance(v, list):
                out[k] = [dump_arr(x, io, 'dense') for x in v]
            else:
                out[k] = arr2(v)
        expected = expected_error(op, o, a, A)
        if expected is not None and 'always' in expected:
            orc.append(('c05.%s.missing-error' % op, str(expected)))
        try:
            orc += oracle(op, o, a, A, res, npc)
        except Exception as e:   # e.g. to_ndarray of a result whose blocks do not fit its legs
            orc.append(('c05.%s.result-unusable' % op, type(e).__name__ + ': ' + str(e)[:200]))
    if o.get('inject') and err is None and a.stored_blocks > 0:
        # the fall-back paths must really have been taken
        if o['inject'] == 'linalg_error' and not (inj.gesdd_calls > 0 and inj.gesvd_calls == inj.gesdd_calls):
            orc.append(('c05.%s.gesvd-fallback-not-taken' % op, f'{inj.gesdd_calls} gesdd, {inj.gesvd_calls} gesvd'))
        if o['inject'] == 'nan' and inj.gesvd_calls == 0:
            orc.append(('c05.%s.nan-retry-not-taken' % op, ''))
        if 'S' in res and np.any(np.isnan(np.asarray(res['S'], dtype=float))):
            orc.append(('c05.%s.nan-returned' % op, ''))
    orc = classify(op, o, a, orc, calls)
    r = {'in': inp, 'rec': recd, 'out': out, 'oracle': [list(x) for x in orc]}
    if o.get('inject') == 'nan_always' or o.get('nomodel') or (o.get('inject') == 'nan' and op == 'svd' and not o['uv']):
        r['nomodel'] = True
    return r


def run_rejected(case, a, npc, io):
    """input of rank != 2: the documented ValueError, nothing else, operand untouched"""
    op, o = case['op'], case['opts']
    before = a.to_ndarray().copy()
    err = None
    try:
        call(op, a, o, npc)
    except Exception as e:
        err = io.err_class(e)
        msg = str(e)[:200]
    orc = []
    if err is None:
        orc.append(('c05.%s.rank-%d-input-accepted' % (op, a.rank), ''))
    elif err != 'ValueError':
        orc.append(('c05.%s.rank-%d-input.unexpected-error.%s' % (op, a.rank, err), msg))
    if not np.array_equal(a.to_ndarray(), before):
        orc.append(('c05.%s.input-mutated' % op, 'rank %d' % a.rank))
    return {'in': dict(op=op, opts=o, rank=a.rank), 'rec': dict(calls=[], perms=[], blocked=None),
            'out': {'error': err} if err else {}, 'oracle': [list(x) for x in orc], 'nomodel': True}


# ------------------------------------------------------------------------------------------------
# direct calls of tenpy.linalg.svd_robust.svd and of the helpers in tenpy.tools.math (no charges: numpy in, numpy out)

def gen_matrix(rs, m, n, cplx, kind):
    x = rs.randint(-3, 4, (m, n)).astype(np.complex128 if cplx else np.float64)
    if cplx:
        x = x + 1j * rs.randint(-3, 4, (m, n))
    if kind == 'rankdef' and min(m, n) >= 2:
        if n >= 2:
            x[:, -1] = x[:, 0]
        else:
            x[-1, :] = x[0, :]
    elif kind == 'zero':
        x[...] = 0
    elif kind == 'hermitian' and m == n:
        x = x + x.conj().T
    return x


class MatvecOp:
    """linear operator with only shape / dtype / matvec (what `matvec_to_array` is documented to need)"""

    def __init__(self, A):
        self.A = A
        self.shape = A.shape
        self.dtype = A.dtype

    def matvec(self, v):
        return self.A @ v


def select(W, which, k):
    key = {'LM': -np.abs(W), 'SM': np.abs(W), 'LR': -W.real, 'SR': W.real, 'LA': -W.real, 'SA': W.real,
           'LI': -W.imag, 'SI': W.imag}[which]
    return W[np.argsort(key, kind='stable')[:k]], np.sort(key)


def run_direct(case):
    import tenpy.linalg.svd_robust as sr
    import tenpy.tools.math as tm
    op, o = case['op'], case['opts']
    rs = np.random.RandomState(case['seed'])
    orc = []
    out = {}

    def bad(sig, detail=''):
        orc.append(('c05.%s.%s' % ('math.' + o['fn'] if op == 'math' else op, sig), str(detail)[:300]))
    A = gen_matrix(rs, o['m'], o['n'], o['dtype'] == 'complex', o.get('kind', 'random'))
    A0 = A.copy()
    scale = max(1.0, float(np.linalg.norm(A)))
    tol = TOL * scale * 100
    M, N = A.shape
    err = None
    if op == 'svd_robust':
        inj = Inject(o.get('inject'))
        with warnings.catch_warnings(record=True) as wlist, inj:
            warnings.simplefilter('always')
            try:
                r = sr.svd(A, o['full'], o['uv'], o['overwrite'], True, o['driver'], o['warn'])
            except ValueError as e:
                err = 'ValueError'
            except np.linalg.LinAlgError as e:
                err = 'LinAlgError'
        if o['driver'] not in ('gesdd', 'gesvd'):
            if err != 'ValueError':
                bad('invalid-driver-accepted', o['driver'])
        elif err is not None:
            bad('unexpected-error.' + err)
        else:
            if o['uv']:
                U, S, Vh = r
                K = min(M, N)
                if o['full']:
                    okshape = U.shape == (M, M) and Vh.shape == (N, N)
                else:
                    okshape = U.shape == (M, K) and Vh.shape == (K, N)
                if not okshape or S.shape != (K,):
                    bad('shape', f'{U.shape} {S.shape} {Vh.shape}')
                else:
                    if not close((U[:, :K] * S) @ Vh[:K, :], A0, tol):
                        bad('reconstruction')
                    if eye_dev(U.conj().T @ U) > tol or eye_dev(Vh @ Vh.conj().T) > tol:
                        bad('not-isometric')
            else:
                S = r
            if np.any(S < 0) or np.any(np.diff(S) > tol) or not close(S, np.linalg.svd(A0, compute_uv=False), tol):
                bad('S.not-the-singular-values', S)
            fell_back = o.get('inject') == 'linalg_error' and o['driver'] == 'gesdd'
            if fell_back and inj.gesvd_calls != 1:
                bad('gesvd-fallback-not-taken')
            if o['driver'] == 'gesvd' and inj.mode and inj.gesdd_calls:
                bad('gesdd-called-for-driver-gesvd')
            warned = any('gesdd' in str(w.message) for w in wlist)
            if warned != (fell_back and o['warn']):
                bad('fallback-warning', f'warned={warned} expected={fell_back and o["warn"]}')
            # `overwrite_a` is documented to be ignored (False) for the gesdd driver
            if o['driver'] == 'gesdd' and not fell_back and not np.array_equal(A, A0):
                bad('input-overwritten-with-gesdd')
            if inj.mode and inj.overwrite_seen and inj.overwrite_seen[-1] != bool(o['overwrite']):
                bad('overwrite_a-not-forwarded-to-gesvd', inj.overwrite_seen)
            if not o['overwrite'] and not np.array_equal(A, A0):
                bad('input-mutated')
        out = {'error': err} if err else {}
    else:
        fn = o['fn']
        if fn in ('qr_li', 'rq_li'):
            cutoff = o['cutoff']
            if fn == 'qr_li':
                Q, R = tm.qr_li(A, cutoff)
            else:
                R, Q = tm.rq_li(A, cutoff)
            sv = np.linalg.svd(A0, compute_uv=False) if A0.size else np.array([])
            rank = int(np.sum(sv > 1.0e-9 * scale))
            # rounding noise of a dependent column (~1e-16) may or may not exceed a tiny cutoff: K may be anything between
            # the clear rank and the number of singular values that are not far below the cutoff
            rank_hi = max(rank, int(np.sum(sv > 1.0e-3 * cutoff)))
            K = Q.shape[1] if fn == 'qr_li' else Q.shape[0]
            if not rank <= K <= rank_hi:
                bad('rank', f'K={K} rank={rank}..{rank_hi}')
            prod = Q @ R if fn == 'qr_li' else R @ Q
            if prod.shape != A0.shape or not close(prod, A0, max(tol, 100 * cutoff * scale)):
                bad('reconstruction')
            g = Q.conj().T @ Q if fn == 'qr_li' else Q @ Q.conj().T
            if eye_dev(g) > tol:
                bad('Q-not-isometric', eye_dev(g))
            if fn == 'qr_li' and R.size and np.max(np.abs(np.tril(R, -1))) > tol:
                bad('R-not-upper-triangular')
            # (for a wide or column-rank-deficient A the un-pivoted R can have a zero on its diagonal although every
            #  pivoted |R_ii| was > cutoff; the docstring's "diagonal entries larger than cutoff" only holds for full
            #  column rank, which is what is checked)
            if fn == 'qr_li' and R.size and rank == N and np.any(np.abs(np.diag(R)) <= cutoff):
                bad('R-diagonal-below-cutoff')
            if fn == 'rq_li' and R.size:
                # documented: R.T[::-1, ::-1] is upper triangular (R is "upper right" seen from the last row/column)
                if np.max(np.abs(np.tril(R.T[::-1, ::-1], -1))) > tol:
                    bad('R-not-upper-right')
        elif fn == 'scalar_helpers':
            # the remaining helpers of tools/math.py against their definitions (brute force)
            import itertools
            import math as pymath
            ints = [int(x) for x in rs.randint(-12, 13, 6)]
            for x, y in zip(ints[:3], ints[3:]):
                if tm.gcd(x, y) != pymath.gcd(x, y):
                    bad('gcd', (x, y))
                if x > 0 and y > 0 and tm.lcm(x, y) != x * y // pymath.gcd(x, y):
                    bad('lcm', (x, y))
            g = 0
            for x in ints:
                g = pymath.gcd(g, x)
            if abs(int(tm.gcd_array(np.array(ints).reshape(2, 3)))) != g:
                bad('gcd_array', ints)
            try:
                tm.gcd_array([])
                bad('gcd_array.empty-accepted')
            except ValueError:
                pass
            perm = list(rs.permutation(o['m'] + 1))
            inv = sum(1 for i, j in itertools.combinations(range(len(perm)), 2) if perm[i] > perm[j])
            if tm.perm_sign(perm) != (-1) ** inv:
                bad('perm_sign', perm)
            pr = rs.random_sample(o['m'] + 1)
            pr[0] = 0.0   # zero probabilities must not produce NaN
            pr = pr / pr.sum()
            nz = pr[pr > 0]
            for nn, want in [(1, -np.sum(nz * np.log(nz))), (2, -np.log(np.sum(nz ** 2))),
                             (0.5, 2 * np.log(np.sum(np.sqrt(nz)))), (np.inf, -np.log(np.max(nz)))]:
                got = tm.entropy(pr, nn)
                if not np.isfinite(got) or abs(got - want) > 1.0e-12 * max(1.0, abs(want)):
                    bad('entropy', f'n={nn}: {got} vs {want}')
        elif fn == 'matvec_to_array':
            X = tm.matvec_to_array(MatvecOp(A))
            if not np.array_equal(X, A0):
                bad('not-the-matrix')
        elif fn in ('speigs', 'speigsh'):
            f = getattr(tm, fn)
            herm = fn == 'speigsh'
            k, which = o['k'], o['which']
            arg = MatvecOp(A) if o['linop'] else A
            kw = dict(which=which)
            if not o['ret_eigv']:
                kw['return_eigenvectors'] = False
            d = M
            dense = (np.linalg.eigvalsh(A0) if herm else np.linalg.eigvals(A0)) if M == N else np.array([])
            wtol = 1.0e-6 * scale if herm else 1.0e-4 * scale
            try:
                with warnings.catch_warnings():
                    warnings.simplefilter('ignore')
                    r = f(arg, k, **kw)
                if M != N:
                    bad('non-square-accepted', A.shape)
                    r = None
            except Exception as e:
                err = type(e).__name__
                if M != N:
                    if err != 'ValueError':
                        bad('non-square.unexpected-error.' + err, str(e)[:200])
                elif not err.startswith('Arpack'):
                    bad('unexpected-error.' + err, str(e)[:200])
                r = None
            if r is not None:
                if o['ret_eigv']:
                    W, V = r
                else:
                    W, V = r, None
                W = np.asarray(W)
                want_n = min(k, d)
                if len(W) != want_n or (V is not None and V.shape != (d, want_n)):
                    bad('count', f'k={k} d={d}: {len(W)} eigenvalues' + ('' if V is None else f', V {V.shape}'))
                else:
                    # every returned number is an eigenvalue, and together they are the k selected by `which`
                    sel, keys = select(np.asarray(dense, dtype=complex), which, want_n)
                    if not match_multiset(list(W), list(sel), wtol):
                        # ties at the selection boundary (conjugate pairs, degenerate values) are legitimate
                        boundary_tie = want_n < d and abs(keys[want_n] - keys[want_n - 1]) <= wtol
                        remaining = list(np.asarray(dense, dtype=complex))
                        all_eigs = True
                        for w in W:
                            dd = [abs(w - x) for x in remaining]
                            j = int(np.argmin(dd))
                            if dd[j] > wtol:
                                all_eigs = False
                                break
                            remaining.pop(j)
                        if not all_eigs:
                            bad('not-eigenvalues', f'{W} vs {dense}')
                        elif not boundary_tie and not (k < d - 1 and not (herm and False)):
                            # (k < d-1 is scipy's ARPACK: its selection rule -- e.g. |Im| for real matrices with
                            # 'LI'/'SI', convergence to a neighbouring Ritz value -- belongs to the trusted base;
                            #  k >= d-1 is tenpy's own dense branch with misc.argsort)
                            bad('not-the-selected-eigenvalues', f'which={which} k={k}: {W} vs {sel}')
                    if V is not None and not close(A0 @ V, V * W, 1.0e-7 * scale):
                        bad('eigen-equation', np.max(np.abs(A0 @ V - V * W)))
            out = {'error': err} if err else {}
        if not np.array_equal(A, A0):
            bad('input-mutated')
    return {'in': dict(op=op, opts=o), 'rec': dict(calls=[], perms=[], blocked=None), 'out': out,
            'oracle': [list(x) for x in orc], 'nomodel': True}


def classify(op, o, a, orc, calls):
    """one stable signature per known situation (so that any OTHER failure of the same routine keeps its own name)"""
    if not orc:
        return orc
    if op in ('qr', 'lq') and o['mode'] == 'complete' and o['cutoff'] is not None:
        return [('c05.%s.complete-with-cutoff' % op, '; '.join(x[0] for x in orc)[:300])]
    if op == 'svd' and o.get('aslist') and o['qL'] is not None and o['qR'] is not None \
            and any('unexpected-error' in x[0] for x in orc):
        return [('c05.svd.qtotal_LR-as-lists', '; '.join(x[0] + ' ' + x[1] for x in orc)[:300])]
    if op == 'speigs':
        if not calls and any('TypeError' in x[0] for x in orc):
            return [('c05.speigs.zero-sector.TypeError', orc[0][1])]
        if a.dtype.kind == 'f' and calls and isinstance(calls[0][2], tuple) and calls[0][2][1].dtype.kind == 'c':
            return [('c05.speigs.real-input.complex-eigenvectors-in-real-array', '; '.join(x[0] for x in orc)[:300])]
    return orc


def expected_error(op, o, a, A):
    """None: no error may be raised; else list of acceptable error classes ('always' = must be raised)."""
    M, N = A.shape
    ci = a.chinfo
    if op == 'pinv' and o['cutoff'] <= 0.0:
        return ['ValueError', 'always']
    if op == 'polar' and o['cutoff'] < 0.0:
        return ['ValueError', 'always']
    if op in ('svd', 'pinv', 'polar') and o.get('inject') in ('nan', 'nan_always') and a.stored_blocks > 0 \
            and not (op == 'svd' and o['full'] and (not o['uv'] or o['cutoff'] is not None)) \
            and not (op == 'svd' and o['qL'] is not None and o['qR'] is not None and
                     np.any(ci.make_valid(np.array(o['qL']) + np.array(o['qR'])) != a.qtotal)):
        if o['inject'] == 'nan_always' or (op == 'svd' and not o['uv']):
            return ['ValueError', 'always']
    if op == 'svd':
        if o['full'] and (not o['uv'] or o['cutoff'] is not None):
            return ['ValueError', 'always']
        if o['qL'] is not None and o['qR'] is not None and \
                np.any(ci.make_valid(np.array(o['qL']) + np.array(o['qR'])) != a.qtotal):
            return ['ValueError', 'always']
        sd = np.linalg.svd(A, compute_uv=False) if A.size else np.array([])
        thr = o['cutoff'] if o['cutoff'] is not None else 0.0
        if o['cutoff'] is None:
            return ['RuntimeError', 'always'] if a.stored_blocks == 0 else None
        if not np.any(sd > thr):
            return ['RuntimeError', 'always']
        return None
    if op in ('pinv', 'polar'):
        sd = np.linalg.svd(A, compute_uv=False) if A.size else np.array([])
        if not np.any(sd > o['cutoff']):
            return ['RuntimeError', 'always']
        return None
    if op in ('eigh', 'eig', 'eigvalsh', 'eigvals', 'expm', 'speigs'):
        contr = True
        try:
            a.legs[0].test_contractible(a.legs[1])
        except ValueError:
            contr = False
        if M != N or not contr:
            return ['ValueError', 'always']
        if np.any(a.qtotal != ci.make_valid()):
            return ['NotImplementedError' if op == 'expm' else 'ValueError', 'always']
        if op == 'speigs':
            sec = ci.make_valid(np.array(o['sector']))
            q = ci.make_valid(a.legs[0].to_qflat() * a.legs[0].qconj)
            if not any(np.all(row == sec) for row in q):
                return ['ValueError', 'always']
            # ARPACK itself may give up (e.g. "starting vector is zero" for a stored all-zero block): a failure of
            # the trusted sparse solver to produce a result, not a wrong result
            return ['ArpackError', 'ArpackNoConvergence']
        return None
    if op == 'ortho':
        if M < N:
            return ['ValueError', 'always']
        return None
    return None


def main(inp, outp):
    import tenpy
    from tenpy.tools import optimization
    from tenpy.linalg import charges as ch
    from tenpy.linalg import np_conserved as npc
    from vlib import npcio
    optimization.set_level(0)
    cases = json.load(open(inp))
    results = []
    for case in cases:
        try:
            results.append(run_case(case, npc, ch, npcio))
        except Exception:
            import traceback
            results.append({'crash': traceback.format_exc()[-1800:]})
    meta = dict(have_cython=bool(optimization.have_cython_functions), tenpy_file=tenpy.__file__)
    json.dump(dict(meta=meta, results=results), open(outp, 'w'))


if __name__ == '__main__':
    main(sys.argv[1], sys.argv[2])
