"""C14: building small models / states / engines of the tree under test and instrumenting them.

No source edits: the step errors are observed by wrapping, for the duration of one trace,
  * `update_bond` of the TEBD engine class (return value = error of that bond update, `_update_index` = which U),
  * the module-level name `svd_theta` in `tenpy.algorithms.tdvp` (4th return value),
  * `MPO.apply` (return value = error of one MPO application) and, for the SVD / zip_up compressions, additionally
    the module-level `svd_theta` in `tenpy.networks.mpo` / `tenpy.networks.mps` (the individual truncations inside).
"""
import contextlib
import warnings
from fractions import Fraction

import numpy as np

ENGINES = ['TEBD', 'QRTEBD', 'TDVP2', 'TDVP1', 'ExpMPO']


def _model_classes():
    from tenpy.models.model import CouplingMPOModel, NearestNeighborModel
    from tenpy.networks.site import SpinHalfSite

    class C14Chain(CouplingMPOModel, NearestNeighborModel):
        """spin-1/2 XXZ chain in a (possibly time-dependent) field; nearest neighbour.

        H = sum_i J (Sx Sx + Sy Sy) + Jz Sz Sz  - h(t) sum_i Sz  [- g sum_i Sx  if conserve is None]
        h(t) = hz * (1 + amp * cos(omega * t))
        """
        default_lattice = 'Chain'
        force_default_lattice = True

        def init_sites(self, model_params):
            return SpinHalfSite(conserve=model_params.get('conserve', 'Sz'))

        def init_terms(self, model_params):
            t = model_params.get('time', 0.0)
            J = model_params.get('J', 1.0)
            Jz = model_params.get('Jz', 0.5)
            hz = model_params.get('hz', 0.25)
            g = model_params.get('g', 0.0)
            amp = model_params.get('amp', 0.0)
            omega = model_params.get('omega', 1.0)
            J2 = model_params.get('J2', 0.0)
            h = hz * (1.0 + amp * np.cos(omega * np.real(t)))
            self.add_onsite(-h, 0, 'Sz')
            if g != 0.0:
                self.add_onsite(-g, 0, 'Sx')
            self.add_coupling(0.5 * J, 0, 'Sp', 0, 'Sm', 1, plus_hc=True)
            self.add_coupling(Jz, 0, 'Sz', 0, 'Sz', 1)
            if J2 != 0.0:
                self.add_coupling(0.5 * J2, 0, 'Sp', 0, 'Sm', 2, plus_hc=True)
                self.add_coupling(J2, 0, 'Sz', 0, 'Sz', 2)

    class C14LongRange(CouplingMPOModel):
        """same with next-nearest-neighbour and third-neighbour couplings: not nearest neighbour (MPO engines)"""
        default_lattice = 'Chain'
        force_default_lattice = True
        init_sites = C14Chain.init_sites

        def init_terms(self, model_params):
            C14Chain.init_terms(self, model_params)
            J3 = model_params.get('J3', 0.0)
            if J3 != 0.0:
                self.add_coupling(J3, 0, 'Sz', 0, 'Sz', 3)

    return C14Chain, C14LongRange


_CLS = None


def model_classes():
    global _CLS
    if _CLS is None:
        _CLS = _model_classes()
    return _CLS


def build_model(spec):
    """spec: {'kind': 'nn'|'lr', 'L', 'bc', 'conserve', + couplings}"""
    Chain, LR = model_classes()
    p = dict(L=spec['L'], bc_MPS=spec.get('bc', 'finite'), conserve=spec.get('conserve', 'Sz'),
             J=spec.get('J', 1.0), Jz=spec.get('Jz', 0.5), hz=spec.get('hz', 0.25), g=spec.get('g', 0.0),
             amp=spec.get('amp', 0.0), omega=spec.get('omega', 1.0))
    if spec.get('bc', 'finite') == 'infinite':
        p['bc_x'] = 'periodic'
    if 'time' in spec:
        p['time'] = spec['time']
    if spec.get('explicit_plus_hc'):
        p['explicit_plus_hc'] = True
    if spec['kind'] == 'lr':
        p.update(J2=spec.get('J2', 0.3), J3=spec.get('J3', 0.2))
        return LR(p)
    return Chain(p)


def build_state(model, spec):
    from tenpy.networks.mps import MPS
    L = model.lat.N_sites
    pat = spec.get('state', 'neel')
    if pat == 'neel':
        st = (['up', 'down'] * L)[:L]
    elif pat == 'domain':
        st = ['up'] * (L // 2) + ['down'] * (L - L // 2)
    elif pat == 'mixed':
        st = (['up', 'up', 'down'] * L)[:L]
    else:
        st = list(pat)
    kw = {}
    try:
        kw['unit_cell_width'] = model.lat.mps_unit_cell_width
        return MPS.from_product_state(model.lat.mps_sites(), st, bc=model.lat.bc_MPS, **kw)
    except (TypeError, AttributeError):
        return MPS.from_product_state(model.lat.mps_sites(), st, bc=model.lat.bc_MPS)


def engine_class(name, td):
    from tenpy.algorithms import mpo_evolution, tdvp, tebd
    if name in ('TEBD', 'TEBDimag'):
        return tebd.TimeDependentTEBD if td else tebd.TEBDEngine
    if name == 'RUE':
        return tebd.RandomUnitaryEvolution
    if name == 'QRTEBD':
        if td:
            from tenpy.algorithms.algorithm import TimeDependentHAlgorithm

            class TimeDependentQRTEBD(TimeDependentHAlgorithm, tebd.QRBasedTEBDEngine):
                pass
            return TimeDependentQRTEBD
        return tebd.QRBasedTEBDEngine
    if name == 'TDVP2':
        return tdvp.TimeDependentTwoSiteTDVP if td else tdvp.TwoSiteTDVPEngine
    if name == 'TDVP1':
        return tdvp.TimeDependentSingleSiteTDVP if td else tdvp.SingleSiteTDVPEngine
    if name == 'ExpMPO':
        return mpo_evolution.TimeDependentExpMPOEvolution if td else mpo_evolution.ExpMPOEvolution
    raise ValueError(name)


def engine_options(case, dt, N):
    """options dict of the engine for a case (see harness/c14_acct.py for the case format)"""
    from tenpy.linalg.truncation import TruncationError
    tp = dict(chi_max=case.get('chi_max'), svd_min=case.get('svd_min', 1.e-14), trunc_cut=None)
    opt = dict(dt=dt, N_steps=N, trunc_params=tp, max_trunc_err=1.e300, start_time=case.get('start_time', 0.0))
    if case.get('start_eps') is not None:
        e = case['start_eps']
        opt['start_trunc_err'] = TruncationError(e, 1. - 2. * e)
    if case.get('preserve_norm') is not None:
        opt['preserve_norm'] = case['preserve_norm']
    eng = case['engine']
    if eng == 'RUE':
        pass
    elif eng in ('TEBD', 'QRTEBD', 'TEBDimag'):
        opt['order'] = case.get('order', 2)
        opt['max_delta_t'] = 1.e300
        if eng == 'QRTEBD':
            opt['cbe_expand'] = case.get('cbe_expand', 1.0)
            opt['cbe_min_block_increase'] = 2
    elif eng == 'ExpMPO':
        opt['order'] = case.get('order', 2)
        opt['approximation'] = case.get('approximation', 'II')
        opt['compression_method'] = case.get('compression', 'SVD')
        opt['max_dt'] = 1.e300
        if case.get('compression') in ('variational', 'variationalQR'):
            opt['max_sweeps'] = case.get('max_sweeps', 3)
            opt['min_sweeps'] = 1
        if case.get('compression') == 'zip_up':
            opt['m_temp'] = 2
            opt['trunc_weight'] = 1.0
    else:
        opt['max_dt'] = 1.e300
        opt['lanczos_params'] = dict(N_min=2, N_max=case.get('lanczos_N_max', 20), P_tol=1.e-14, reortho=True)
    # option branches chosen by the generator (QR options, lanczos_params, combine, Krylov_params, E_offset, ...)
    import copy
    for k, v in copy.deepcopy(case.get('extra_options') or {}).items():
        if k == 'lanczos_options':     # deprecated alias: must not be given together with lanczos_params
            opt.pop('lanczos_params', None)
        opt[k] = v
    return opt


class Recorder:
    """collects the step errors of one engine while `with rec.active(): eng.run()`"""

    def __init__(self, eng_name, inject=None):
        self.eng_name = eng_name
        self.errors = []       # (eps, ov) of every truncation the engine accounts for, program order
        self.updates = []      # TEBD: (U_idx_dt, i_bond)
        self.inner = []        # ExpMPO SVD/zip_up: eps of the individual svd_theta calls inside MPO.apply
        self.inject = inject   # None | callable(index) -> (eps, ov): replaces the error that is handed to the engine

    def _subst(self, err):
        """record the error the engine receives (possibly substituted by an injected exact value)"""
        from tenpy.linalg.truncation import TruncationError
        if self.inject is not None:
            eps, ov = self.inject(len(self.errors))
            err = TruncationError(eps, ov)
        self.errors.append((float(err.eps), float(err.ov)))
        return err

    @contextlib.contextmanager
    def active(self, eng):
        from tenpy.algorithms import tdvp as tdvp_mod
        from tenpy.networks import mpo as mpo_mod
        from tenpy.networks import mps as mps_mod
        rec = self
        undo = []
        try:
            if rec.eng_name in ('TEBD', 'QRTEBD', 'RUE', 'TEBDimag'):
                cls = type(eng)
                meth = 'update_bond_imag' if rec.eng_name == 'TEBDimag' else 'update_bond'
                orig = getattr(cls, meth)
                had = meth in cls.__dict__

                def update_bond(self_, i, U_bond):
                    idx = self_._update_index
                    err = orig(self_, i, U_bond)
                    rec.updates.append((int(idx[0]), int(idx[1])) if idx is not None else None)
                    return rec._subst(err)
                setattr(cls, meth, update_bond)
                undo.append((cls, meth, orig if had else None))
            elif rec.eng_name in ('TDVP2', 'TDVP1'):
                orig_svd = tdvp_mod.svd_theta

                def svd_theta(*a, **k):
                    r = orig_svd(*a, **k)
                    return r[:3] + (rec._subst(r[3]),) + r[4:]
                tdvp_mod.svd_theta = svd_theta
                undo.append((tdvp_mod, 'svd_theta', orig_svd))
            else:
                cls = mpo_mod.MPO
                orig_apply = cls.apply

                def apply(self_, psi, options):
                    return rec._subst(orig_apply(self_, psi, options))
                cls.apply = apply
                undo.append((cls, 'apply', orig_apply))
                for mod in (mpo_mod, mps_mod):
                    o = mod.svd_theta

                    def svd_theta(*a, _o=o, **k):
                        r = _o(*a, **k)
                        rec.inner.append(float(r[3].eps))
                        return r
                    mod.svd_theta = svd_theta
                    undo.append((mod, 'svd_theta', o))
            yield rec
        finally:
            for objt, name, orig in reversed(undo):
                if orig is None:
                    delattr(objt, name)
                else:
                    setattr(objt, name, orig)


def frac(x):
    """exact rational of a float / int / 'p/q' / [p, q]"""
    if isinstance(x, (list, tuple)):
        return Fraction(int(x[0]), int(x[1]))
    if isinstance(x, str):
        return Fraction(x)
    if isinstance(x, (int, np.integer)):
        return Fraction(int(x))
    return Fraction(float(x))


def fstr(fr):
    fr = Fraction(fr)
    return str(fr.numerator) if fr.denominator == 1 else f'{fr.numerator}/{fr.denominator}'


def quiet():
    warnings.simplefilter('ignore')
    import logging
    logging.getLogger('tenpy').setLevel(logging.CRITICAL + 1)
