"""C02 coverage round, executors part 2 (grid functions, detect_*, from_ndarray options, leg-level operations seen
through an Array, indexing variants, general add_charge, further factorizations, further argument errors)."""
import numpy as np

from harness import c02_stepgen as sg
from harness.c02_oracle import dump_legS, valid, legs_same, legs_contractible


def _c():
    from harness import c02_cover
    return c02_cover


def phys(leg):
    """charge*qconj per flat index, made valid"""
    mods = [int(m) for m in leg.chinfo.mod]
    return [valid(mods, [int(x) * int(leg.qconj) for x in r]) for r in leg.to_qflat()]


def prep2(Hh, st, a, A, b, B, out, exact):
    C = _c()
    op = st['op']
    env, io, npc, ch = Hh.env, Hh.io, Hh.npc, Hh.ch
    ret, dense, close, mods_of, qt_of = C.ret, C.dense, C.close, C.mods_of, C.qt_of

    # ------------------------------------------------------------------------------------------------ grid_concat
    if op == 'grid_concat':
        def run():
            axes, cuts = st['axes'], st['cuts']
            d0 = dense(a)

            def piece(idx):
                t = a.copy(deep=True)
                masks = []
                for ax, c, i in zip(axes, cuts, idx):
                    m = np.zeros(int(a.shape[ax]), dtype=bool)
                    m[c[i]:c[i + 1]] = True
                    masks.append(m)
                t.iproject(masks, axes)
                return t
            shape = [len(c) - 1 for c in cuts]
            grid = np.empty(shape, dtype=object)
            want = None if d0 is None else d0.copy()
            for idx in np.ndindex(*shape):
                if list(idx) in st['none']:
                    grid[idx] = None
                    if want is not None:
                        sl = [slice(None)] * a.rank
                        for ax, c, i in zip(axes, cuts, idx):
                            sl[ax] = slice(c[i], c[i + 1])
                        want[tuple(sl)] = 0
                else:
                    grid[idx] = piece(idx)
            arg_axes = C.sg_ax(a, axes, st.get('lab'))
            if len(axes) == 1:
                res = npc.grid_concat(list(grid), arg_axes, copy=st['copy']) if st['copy'] else \
                    npc.concatenate(list(grid), arg_axes[0], copy=False)
            else:
                res = npc.grid_concat(grid.tolist(), arg_axes, copy=st['copy'])
            con = []
            if not close(dense(res), want, exact):
                con.append('grid_concat: dense result is not the block matrix of the pieces')
            for i, (l0, l1) in enumerate(zip(a.legs, res.legs)):
                if phys(l0) != phys(l1):
                    con.append(f'grid_concat: leg {i} carries other charges than the original')
            return ret(Hh, [(out, res)], {out: qt_of(a)}, con)
        return None, run
    # ------------------------------------------------------------------------------------------------ grid_outer
    if op == 'grid_outer':
        def run():
            k = st['k']
            d0 = dense(a)
            shape = [int(s) for s in a.shape[:k]]
            grid = np.empty(shape, dtype=object)
            any_entry = False
            for idx in np.ndindex(*shape):
                t = a.take_slice(list(idx), list(range(k)))
                if len(t._data) == 0:
                    grid[idx] = None
                else:
                    grid[idx] = t
                    any_entry = True
            grid_legs = list(a.legs[:k])
            con = []
            if st['detect'] is not None and any_entry:
                ax = st['detect']
                gl = list(grid_legs)
                gl[ax] = None
                try:
                    new = npc.detect_grid_outer_legcharge(grid.tolist() if k > 1 else list(grid), gl, qtotal=a.qtotal.copy(),
                                                          qconj=st['qconj'])
                    # every index that carries an entry must get the charge of the original leg
                    got, want = phys(new[ax]), phys(a.legs[ax])
                    used = sorted({idx[ax] for idx in np.ndindex(*shape) if grid[idx] is not None})
                    if any(got[i] != want[i] for i in used):
                        con.append('detect_grid_outer_legcharge: detected charges differ from the original leg')
                    if int(new[ax].qconj) != st['qconj']:
                        con.append('detect_grid_outer_legcharge: qconj')
                    from harness.c02_oracle import oracle_leg
                    con += oracle_leg(new[ax], 'detected leg')
                except ValueError as e:
                    if "can't derive flat charge" not in str(e):
                        raise
            if not any_entry:
                try:
                    npc.grid_outer(grid.tolist() if k > 1 else list(grid), grid_legs, a.qtotal.copy())
                    con.append('grid_outer accepted a grid without entries')
                except ValueError:
                    pass
                return ret(Hh, contract=con)
            glab = [f'g{i}' for i in range(k)] if st['grid_labels'] else None
            res = npc.grid_outer(grid.tolist() if k > 1 else list(grid), grid_legs, a.qtotal.copy() if st['qtotal'] else None, glab)
            if not close(dense(res), d0, exact):
                con.append('grid_outer: dense result differs from the tensor the grid was cut from')
            return ret(Hh, [(out, res)], {out: qt_of(a)}, con)
        return None, run
    # ------------------------------------------------------------------------------------------------ detect_legcharge
    if op == 'detect_leg':
        def run():
            d0 = dense(a)
            ax = st['axis']
            legs = list(a.legs)
            legs[ax] = None
            con = []
            if d0 is None:
                return ret(Hh)
            new = npc.detect_legcharge(d0, a.chinfo, legs, a.qtotal.copy() if st['give_qtotal'] else None, st['qconj'])
            from harness.c02_oracle import oracle_leg
            con += oracle_leg(new[ax], 'detected leg')
            if st['give_qtotal']:
                got, want = phys(new[ax]), phys(a.legs[ax])
                thr = 0.0 if exact else 1.e-8 * max(1.0, float(np.max(np.abs(d0), initial=0.0)))
                nz = [i for i in range(int(a.shape[ax])) if np.any(np.abs(np.take(d0, i, axis=ax)) > thr)]
                if any(got[i] != want[i] for i in nz):
                    con.append('detect_legcharge: detected charges differ from the original leg on non-zero slices')
                # with the detected leg the data is charge-compatible again (zero slices may sit in any sector)
                t = npc.Array.from_ndarray(d0, new, qtotal=a.qtotal.copy())
                if not close(dense(t), d0, exact):
                    con.append('from_ndarray with the detected leg loses entries')
                return ret(Hh, [(out, t)], {out: qt_of(a)}, con)
            return ret(Hh, contract=con)
        return None, run
    # ------------------------------------------------------------------------------------------------ from_ndarray options
    if op == 'from_ndarray_opts':
        def run():
            d0 = dense(a)
            if d0 is None:
                return ret(Hh)
            con = []
            data = np.array(d0)
            nonzero = bool(np.any(np.abs(d0) > max(st['cutoff'] or 0.0, 1.e-6)))   # what detect_qtotal can see
            polluted = False
            if st['pollute'] and not st['detect']:
                # a non-zero entry in a block that is NOT compatible with qtotal
                idx = sg.compatible_idx(a, np_rng(st), want=False)
                if idx is not None:
                    data[tuple(idx)] = 1.0
                    polluted = True
            kw = dict(dtype=None if st['dtype'] is None else np.dtype(st['dtype']), cutoff=st['cutoff'])
            if polluted:
                if st['raise_wrong']:
                    try:
                        npc.Array.from_ndarray(data, a.legs, qtotal=a.qtotal.copy(), **kw)
                        con.append('from_ndarray accepted non-zero entries in a wrong sector (raise_wrong_sector=True)')
                    except ValueError:
                        pass
                    return ret(Hh, contract=con)
                t = npc.Array.from_ndarray(data, a.legs, qtotal=a.qtotal.copy(), raise_wrong_sector=False,
                                           warn_wrong_sector=False, **kw)
            elif st['detect']:
                t = npc.Array.from_ndarray(data, a.legs, qtotal=None, **kw)   # detect_qtotal
                if nonzero and exact and qt_of(t) != qt_of(a):
                    con.append(f'detect_qtotal found {qt_of(t)}, the tensor has {qt_of(a)}')
                if not nonzero:
                    return ret(Hh, [(out, t)], {}, con)
            else:
                t = npc.Array.from_ndarray(data, a.legs, qtotal=a.qtotal.copy(), **kw)
            if not close(dense(t), d0, exact):
                con.append('from_ndarray: entries of the compatible blocks differ')
            return ret(Hh, [(out, t)], {out: qt_of(a)} if (nonzero or not st['detect']) else {}, con)
        return None, run
    # ------------------------------------------------------------------------------------------------ leg operations
    if op == 'mk_legop':
        st['tag'] = st['how']

        def run():
            from harness.c02_oracle import oracle_leg
            from tenpy.linalg.charges import LegCharge, ChargeInfo, QTYPE
            leg = a.legs[st['k']]
            if hasattr(leg, 'q_map'):
                leg = leg.to_LegCharge()
            how = st['how']
            ci = leg.chinfo
            mods = [int(m) for m in ci.mod]
            qf, ph = [[int(x) for x in r] for r in leg.to_qflat()], phys(leg)
            con = []
            want_phys = None
            if how in ('sort0', 'sort1'):
                perm, new = leg.sort(bunch=(how == 'sort1'))
                pf = [int(i) for i in leg.perm_flat_from_perm_qind(perm)] if leg.block_number > 0 else []
                want_phys = [ph[i] for i in pf]
                if not new.is_sorted() or (how == 'sort1' and not new.is_bunched()):
                    con.append(f'{how}: result is not sorted / bunched')
            elif how == 'bunch':
                _, new = leg.bunch()
                want_phys = ph
                if not new.is_bunched():
                    con.append('bunch: result is not bunched')
            elif how == 'qdict':
                if not leg.is_blocked():
                    try:
                        leg.to_qdict()
                        con.append('to_qdict() of a leg that is not blocked did not raise')
                    except ValueError:
                        pass
                    return C.ret(Hh, contract=con)
                new = LegCharge.from_qdict(ci, leg.to_qdict(), leg.qconj)
                want_phys = ph
            elif how == 'project':
                mask = np.array(st['mask'], dtype=bool)
                _, _, new = leg.project(mask)
                want_phys = [p for p, m in zip(ph, mask) if m]
            elif how == 'extend':
                extra = st['extra'] if isinstance(st['extra'], int) else C.sg_leg(Hh, st['extra'])
                new = leg.extend(extra)
                want_phys = ph + ([[0] * len(mods)] * extra if isinstance(extra, int) else phys(extra))
            elif how == 'flip':
                new = leg.flip_charges_qconj()
                want_phys = ph
                if int(new.qconj) != -int(leg.qconj):
                    con.append('flip_charges_qconj: qconj not flipped')
            elif how == 'map':
                k = st['kmul']
                new = leg.apply_charge_mapping(lambda c: ci.make_valid(k * np.asarray(c)))
                want_phys = [valid(mods, [k * x for x in p]) for p in ph]
                if new.sorted or new.bunched:
                    con.append('apply_charge_mapping kept a sorted/bunched flag')
            elif how == 'qflat':
                new = LegCharge.from_qflat(ci, np.array(qf, dtype=QTYPE).reshape(len(qf), len(mods)), leg.qconj)
                want_phys = ph
            elif how == 'sectors':
                new = LegCharge.from_trivial(int(leg.ind_len), ci, int(leg.qconj)) if leg.ind_len > 0 else leg
                want_phys = [[0] * len(mods)] * int(new.ind_len)
            elif how == 'add':
                ci2 = ChargeInfo([st['mod2']])
                q2 = np.array(st['qflat2'], dtype=QTYPE) % (st['mod2'] if st['mod2'] != 1 else 10 ** 6)
                leg2 = LegCharge.from_qflat(ci2, q2, leg.qconj)
                if st['bunch2']:
                    leg2 = leg2.bunch()[1]
                new = LegCharge.from_add_charge([leg, leg2], rnd_chinfo(st, ChargeInfo.add([ci, ci2])))
                got = [[int(x) for x in r] for r in new.to_qflat()]
                wantq = [x + [int(y) for y in r] for x, r in zip(qf, leg2.to_qflat())]
                if got != wantq:
                    con.append('from_add_charge: per-index charges are not the concatenation of both legs')
            elif how == 'drop':
                c = st['c']
                new = LegCharge.from_drop_charge(leg, c, rnd_chinfo(st, ChargeInfo.drop(ci, c)))
                got = [[int(x) for x in r] for r in new.to_qflat()]
                wantq = [[] for _ in qf] if c is None else [[x for i, x in enumerate(r) if i != c] for r in qf]
                if got != wantq or int(new.qconj) != int(leg.qconj):
                    con.append('from_drop_charge: per-index charges are not the remaining columns')
            elif how == 'change':
                c, m = st['c'], st['mod']
                new = LegCharge.from_change_charge(leg, c, m, '', rnd_chinfo(st, ChargeInfo.change(ci, c, m)))
                got = [[int(x) for x in r] for r in new.to_qflat()]
                wantq = [[x % m if i == c else x for i, x in enumerate(r)] for r in qf]
                if got != wantq:
                    con.append('from_change_charge: per-index charges are not reduced modulo the new qmod')
                if [[int(x) for x in r] for r in leg.to_qflat()] != qf:
                    con.append('from_change_charge modified the source leg')
            else:
                raise KeyError(how)
            con += oracle_leg(new, f'{how} result')
            if want_phys is not None and phys(new) != [list(p) for p in want_phys]:
                con.append(f'{how}: the charge attached to an index changed')
            if new.block_number == 0 or con:
                return C.ret(Hh, contract=con)   # (an inconsistent leg would only make Array() raise)
            rs = np.random.RandomState(st['dseed'])
            t = npc.Array.from_func(lambda shape: C.int_data(rs, shape, np.float64), [new, new.conj()], dtype=np.float64)
            line = dict(op='from_func', legs=[dump_legS(new, io), dump_legS(new.conj(), io)], qtotal=None)
            st['_line'] = line
            return C.ret(Hh, [(out, t)], {out: [0] * int(new.chinfo.qnumber)}, con, outs={'res': out})
        # the model line needs the NEW leg: it is filled in by run() and read afterwards by the worker
        return LateLine(st), run
    # ------------------------------------------------------------------------------------------------ getitem2
    if op == 'getitem2':
        def run():
            r = a.rank
            lead = [C.index_of(i) for i in st['lead']]
            trail = [C.index_of(i) for i in st['trail']]
            nfill = r - len(lead) - len(trail)
            inds = tuple(lead) + ((Ellipsis,) if st['ellipsis'] else ()) + tuple(trail)
            if len(inds) == 1 and not st['ellipsis'] and len(lead) == 1 and r == 1:
                inds = inds[0]
            full = lead + [slice(None)] * nfill + trail
            d0 = dense(a)
            res = a[inds]
            con = []
            want = None if d0 is None else C.np_index(d0, full)
            if not isinstance(res, npc.Array):
                if want is not None and not close(np.asarray(res), np.asarray(want), exact):
                    con.append('a[inds] (scalar) differs from numpy')
                return ret(Hh, contract=con)
            if not close(dense(res), want, exact):
                con.append('a[inds] differs from numpy outer indexing')
            removed = []
            for ax, i in enumerate(full):
                if isinstance(i, (int, np.integer)):
                    from harness.c02_oracle import index_charge
                    removed.append(index_charge(a.legs[ax], int(i)))
            tot = qt_of(a)
            for c in removed:
                tot = [x - y for x, y in zip(tot, c)]
            return ret(Hh, [(out, res)], {out: valid(mods_of(a), tot)}, con)
        return None, run
    # ------------------------------------------------------------------------------------------------ setitem_flat
    if op == 'setitem_flat':
        def run():
            inds = tuple(C.index_of(i) for i in st['inds'])
            d0 = dense(a)
            cur = a[inds]
            if d0 is None or not isinstance(cur, npc.Array):
                return ret(Hh)
            blocks = list(a._data)
            aliased = any(np.shares_memory(x, y) for i, x in enumerate(blocks) for y in blocks[i + 1:])
            val = st['factor'] * dense(cur)
            want = np.array(d0, dtype=np.result_type(d0.dtype, val.dtype))
            # numpy reference of the outer-indexed assignment
            ix = np.ix_(*[np.arange(s)[i] if not isinstance(i, (int, np.integer)) else np.array([i]) for s, i in zip(a.shape, inds)])
            want[ix] = val.reshape([len(np.atleast_1d(np.arange(s)[i])) for s, i in zip(a.shape, inds)])
            if st['other'] == 'npc':
                a[inds] = cur * st['factor'] if st['factor'] != 0 else cur.zeros_like()
            else:
                a[inds] = val.astype(a.dtype) if np.can_cast(val.dtype, a.dtype, 'same_kind') else val.real.astype(a.dtype)
            con = []
            if not aliased and np.can_cast(val.dtype, a.dtype, 'same_kind') and not close(dense(a), want, exact):
                con.append('a[inds] = values: dense result differs from the numpy assignment')
            return ret(Hh, contract=con, touched=[st['a']], qts={st['a']: qt_of(a)})
        return None, run
    # ------------------------------------------------------------------------------------------------ add_charge (general)
    if op == 'add_charge_gen':
        if st['detect']:
            st['tag'] = 'detect-qtotal'

        def run():
            from tenpy.linalg.charges import LegCharge, ChargeInfo
            k = st['col']
            m2 = mods_of(a)[k]
            ci2 = ChargeInfo([m2])
            add_legs = []
            for l in a.legs:
                l2 = LegCharge.from_qflat(ci2, np.array(l.to_qflat()[:, k:k + 1]), l.qconj)
                add_legs.append(l2.bunch()[1] if st['bunch'] else l2)
            d0 = dense(a)
            nonzero = d0 is not None and bool(np.any(np.abs(d0) > 1.e-8))
            chinfo = ChargeInfo.add([a.chinfo, ci2]) if st['give_chinfo'] else None
            con = []
            if st['detect']:
                if not nonzero:
                    try:
                        a.add_charge(add_legs, chinfo)
                        con.append('add_charge(qtotal=None) of a zero tensor did not raise')
                    except ValueError:
                        pass
                    return ret(Hh, contract=con)
                res = a.add_charge(add_legs, chinfo)
            else:
                res = a.add_charge(add_legs, chinfo, qtotal=[int(a.qtotal[k])])
            if not close(dense(res), d0, exact):
                con.append('add_charge changed the entries')
            return ret(Hh, [(out, res)], {out: qt_of(a) + [int(a.qtotal[k])]}, con)
        return None, run
    # ------------------------------------------------------------------------------------------------ factorizations
    if op == 'fact2':
        if st['how'] == 'svd_full' and any(x != 0 for x in qt_of(a)):
            st['tag'] = 'svd-full-qtotal'   # known: full_matrices=True is only consistent for qtotal 0 (C05 finding)

        def run():
            how = st['how']
            x = a
            if x.dtype.kind not in 'fc' or x.dtype in (np.dtype('float32'), np.dtype('complex64')):
                x = x.astype(np.complex128 if x.dtype.kind == 'c' else np.float64)
            Hh.inexact = True
            d0 = dense(x)
            mods, q = mods_of(x), qt_of(x)
            zero = [0] * len(mods)
            con = []
            tol = 1.e-6 * max(1.0, float(np.max(np.abs(d0), initial=0.0)))
            if how == 'polar':
                labs = st['labels'] or [None, None]
                u, p, s = npc.polar(x, cutoff=st['cutoff'], left=st['left'], inner_labels=labs)
                rec = p.to_ndarray() @ u.to_ndarray() if st['left'] else u.to_ndarray() @ p.to_ndarray()
                if st['cutoff'] <= 1.e-12 and np.max(np.abs(rec - d0), initial=0.0) > tol:
                    con.append('polar: the product of the factors is not the matrix')
                if not legs_same(u.legs[0], x.legs[0]) or not legs_same(u.legs[1], x.legs[1]):
                    con.append('polar: u does not carry the legs of a')
                return ret(Hh, [(out, u), (st['out2'], p)], {}, con)
            if how in ('eigvalsh', 'eigvals'):
                if how == 'eigvalsh':
                    h = (x + x.conj().itranspose()) if True else x
                    w = npc.eigvalsh(h, sort=st['sort'])
                    ref = np.linalg.eigvalsh(h.to_ndarray())
                else:
                    w = npc.eigvals(x, sort=st['sort'])
                    ref = np.linalg.eigvals(d0)
                if len(w) != x.shape[0]:
                    con.append(f'{how}: {len(w)} eigenvalues for a {x.shape} matrix')
                elif np.max(np.abs(np.sort_complex(np.asarray(w, dtype=complex)) - np.sort_complex(ref.astype(complex))),
                            initial=0.0) > 1.e-5 * max(1.0, float(np.max(np.abs(ref), initial=0.0))) and how == 'eigvalsh':
                    con.append('eigvalsh: eigenvalues differ from numpy')
                return ret(Hh, contract=con)
            if how == 'orthogonal_columns':
                if x.shape[0] <= x.shape[1] or np.linalg.matrix_rank(d0) < x.shape[1]:
                    return ret(Hh)
                o = npc.orthogonal_columns(x, st['label'])
                od = o.to_ndarray()
                if od.shape != (x.shape[0], x.shape[0] - x.shape[1]):
                    con.append(f'orthogonal_columns: shape {od.shape}')
                else:
                    if np.max(np.abs(od.conj().T @ od - np.eye(od.shape[1])), initial=0.0) > 1.e-8:
                        con.append('orthogonal_columns: columns are not orthonormal')
                    if np.max(np.abs(od.conj().T @ d0), initial=0.0) > 1.e-7 * max(1.0, float(np.max(np.abs(d0)))):
                        con.append('orthogonal_columns: columns are not orthogonal to the columns of a')
                if not legs_same(o.legs[0], x.legs[0]):
                    con.append('orthogonal_columns: first leg is not a.legs[0]')
                return ret(Hh, [(out, o)], {}, con)
            if how == 'speigs':
                # the sector of the largest block
                y = x.as_completely_blocked()[1]
                sizes = [(blk.shape[0], [int(c) for c in y.chinfo.make_valid(y.legs[0].get_charge(qi[0]))])
                         for qi, blk in zip(y._qdata, y._data) if qi[0] == qi[1]]
                sizes = [s for s in sizes if s[0] >= 4]
                if not sizes:
                    return ret(Hh)
                n, sector = max(sizes)
                try:
                    w, v = npc.speigs(x, sector, st['k'], which='LM')
                except Exception as e:   # ARPACK: no convergence / k too large for a tiny block
                    if 'ARPACK' in type(e).__name__ or 'ARPACK' in str(e) or 'k' in str(e):
                        return ret(Hh)
                    raise
                outs = []
                for wi, vi in zip(w, v):
                    r = npc.tensordot(x, vi, axes=1) - wi * vi
                    if npc.norm(r) > 1.e-5 * max(1.0, abs(wi)):
                        con.append('speigs: A v != w v')
                    if qt_of(vi) != valid(mods, sector):
                        con.append(f'speigs: eigenvector has qtotal {qt_of(vi)}, sector {sector}')
                    outs.append(vi)
                return ret(Hh, contract=con)   # (ARPACK starts from a random vector: the eigenvectors are not kept)
            if how == 'svd_full':
                U, S, VH = npc.svd(x, full_matrices=True)
                if U.shape[0] != U.shape[1] or VH.shape[0] != VH.shape[1]:
                    con.append(f'svd(full_matrices=True): U {U.shape}, VH {VH.shape}')
                k = min(x.shape)
                rec = (U.to_ndarray()[:, :len(S)] * np.asarray(S)[np.newaxis, :]) @ VH.to_ndarray()[:len(S), :] \
                    if U.shape[1] >= len(S) and VH.shape[0] >= len(S) else None
                return ret(Hh, [(out, U), (st['out2'], VH)], {}, con)
            if how == 'svd_noUV':
                S = npc.svd(x, compute_uv=False)
                ref = np.linalg.svd(d0, compute_uv=False) if d0.size else np.zeros(0)
                S = np.sort(np.asarray(S))[::-1]
                if len(S) > len(ref) or (len(S) and np.max(np.abs(S - ref[:len(S)])) > tol * 10):
                    con.append('svd(compute_uv=False): singular values differ from numpy')
                return ret(Hh, contract=con)
            raise KeyError(how)
        return None, run
    # ------------------------------------------------------------------------------------------------ malformed2
    if op == 'malformed2':
        def run():
            kind = st['kind']
            r = a.rank
            if kind == 'concat_shape':
                npc.concatenate([a, env[st['b']]], st['axis'])
            elif kind in ('split_nonpipe', 'split_twice'):
                a.split_legs(st['axes'])
            elif kind == 'combine_dup':
                a.combine_legs([[0, 1], [1]] if r > 2 else [[0, 0]])
            elif kind == 'combine_new_axes':
                a.combine_legs([[0, 1]], new_axes=[0, 1])
            elif kind == 'combine_pipes_len':
                a.combine_legs([[0, 1]], pipes=[None, None])
            elif kind == 'take_slice_len':
                a.take_slice([0, 0], [0])
            elif kind == 'transpose_len':
                a.itranspose(list(range(r)) + [0])
            elif kind == 'labels_dup':
                a.iset_leg_labels(['z'] * r)
            elif kind == 'labels_empty':
                a.iset_leg_labels([''] + [None] * (r - 1))
            elif kind == 'replace_dup':
                named = [l for l in a._labels if l is not None]
                a.ireplace_label(named[0], named[1])
            elif kind == 'tensordot_len':
                npc.tensordot(a, a, axes=([0, 1], [0]))
            elif kind == 'from_ndarray_shape':
                npc.Array.from_ndarray(np.zeros([s + 1 for s in a.shape]), a.legs)
            elif kind == 'iproject_len':
                a.iproject([np.ones(int(a.shape[0]), bool)], [0, 0] if r == 1 else [0, 1])
            elif kind == 'iscale_axis_len':
                a.iscale_axis(np.ones(int(a.shape[0]) + 1), 0)
            elif kind == 'permute_len':
                a.permute(list(range(int(a.shape[0]) + 1)), 0)
            elif kind == 'add_leg_label':
                a.add_leg(Hh.pool[0], 0, 0, label=st['label'])
            elif kind == 'add_charge_len':
                a.add_charge(list(a.legs) + [a.legs[0]])
            elif kind == 'squeeze_nonunit':
                a.squeeze(st['axes'])
            elif kind == 'itruediv0':
                a.__itruediv__(0.0)
            elif kind == 'sort_legcharge_len':
                a.sort_legcharge([True] * (r + 1), True)
            else:
                raise KeyError(kind)
            return ret(Hh)
        return None, run
    raise KeyError('unknown op ' + op)


class LateLine(dict):
    """model line that becomes known only after the real call (needs the leg the call produced): the worker asks for
    `.resolve()` when recording the step"""

    def __init__(self, st):
        super().__init__()
        self._st = st

    def resolve(self):
        return self._st.pop('_line', None)


def np_rng(st):
    import random
    return random.Random(f"c02cover:{st.get('out')}:{st.get('a')}")


def rnd_chinfo(st, chinfo):
    """pass the (equal) ChargeInfo explicitly for every second call"""
    return chinfo if st.get('dseed', 0) % 2 else None
