"""C19: predefined neighbour lists (`pairs`) of the lattice classes match the Euclidean distances of the site positions.

Independent oracle on the real objects: all (u1, u2, dx) in a box, distances from `unit_cell_positions` and `basis`,
grouped with a tolerance (float arithmetic: sqrt(3)), k-th smallest distance <-> k-th key, modulo (u2, u1, -dx)."""
import itertools
import warnings

import numpy as np

from vlib import core

KEYS = ['nearest_neighbors', 'next_nearest_neighbors', 'next_next_nearest_neighbors', 'fourth_nearest_neighbors',
        'fifth_nearest_neighbors']
CLASSES = ['Chain', 'Ladder', 'Square', 'Triangular', 'Honeycomb', 'Kagome']
BOX = 4
TOL = 1e-9


def canon(u1, u2, dx):
    a = (int(u1), int(u2), tuple(int(d) for d in dx))
    b = (int(u2), int(u1), tuple(-int(d) for d in dx))
    return min(a, b)


def make(cls):
    from tenpy.models import lattice as la
    c = getattr(la, cls)
    if cls in ('Chain', 'Ladder'):
        return c(6, None)
    return c(5, 5, None)


def distance_groups(lat):
    pos = np.asarray(lat.unit_cell_positions, dtype=float)
    basis = np.asarray(lat.basis, dtype=float)
    Lu, D = len(lat.unit_cell), lat.dim
    items = []
    for u1, u2 in itertools.product(range(Lu), repeat=2):
        for dx in itertools.product(range(-BOX, BOX + 1), repeat=D):
            if u1 == u2 and not any(dx):
                continue
            v = pos[u2] - pos[u1] + np.tensordot(np.array(dx, dtype=float), basis, axes=1)
            items.append((float(np.sqrt(np.sum(v * v))), (u1, u2, dx)))
    items.sort(key=lambda t: t[0])
    groups = []
    for d, it in items:
        if groups and abs(groups[-1][0] - d) < TOL:
            groups[-1][1].add(canon(*it))
        else:
            groups.append((d, {canon(*it)}))
    return groups


def check_class(cls):
    """-> list of (signature, detail)"""
    out = []
    with warnings.catch_warnings():
        warnings.simplefilter('ignore')
        lat = make(cls)
        groups = distance_groups(lat)
        for k, key in enumerate(KEYS):
            if key not in lat.pairs:
                continue
            lst = [canon(u1, u2, dx) for u1, u2, dx in lat.pairs[key]]
            if len(set(lst)) != len(lst):
                out.append((f'pairs.{cls}.{key}.double-counted', f'{lst}'))
            d, want = groups[k]
            if set(lst) != want:
                out.append((f'pairs.{cls}.{key}.not-the-{k + 1}th-distance',
                            f'missing {sorted(want - set(lst))[:4]} extra {sorted(set(lst) - want)[:4]} (d={d:.6f})'))
            for u1, u2, dx in lat.pairs[key]:
                dd = float(lat.distance(u1, u2, np.asarray(dx)))
                if abs(dd - d) > TOL:
                    out.append((f'pairs.{cls}.{key}.distance()', f'{(u1, u2, list(dx))}: {dd} vs {d}'))
                    break
        # the library's own search must agree with the brute force grouping (first groups, |dx| <= 3)
        found = lat.find_coupling_pairs(max_dx=3, cutoff=min(2.5, 3 * min(np.linalg.norm(lat.basis, axis=-1)) - 0.1))
        for k, (d, lst) in enumerate(sorted(found.items())):
            got = {canon(u1, u2, dx) for u1, u2, dx in lst}
            if abs(d - groups[k][0]) > 1e-7 or got != groups[k][1]:
                out.append((f'find_coupling_pairs.{cls}.group{k}', f'd={d} vs {groups[k][0]}'))
                break
    return out


def run(ctx):
    res = core.Result()
    for cls in CLASSES:
        case = {'part': 'pairs', 'cls': cls}
        res.note_case(case, True)
        res.count('pairs.cls=' + cls)
        for sig, detail in check_class(cls):
            res.fail('property', sig, detail, case)
    return res


def search(ctx):
    return run(ctx)
