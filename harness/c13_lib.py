"""C13 helpers: model/engine generators, instrumented engines, exact diagonalisation oracle.

A case is a JSON-able dict; `run_case(case)` executes the real DMRG/VUMPS code in the calling process and returns a
JSON-able record (trace of the sweeps, energies, norm tests, oracle values)."""
import logging
import warnings

import numpy as np


def quiet():
    logging.getLogger('tenpy').setLevel(logging.CRITICAL)
    warnings.simplefilter('ignore')


# --------------------------------------------------------------------------------------------
# generation


def gen_model(rng, L, bc='finite'):
    kind = rng.choice(['TFI', 'TFI', 'XXZ', 'XXZ', 'Spin', 'Spin', 'Fermion', 'SpinC', 'SpinC', 'SpinC', 'FermionC', 'FermionC'])
    p = dict(L=L, bc_MPS=bc)
    if kind == 'SpinC':
        # genuinely complex Hermitian Hamiltonian: Dzyaloshinskii-Moriya coupling muJ (keeps Sz) and/or a field hy
        S = rng.choice([0.5, 0.5, 0.5, 1.0])
        variant = rng.choice(['muJ', 'muJ', 'hy', 'muJ+hy'])
        p.update(S=S, Jx=1.0, Jy=1.0, Jz=rng.choice([0.7, 1.0, 1.5]), hz=rng.choice([0.0, 0.1]))
        if 'muJ' in variant:
            p['muJ'] = rng.choice([0.6, -0.4, 1.1])
        if 'hy' in variant:
            p['hy'] = rng.choice([0.3, -0.5])
            p['conserve'] = None
        else:
            p['conserve'] = rng.choice(['Sz', 'Sz', 'parity', None])
        return 'Spin', p
    if kind == 'FermionC':
        # complex hopping J e^{i phi}
        phi = rng.choice([0.4, 1.0, 2.2])
        import cmath
        Jc = cmath.rect(1.0, phi)
        p.update(J=[Jc.real, Jc.imag], V=rng.choice([0.0, 1.0, 2.5]), mu=rng.choice([0.0, 0.3]),
                 conserve=rng.choice(['N', 'parity']))
        return 'Fermion', p
    if kind == 'TFI':
        p.update(J=rng.choice([1.0, 1.0, -0.7, 0.5]), g=rng.choice([0.3, 0.8, 1.0, 1.7]),
                 conserve=rng.choice([None, 'parity']))
    elif kind == 'XXZ':
        p.update(Jxx=rng.choice([1.0, 0.6, -1.0]), Jz=rng.choice([1.0, 0.3, 1.8, -0.5]),
                 hz=rng.choice([0.0, 0.0, 0.2]))
    elif kind == 'Spin':
        S = rng.choice([0.5, 0.5, 1.0])
        cons = rng.choice(['Sz', 'parity', None])
        p.update(S=S, Jx=1.0, Jy=1.0, Jz=rng.choice([1.0, 0.5, 1.5]), hz=rng.choice([0.0, 0.1]), conserve=cons)
        if cons != 'Sz':
            p['Jy'] = rng.choice([1.0, 0.7])
            p['hx'] = rng.choice([0.0, 0.3]) if cons is None else 0.0
        if S == 1.0:
            p['D'] = rng.choice([0.0, 0.4])
    else:
        p.update(J=1.0, V=rng.choice([0.0, 1.0, 2.5]), mu=rng.choice([0.0, 0.3]), conserve=rng.choice(['N', 'parity']))
    return kind, p


def maybe_plus_hc(rng, p):
    """`explicit_plus_hc`: the MPO holds half of H, the effective Hamiltonian is wrapped as H_eff + H_eff^dagger"""
    if rng.random() < 0.15:
        p['explicit_plus_hc'] = True
    return p


def gen_product_state(rng, kind, p):
    L = p['L']
    if kind == 'TFI':
        return [rng.choice(['up', 'down']) for _ in range(L)]
    if kind == 'XXZ':
        st = ['up', 'down'] * L
        st = st[:L]
        if rng.random() < 0.5:
            rng.shuffle(st)
        return st
    if kind == 'Spin':
        if p['S'] == 0.5:
            st = (['up', 'down'] * L)[:L]
        else:
            st = ([rng.choice(['up', '0.0', 'down']) for _ in range(L)])
        if rng.random() < 0.5:
            rng.shuffle(st)
        return st
    st = (['full', 'empty'] * L)[:L]
    if rng.random() < 0.5:
        rng.shuffle(st)
    return st


def gen_case(rng, quick=True, part=None):
    part = part or rng.choice(['dmrg'] * 8 + ['converge'] * 2 + ['long'] * 2)
    L = rng.choice([3, 4, 4, 5, 6, 6, 7, 8] if quick else [3, 4, 5, 6, 7, 8, 9, 10])
    kind, p = gen_model(rng, L)
    if kind == 'Spin' and p.get('S') == 1.0:
        L = min(L, 6)
        p['L'] = L
    maybe_plus_hc(rng, p)
    engine = rng.choice(['TwoSiteDMRGEngine', 'TwoSiteDMRGEngine', 'SingleSiteDMRGEngine'])
    if L == 3 and engine == 'TwoSiteDMRGEngine' and rng.random() < 0.3:
        engine = 'SingleSiteDMRGEngine'
    case = dict(part=part, kind=kind, model=p, engine=engine, init=gen_product_state(rng, kind, p))
    o = {}
    if part == 'long':
        # a run long enough for the mixer to be switched off well before the end: the returned state is canonical and
        # the strict comparison E vs <psi|H|psi> applies; single-site engine with combine on/off and every eigensolver
        case['part'] = part = 'dmrg'
        case['engine'] = rng.choice(['SingleSiteDMRGEngine', 'SingleSiteDMRGEngine', 'TwoSiteDMRGEngine'])
        o['mixer'] = True
        o['mixer_params'] = {'amplitude': 1e-3, 'decay': 2.0, 'disable_after': 5}
        o['trunc_params'] = {'chi_max': rng.choice([16, 64]), 'svd_min': 1e-12}
        o['max_sweeps'] = 11
        o['min_sweeps'] = 9
        o['combine'] = rng.random() < 0.6
        o['diag_method'] = rng.choice(['default', 'ED_block', 'lanczos', 'arpack'])
        o['max_trunc_err'] = None
        case['opts'] = o
        return case
    if part == 'converge':
        case['engine'] = 'TwoSiteDMRGEngine'
        o['mixer'] = rng.choice([True, 'DensityMatrixMixer', 'SubspaceExpansion', 'SubspaceExpansion'])
        case['model'].pop('explicit_plus_hc', None) if o['mixer'] == 'SubspaceExpansion' else None
        if rng.random() < 0.5:
            # range-2-only flip-flop couplings: the plain two-site update cannot leave the product state, the mixer
            # (one-sided expansion of the bond that is kept) is essential
            Lr = rng.choice([4, 4, 6, 8] if quick else [4, 6, 8, 8])
            case['kind'] = 'Range2'
            case['model'] = dict(L=Lr, bc_MPS='finite', J2=1.0, J1z=rng.choice([0.0, 0.3, -0.2, 0.1]), conserve='Sz')
            pat = rng.choice([['up', 'up', 'down', 'down'], ['up', 'down', 'down', 'up'], ['down', 'up', 'up', 'down'],
                              ['up', 'down', 'up', 'down']])
            case['init'] = (pat * Lr)[:Lr]
        o['trunc_params'] = {'chi_max': 200, 'svd_min': 1e-14}
        o['max_sweeps'] = 14
        o['min_sweeps'] = 6
        o['diag_method'] = rng.choice(['default', 'lanczos', 'ED_block'])
        o['mixer_params'] = {'amplitude': 1e-3, 'decay': 2.0, 'disable_after': 6}
        o['max_E_err'] = 1e-12
        o['max_S_err'] = 1e-8
    else:
        o['mixer'] = rng.choice([None, False, True, 'SubspaceExpansion', 'DensityMatrixMixer'])
        if o['mixer']:
            o['mixer_params'] = {'amplitude': rng.choice([1e-3, 1e-5]), 'decay': rng.choice([2.0, 1.5]),
                                 'disable_after': rng.choice([1, 2, 3, 15])}
        o['diag_method'] = rng.choice(['default', 'default', 'lanczos', 'lanczos', 'ED_block', 'arpack', 'ED_all'])
        chi = rng.choice([1, 2, 3, 4, 8, 16, 100])
        o['trunc_params'] = {'chi_max': chi, 'svd_min': rng.choice([1e-12, 1e-10, None])}
        if rng.random() < 0.25:
            o['chi_list'] = {0: rng.choice([1, 2]), rng.choice([1, 2]): chi}
        o['max_sweeps'] = rng.choice([0, 1, 2, 3, 5])
        o['min_sweeps'] = rng.choice([1, 1, 2])
        if rng.random() < 0.45:
            o['combine'] = True
        if rng.random() < 0.2:
            o['N_sweeps_check'] = 2
        if rng.random() < 0.2:
            o['lanczos_params'] = {'N_max': rng.choice([3, 6, 20]), 'N_cache': rng.choice([2, 3, 20]),
                                   'reortho': rng.random() < 0.5}
    o['max_trunc_err'] = None      # (the a-posteriori sanity threshold of tenpy; None = warn instead of raise)
    case['opts'] = o
    return case


# --------------------------------------------------------------------------------------------
# real code


def build_model(kind, p):
    from tenpy.models.tf_ising import TFIChain
    from tenpy.models.xxz_chain import XXZChain
    from tenpy.models.spins import SpinChain
    from tenpy.models.fermions_spinless import FermionChain
    p = dict(p)
    if kind == 'Range2':
        return range_two_chain()(p)
    cls = {'TFI': TFIChain, 'XXZ': XXZChain, 'Spin': SpinChain, 'Fermion': FermionChain}[kind]
    if kind == 'Fermion' and isinstance(p.get('J'), list):
        p['J'] = complex(*p['J'])
    return cls(p)


_RANGE2 = []


def range_two_chain():
    """spin-1/2 chain (Sz conserved) whose flip-flop couplings have range 2 only:
    H = J2 sum_i S_i.S_{i+2} + J1z sum_i Sz_i Sz_{i+1}.  A two-site update on neighbouring sites cannot leave a product
    state (the two sites are not coupled by a flip-flop term and the environment is a product state): reaching the
    ground state relies on the mixer enlarging the bond that is kept for the next update."""
    if _RANGE2:
        return _RANGE2[0]
    from tenpy.models.lattice import Chain
    from tenpy.models.model import CouplingMPOModel
    from tenpy.networks.site import SpinHalfSite

    class RangeTwoChain(CouplingMPOModel):
        default_lattice = Chain
        force_default_lattice = True

        def init_sites(self, model_params):
            return SpinHalfSite(conserve=model_params.get('conserve', 'Sz'))

        def init_terms(self, model_params):
            J2 = model_params.get('J2', 1.0)
            J1z = model_params.get('J1z', 0.0)
            self.add_coupling(J2 / 2.0, 0, 'Sp', 0, 'Sm', 2, plus_hc=True)
            self.add_coupling(J2, 0, 'Sz', 0, 'Sz', 2)
            self.add_coupling(J1z, 0, 'Sz', 0, 'Sz', 1)
    _RANGE2.append(RangeTwoChain)
    return RangeTwoChain


def snapshot(env):
    L = env.L
    return ([[i, env._LP_age[i]] for i in range(L) if env.has_LP(i)],
            [[i, env._RP_age[i]] for i in range(L) if env.has_RP(i)])


def traced_engine(cls, rec, check_fresh):
    """Subclass of the engine that records, for every sweep and every step, what the bookkeeping did, and compares
    the environments handed to the effective Hamiltonian with a contraction from scratch (finite systems)."""
    import tenpy.linalg.np_conserved as npc
    from tenpy.networks.mpo import MPOEnvironment

    class Traced(cls):
        def sweep(self, optimize=True, **kw):
            rec['sweeps'].append({'optimize': bool(optimize), 'start': snapshot(self.env), 'steps': []})
            if optimize:  # amplitude with which the mixer perturbs the state during this sweep (0: no mixer);
                # filled in per step below, because `sweep` itself may re-activate the mixer (`chi_list`)
                rec['mixer_amp_last_sweep'] = 0.0
            return super().sweep(optimize, **kw)

        def make_eff_H(self):
            super().make_eff_H()
            if self.mixer is not None and rec['sweeps'] and rec['sweeps'][-1]['optimize']:
                rec['mixer_amp_last_sweep'] = max(rec.get('mixer_amp_last_sweep', 0.0), float(self.mixer.amplitude))
            H = self.eff_H
            while hasattr(H, 'orig_operator'):
                H = H.orig_operator
            if check_fresh and H.N <= 150 and hasattr(H, 'to_matrix'):
                try:
                    d = effH_to_matrix_defect(H)
                    err = None
                except Exception as e:  # noqa: legs of to_matrix() that do not fit theta are a deviation as well
                    d, err = float('inf'), f'{type(e).__name__}: {str(e)[:60]}'
                rec['effH_checked'] = rec.get('effH_checked', 0) + 1
                if d > rec.get('effH', 0.0):
                    rec['effH'] = d
                    if d > 1e-10:
                        rec['effH_at'] = [len(rec['sweeps']) - 1, int(self.i0), bool(self.move_right), bool(self.combine),
                                          type(H).__name__, err or float(d)]
            if check_fresh and self.psi.finite:
                ref = MPOEnvironment(self.psi, self.model.H_MPO, self.psi)
                n = self.n_optimize
                LPr = ref.get_LP(self.i0, store=False)
                RPr = ref.get_RP(self.i0 + n - 1, store=False)
                dL = npc.norm(H.LP - LPr.transpose(H.LP.get_leg_labels()))
                dR = npc.norm(H.RP - RPr.transpose(H.RP.get_leg_labels()))
                sc = 1.0 + npc.norm(LPr) + npc.norm(RPr)
                rec['stale'] = max(rec.get('stale', 0.0), float(dL / sc), float(dR / sc))
                if max(dL, dR) / sc > 1e-9 and 'stale_at' not in rec:
                    rec['stale_at'] = [len(rec['sweeps']) - 1, int(self.i0), bool(self.move_right), float(dL / sc), float(dR / sc)]

        def mixed_svd(self, theta):
            # contract of the decomposition (docstrings of `mixed_svd` / `Mixer.mix_and_decompose_2site`): the tensor
            # that is kept as new A (resp. B) tensor and contracted into the growing environment — U when LP is
            # updated, VH when RP is updated — is an isometry, with or without mixer, whatever the other one is
            U, S, VH, err, S_a = super().mixed_svd(theta)
            upL, upR = self.update_LP_RP
            defect, which = 0.0, None
            if upL:
                g = npc.tensordot(U.conj(), U, axes=[['(vL*.p*)'], ['(vL.p)']])
                dU = float(npc.norm(g - npc.eye_like(g, labels=g.get_leg_labels())))
                defect, which = dU, 'U'
            if upR:
                g = npc.tensordot(VH, VH.conj(), axes=[['(p.vR)'], ['(p*.vR*)']])
                dV = float(npc.norm(g - npc.eye_like(g, labels=g.get_leg_labels())))
                if dV > defect:
                    defect, which = dV, 'VH'
            rec['iso_checked'] = rec.get('iso_checked', 0) + 1
            if defect > rec.get('iso', 0.0):
                rec['iso'] = defect
                if defect > 1e-8 and 'iso_at' not in rec:
                    rec['iso_at'] = [len(rec['sweeps']) - 1, int(self.i0), bool(self.move_right), [bool(upL), bool(upR)],
                                     which, type(self.mixer).__name__, defect]
            return U, S, VH, err, S_a

        def mixer_cleanup(self):
            # `mixer_cleanup` is documented as a pure gauge change (SVD of the bond matrices absorbed into the
            # neighbouring tensors): the state before and after must be the same
            had = any(np.ndim(x) == 2 for x in self.psi._S)
            if had and self.psi.finite:
                before = self.psi.copy()
                EHb = float(np.real(self.model.H_MPO.expectation_value(before)))
            super().mixer_cleanup()
            if had and self.psi.finite:
                ov = abs(self.psi.overlap(before)) / np.sqrt(abs(self.psi.overlap(self.psi)) * abs(before.overlap(before)))
                rec['cleanup'] = {'matrix_S': True, 'ov': float(ov), 'EH_before': EHb,
                                  'EH_after': float(np.real(self.model.H_MPO.expectation_value(self.psi)))}

        def free_no_longer_needed_envs(self):
            super().free_no_longer_needed_envs()
            if rec['sweeps']:
                lp, rp = snapshot(self.env)
                rec['sweeps'][-1]['steps'].append({'i0': int(self.i0), 'mr': bool(self.move_right),
                                                   'upd': [bool(x) for x in self.update_LP_RP], 'lp': lp, 'rp': rp})

    Traced.__name__ = cls.__name__
    return Traced


def effH_to_matrix_defect(H):
    """model-free check of an effective Hamiltonian: `to_matrix()` against the matrix whose columns are `matvec` applied
    to the basis vectors, with exactly the conventions `full_diag_effH` relies on (the first pipe of the matrix is the
    combination of `acts_on` with qconj=+1).  Returns the relative deviation."""
    import tenpy.linalg.np_conserved as npc
    mat = H.to_matrix()
    pipe = mat.legs[0]
    Md = mat.to_ndarray()
    N = Md.shape[0]
    dense = np.zeros((N, N), dtype=complex)
    qflat = pipe.to_qflat()
    for j in range(N):
        e = np.zeros(N, dtype=complex)
        e[j] = 1.0
        v = npc.Array.from_ndarray(e, [pipe], qtotal=pipe.chinfo.make_valid(qflat[j] * pipe.qconj))
        th = v.split_legs([0]).iset_leg_labels(H.acts_on)
        w = H.matvec(th)
        w = w.combine_legs(H.acts_on, qconj=+1)
        dense[:, j] = w.to_ndarray()
    return float(np.linalg.norm(dense - Md) / max(1.0, np.linalg.norm(dense)))


def exact_ground_state(model, psi0, max_dim=5000, all_sectors=False):
    """lowest energy and state in the charge sector of psi0 (ExactDiag), plus the gap to the next level"""
    from tenpy.algorithms.exact_diag import ExactDiag
    charges = None if all_sectors else psi0.get_total_charge(True)   # (diag_method='ED_all' may leave the sector)
    ed = ExactDiag(model, charge_sector=charges, max_size=2.e7)
    ed.build_full_H_from_mpo()
    ed.full_diagonalization()
    E = np.sort(np.real(ed.E))
    _, gs = ed.groundstate()
    gap = float(E[1] - E[0]) if len(E) > 1 else float('inf')
    return float(E[0]), gs, ed, gap, len(E)


def run_case(case):
    quiet()
    from tenpy.algorithms import dmrg
    from tenpy.networks.mps import MPS
    kind, p = case['kind'], case['model']
    M = build_model(kind, p)
    psi = MPS.from_product_state(M.lat.mps_sites(), case['init'], bc=p['bc_MPS'])
    q0 = [int(x) for x in psi.get_total_charge(True)]
    rec = {'sweeps': []}
    cls = traced_engine(getattr(dmrg, case['engine']), rec, check_fresh=True)
    opts = {k: (dict(v) if isinstance(v, dict) else v) for k, v in case['opts'].items()}
    if 'chi_list' in opts:
        opts['chi_list'] = {int(k): v for k, v in opts['chi_list'].items()}
    out = {'q0': q0}
    try:
        eng = cls(psi, M, opts)
        out['init_env'] = snapshot(eng.env)
        out['n'] = int(eng.n_optimize)
        E, psi = eng.run()
    except Exception as e:  # noqa
        import traceback
        out['raise'] = f'{type(e).__name__}: {str(e)[:200]}'
        out['tb'] = traceback.format_exc()[-800:]
        return out
    out['trace'] = rec
    out['E'] = float(np.real(E))
    out['EH'] = float(np.real(M.H_MPO.expectation_value(psi)))
    out['norm_test'] = float(np.max(np.abs(psi.norm_test())))
    out['norm'] = float(psi.norm)
    out['ov_self'] = float(abs(psi.overlap(psi)))
    out['q1'] = [int(x) for x in psi.get_total_charge(True)]
    out['chi'] = [int(c) for c in psi.chi]
    out['S_1d'] = all(np.ndim(s) == 1 for s in psi._S)
    out['forms_ok'] = all(f in [(0.0, 1.0), (1.0, 0.0)] for f in map(tuple, psi.form))
    st = eng.sweep_stats
    out['max_E_trunc'] = float(np.max(np.abs([x for x in st['max_E_trunc'] if x is not None] or [0.0])))
    out['last_E_trunc'] = float(abs(st['max_E_trunc'][-1])) if st['max_E_trunc'] and st['max_E_trunc'][-1] is not None else 0.0
    out['last_trunc_err'] = float(st['max_trunc_err'][-1]) if st['max_trunc_err'] else 0.0
    out['mixer_on_at_end'] = eng.mixer is not None
    out['mixer_amp'] = float(eng.mixer.amplitude) if eng.mixer is not None else 0.0
    out['mixer_amp_last_sweep'] = rec.get('mixer_amp_last_sweep', 0.0)
    out['sweeps_done'] = int(eng.sweeps)
    out['stale'] = rec.get('stale', 0.0)
    out['stale_at'] = rec.get('stale_at')
    out['cleanup'] = rec.get('cleanup')
    out['effH'] = min(rec.get('effH', 0.0), 1e300)
    out['effH_at'] = rec.get('effH_at')
    out['effH_checked'] = rec.get('effH_checked', 0)
    out['iso'] = rec.get('iso', 0.0)
    out['iso_at'] = rec.get('iso_at')
    out['iso_checked'] = rec.get('iso_checked', 0)
    psi0 = MPS.from_product_state(M.lat.mps_sites(), case['init'], bc=p['bc_MPS'])
    E0, gs, ed, gap, dim = exact_ground_state(M, psi0, all_sectors=case['opts'].get('diag_method') == 'ED_all')
    out['E0'] = E0
    out['gap'] = gap
    out['dim'] = dim
    out['scale'] = float(max(1.0, np.max(np.abs(ed.E))))
    if case['part'] == 'converge':
        # DMRG (like any Krylov method) stays in the symmetry sector of its start vector even if that symmetry is not
        # declared as a conserved charge: the target is the lowest eigenstate the initial state overlaps with
        import tenpy.linalg.np_conserved as npc
        v0 = ed.mps_to_full(psi0)
        w = np.abs(npc.tensordot(v0.conj(), ed.V, axes=1).to_ndarray())
        order = np.argsort(np.real(ed.E))
        Es = np.real(ed.E)[order]
        reach = [k for k in range(len(Es)) if w[order[k]] > 1e-9]
        k0 = reach[0]
        out['E0_reach'] = float(Es[k0])
        higher = [Es[k] for k in reach if Es[k] > Es[k0] + 1e-9]
        out['gap_reach'] = float(higher[0] - Es[k0]) if higher else float('inf')
        # the eigenvalue the run ended at (rounding may leave a symmetry sector that is not declared as a charge, but
        # only towards lower energy)
        kn = int(np.argmin(np.abs(Es - out['E'])))
        out['E_near'] = float(Es[kn])
        others = [abs(Es[k] - Es[kn]) for k in range(len(Es)) if abs(Es[k] - Es[kn]) > 1e-9]
        out['gap_near'] = float(min(others)) if others else float('inf')
        deg = [order[k] for k in range(len(Es)) if abs(Es[k] - Es[kn]) < 1e-9]
        vfull = ed.mps_to_full(psi)
        ovs = np.abs(npc.tensordot(vfull.conj(), ed.V, axes=1).to_ndarray())[deg]
        out['ov_gs'] = float(np.sqrt(np.sum(ovs ** 2)))
    return out


def npc_inner(a, b):
    import tenpy.linalg.np_conserved as npc
    return npc.inner(a, b, axes='range', do_conj=True)


# --------------------------------------------------------------------------------------------
# infinite systems: iDMRG trace + VUMPS


def e0_tfi(g, J=1.0):
    """exact ground-state energy per site of H = -J sum sx sx - g sum sz (free fermions)"""
    from scipy import integrate
    return integrate.quad(lambda k: -np.sqrt(J * J + g * g - 2 * J * g * np.cos(k)) / np.pi, 0, np.pi)[0]


def gen_infinite_case(rng, part):
    L = rng.choice([2, 2, 3, 4]) if part == 'idmrg' else rng.choice([1, 2, 2, 3])
    g = rng.choice([0.5, 1.5, 2.0])
    case = dict(part=part, kind='TFI', model=dict(L=L, J=1.0, g=g, bc_MPS='infinite', conserve=rng.choice([None, 'parity'])))
    if part == 'idmrg':
        case['engine'] = rng.choice(['TwoSiteDMRGEngine', 'SingleSiteDMRGEngine'])
        case['opts'] = {'mixer': rng.choice([None, True, 'SubspaceExpansion']), 'trunc_params': {'chi_max': rng.choice([4, 8, 16]), 'svd_min': 1e-10},
                        'max_sweeps': rng.choice([2, 4, 6]), 'min_sweeps': 2, 'N_sweeps_check': rng.choice([1, 2, 2]),
                        'max_trunc_err': None, 'mixer_params': {'amplitude': 1e-4, 'decay': 2.0, 'disable_after': 2}}
        if rng.random() < 0.4:
            case['opts']['update_env'] = rng.choice([0, 1, 2])
        if case['engine'] == 'TwoSiteDMRGEngine' and L == 1:
            case['model']['L'] = 2
    else:
        case['engine'] = rng.choice(['SingleSiteVUMPSEngine', 'TwoSiteVUMPSEngine'])
        if case['engine'] == 'TwoSiteVUMPSEngine' and L == 1:
            case['model']['L'] = 2
        case['model']['conserve'] = None
        case['opts'] = {'combine': False, 'mixer': False if case['engine'] == 'SingleSiteVUMPSEngine' else rng.choice([False, 'DensityMatrixMixer']),
                        'chi_list': {0: 8, 4: rng.choice([12, 16])}, 'max_E_err': 1e-12, 'max_S_err': 1e-8, 'N_sweeps_check': 1,
                        'mixer_params': {'disable_after': 5, 'amplitude': 1e-5}, 'trunc_params': {'svd_min': 1e-10},
                        'max_sweeps': 25, 'max_trunc_err': None}
    return case


def run_infinite_case(case):
    quiet()
    from tenpy.algorithms import dmrg, vumps
    from tenpy.models.tf_ising import TFIChain
    from tenpy.networks.mps import MPS
    p = case['model']
    M = TFIChain(dict(p))
    L = p['L']
    out = {}
    rec = {'sweeps': []}
    try:
        if case['part'] == 'idmrg':
            psi = MPS.from_product_state(M.lat.mps_sites(), ['up'] * L, bc='infinite')
            cls = traced_engine(getattr(dmrg, case['engine']), rec, check_fresh=False)
            eng = cls(psi, M, {k: (dict(v) if isinstance(v, dict) else v) for k, v in case['opts'].items()})
            out['init_env'] = snapshot(eng.env)
            out['n'] = int(eng.n_optimize)
            E, psi = eng.run()
            out['trace'] = rec
        else:
            if case['engine'] == 'SingleSiteVUMPSEngine':
                np.random.seed(12345)
                psi = MPS.from_desired_bond_dimension(M.lat.mps_sites(), 8, bc='infinite', unit_cell_width=L)
            else:
                psi = MPS.from_product_state(M.lat.mps_sites(), [0] * L, bc='infinite', unit_cell_width=L)
            opts = {k: (dict(v) if isinstance(v, dict) else v) for k, v in case['opts'].items()}
            opts['chi_list'] = {int(k): v for k, v in opts['chi_list'].items()}
            eng = getattr(vumps, case['engine'])(psi, M, opts)
            E, psi = eng.run()
    except Exception as e:  # noqa
        import traceback
        out['raise'] = f'{type(e).__name__}: {str(e)[:200]}'
        out['tb'] = traceback.format_exc()[-800:]
        return out
    out['E'] = float(np.real(E))
    out['e0'] = float(e0_tfi(p['g'], p['J']))
    out['norm_test'] = float(np.max(np.abs(psi.norm_test())))
    out['E_bond'] = float(np.mean(psi.expectation_value(M.H_bond)))
    out['E_mpo'] = float(np.real(M.H_MPO.expectation_value(psi)))
    out['chi'] = [int(c) for c in psi.chi]
    out['sweeps_done'] = int(eng.sweeps)
    out['iso_at'] = rec.get('iso_at')
    out['iso_checked'] = rec.get('iso_checked', 0)
    return out


# --------------------------------------------------------------------------------------------
# effective Hamiltonians on random complex environments (model-free)


def gen_effh_case(rng):
    L = rng.choice([3, 4, 5, 6])
    kind, p = gen_model(rng, L)
    if kind == 'Spin' and p.get('S') == 1.0:
        p['L'] = min(L, 4)
    return dict(part='effh', kind=kind, model=p, engine='-', init=gen_product_state(rng, kind, p),
                chi=rng.choice([2, 3, 4]), nseed=rng.getrandbits(32), opts={})


def random_mps(M, init, chi, dtype=complex, rounds=3):
    """random MPS in the charge sector of the product state `init`: a bounded number of random-unitary TEBD rounds
    (`MPS.from_random_unitary_evolution` keeps evolving for 1000 rounds when `chi` is not reachable in the sector)"""
    from tenpy.algorithms.tebd import RandomUnitaryEvolution
    from tenpy.networks.mps import MPS
    psi = MPS.from_product_state(M.lat.mps_sites(), init, bc='finite', dtype=dtype,
                                 unit_cell_width=M.lat.mps_unit_cell_width)
    eng = RandomUnitaryEvolution(psi, dict(N_steps=2, trunc_params={'chi_max': chi}))
    for _ in range(rounds):
        eng.run()
        if max(psi.chi) >= chi:
            break
    psi.canonical_form()
    return psi


def run_effh_case(case):
    """`to_matrix()` of OneSiteH / TwoSiteH vs the matrix of `matvec` on basis vectors, for combine True/False and both
    move directions, at every position of a random complex MPS (random unitary evolution of the product state, so the
    charge structure of the model is kept) — environments LP/RP are genuinely complex."""
    quiet()
    from tenpy.algorithms.mps_common import OneSiteH, TwoSiteH
    from tenpy.networks.mps import MPS
    from tenpy.networks.mpo import MPOEnvironment
    kind, p = case['kind'], case['model']
    M = build_model(kind, p)
    np.random.seed(case['nseed'])
    psi = random_mps(M, case['init'], case['chi'])
    env = MPOEnvironment(psi, M.H_MPO, psi)
    L = p['L']
    out = {'effH': 0.0, 'effH_checked': 0, 'sweeps_done': 0, 'complex_env': False}
    for cls, n in ((OneSiteH, 1), (TwoSiteH, 2)):
        for i0 in range(0, L - n + 1):
            for combine in (False, True):
                for mr in (True, False):
                    try:
                        H = cls(env, i0, combine, mr)
                        if H.N > 200:
                            continue
                        d = effH_to_matrix_defect(H)
                        # Hermitian operator and Hermitian environments: the matrix must be Hermitian as well
                        Md = H.to_matrix().to_ndarray()
                        herm = float(np.linalg.norm(Md - Md.conj().T) / max(1.0, np.linalg.norm(Md)))
                    except Exception as e:  # noqa
                        out['effH'] = float('inf')
                        out['effH_at'] = [cls.__name__, i0, combine, mr, f'{type(e).__name__}: {str(e)[:60]}', None]
                        continue
                    out['effH_checked'] += 1
                    out['complex_env'] = out['complex_env'] or bool(np.linalg.norm(np.imag(H.LP.to_ndarray())) > 1e-8)
                    if max(d, herm) > out['effH']:
                        out['effH'] = max(d, herm)
                        if max(d, herm) > 1e-10:
                            out['effH_at'] = [cls.__name__, i0, combine, mr, d, herm]
    return out
