"""C15 — truncation honours its constraints and reports its error exactly."""
import json
import time

from vlib import core
from harness import c15_truncate, c15_err, c15_decomp

PROP = 'C15'
MODEL_MODULES = ['TenpyModel.Util.J', 'TenpyModel.C15.Truncate']
PROPS_MODULES = ['TenpyModel.C15.Props', 'TenpyModel.C15.PropsMatrix', 'TenpyModel.C15.Props2']
LEAN_MODULES = PROPS_MODULES
LEVEL = 'proof'
BUDGET = {'quick': 150, 'thorough': 1500}
RULE = ('truncate: spectra of length 1-12 (0 and a few special streams: ulp-neighbours, one negative entry, values '
        'below 1e-100) drawn from 2^-k, k/16, small rationals p/q, geometric and Pythagorean families, with forced '
        'exact ties, zeros, asc/desc/shuffled order, rescaled or normalised; options from the full lattice: each key '
        'absent (default) / None / set, chi_max,chi_min in {0,1,2,3,n-1,n,n+1,100}, degeneracy_tol = log(r) +- 1e-6 for '
        'ratios r occurring in the spectrum (and exactly log r, 0, negative, generic), svd_min on / between / one ulp '
        'beside values, trunc_cut exactly on (rational square roots) / between / one ulp beside the partial sums, >= 1, '
        'negative. Every case runs on the real truncate, on the Lean model (exact rationals) and through the brute-force '
        'oracle; non-trivial = n >= 2 and (something discarded or a constraint ignored); distinct by content hash. '
        'TruncationError: from_S / from_norm / chains of + on few-bit dyadics, compared exactly. Decompositions: '
        'svd_theta, eigh_rho, decompose_theta_qr_based on random npc Arrays (no charge, U1, Z2, Z3, U1xZ2; blocked and '
        'unsorted legs; real/complex; imposed degenerate spectra; nonzero qtotal / regauged twins), dense oracle; '
        'svd_theta with qtotal_LR (left/right/both/inconsistent), inner_labels, rank-deficient input, >100 values of which '
        'one survives; eigh_rho with UPLO (other triangle spoiled) and every sort; QR-based with all compute_err x '
        'return_both_T combinations, expand None/0, min_block_increase 0-2, both sweep directions, eig-based variant, '
        'two-site tensors cut out of random finite/infinite/segment MPS; _eig_based_svd called directly.')
TRUSTED = ['Lean 4.33 kernel; axioms of every C15_* theorem ⊆ {propext, Classical.choice, Quot.sound}',
           'hand-written model TenpyModel/C15/Truncate.lean, tied to tenpy/linalg/truncation.py by this correspondence run',
           'harness: float -> exact Fraction conversion, JSON line driver lean/drivers/C15.lean, ambiguity detector '
           '(comparisons closer than the rounding noise of log / running sums are accepted either way)',
           'numpy/LAPACK dense svd, eigvalsh, norm as reference for the decompositions (tolerance 1e-10 / 1e-9)']
ASSUMPTIONS = ['log is strictly monotone on the floats that occur (distinct values further apart than 1e-12 relative)',
               'np.argsort may order equal keys arbitrarily (kept values compared as multisets)',
               'chi_max, chi_min are non-negative integers; degeneracy_tol enters the model as r = exp(tol)']


def _split(ctx):
    total = ctx.budget_s
    return max(20.0, 0.25 * total)


def run(ctx):
    res = core.Result()
    res.merge(c15_truncate.run(ctx))
    res.merge(c15_err.run(ctx))
    res.merge(c15_decomp.run(ctx, _split(ctx)))
    res.extra['anchor_coverage_note'] = (
        '2026-09-26, quick tier, seed 0, coverage.py --branch on tenpy/linalg/truncation.py: before the coverage round '
        '88% (261 statements, 26 missed; 86 branches, 12 partial), after 99% (0 statements missed, 1 partial branch: '
        'the for-loop of _qr_theta_Y0 can only end through its break for a nonzero theta). Newly exercised: '
        'svd_theta qtotal_LR/inner_labels/zero singular values/catastrophic-reduction diagnostic/Config options, '
        'eigh_rho UPLO/sort/catastrophic branch, decompose_theta_qr_based compute_err x return_both_T combinations, '
        'expand None/0, two-site tensors of finite/infinite/segment MPS, _eig_based_svd all need_U/need_Vd/trunc_params '
        'branches, TruncationError.copy/__repr__/default.')
    res.extra['parts'] = ['truncate (model+oracle)', 'TruncationError (model+oracle)', 'decompositions (dense oracle)']
    return res


def search(ctx, reasons):
    res = core.Result()
    res.merge(c15_truncate.search(ctx))
    res.merge(c15_err.search(ctx))
    res.merge(c15_decomp.search(ctx, 30 if ctx.quick else 300))
    return res


def replay(ctx, payload):
    res = core.Result()
    case = dict(payload.get('case', payload))
    case.pop('original', None)
    part = case.get('part')
    if part == 'truncate':
        res.merge(c15_truncate.run_cases(ctx, [case]))
    elif part == 'err':
        res.merge(c15_err.run_cases(ctx, [case]))
    elif part in c15_decomp.CHECKS:
        res.merge(c15_decomp.run_cases(ctx, [case]))
    return res
