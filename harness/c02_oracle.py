"""C02 worker helpers: structure dumps of real Arrays and the MODEL-FREE oracle (no Lean involved).

oracle_arr(a) recomputes from scratch, with python ints, everything `Array.test_sanity()` claims plus what it
does not check: pairwise distinct rows, truthful `sorted`/`bunched` leg flags, truthful `_qdata_sorted`.
"""
import numpy as np


def dump_legS(leg, io):
    from tenpy.linalg.charges import LegPipe
    return dict(leg=io.dump_leg(leg), pipe=io.dump_pipe(leg) if isinstance(leg, LegPipe) else None)


def dump_arr(a, io):
    q = np.asarray(a._qdata)
    return dict(legs=[dump_legS(l, io) for l in a.legs], qtotal=[int(x) for x in np.asarray(a.qtotal).reshape(-1)],
                qdata=[[int(x) for x in r] for r in q] if q.ndim == 2 else [],
                sorted=bool(a._qdata_sorted), ndata=len(a._data), labels=list(a._labels))


def struct_of(d):
    """the part of a dump compared with the model / used for the frame check"""
    return dict(legs=d['legs'], qtotal=d['qtotal'], qdata=d['qdata'], sorted=d['sorted'])


def valid(mods, c):
    return [int(x) if m == 1 else int(x) % m for m, x in zip(mods, c)]


def lexkey(row):
    return tuple(reversed([int(x) for x in row]))


def oracle_leg(l, where):
    out = []
    mods = [int(m) for m in l.chinfo.mod]
    sl = [int(s) for s in l.slices]
    chs = [[int(x) for x in c] for c in l.charges]
    n = len(chs)
    if len(sl) != n + 1 or sl[0] != 0 or any(sl[i] > sl[i + 1] for i in range(n)):
        out.append(f'{where}: slices {sl} for {n} blocks')
    if int(l.ind_len) != sl[-1]:
        out.append(f'{where}: ind_len {l.ind_len} vs slices {sl}')
    if int(l.block_number) != n:
        out.append(f'{where}: block_number {l.block_number} vs {n}')
    for c in chs:
        if len(c) != len(mods) or valid(mods, c) != c:
            out.append(f'{where}: invalid charge {c} for mod {mods}')
            break
    if l.qconj not in (1, -1):
        out.append(f'{where}: qconj {l.qconj}')
    keys = [lexkey(c) for c in chs]
    is_sorted = all(keys[i] <= keys[i + 1] for i in range(n - 1))
    is_bunched = all(keys[i] != keys[i + 1] for i in range(n - 1))
    is_blocked = len(set(keys)) == n
    if l.sorted and not is_sorted:
        out.append(f'{where}: sorted=True but charges {chs} are not sorted')
    if l.bunched and not is_bunched:
        out.append(f'{where}: bunched=True but charges {chs} are not bunched')
    if bool(l.is_sorted()) != is_sorted:
        out.append(f'{where}: is_sorted() = {l.is_sorted()} vs recomputed {is_sorted}')
    if bool(l.is_bunched()) != is_bunched:
        out.append(f'{where}: is_bunched() = {l.is_bunched()} vs recomputed {is_bunched}')
    if bool(l.is_blocked()) != is_blocked:
        out.append(f'{where}: is_blocked() = {l.is_blocked()} vs recomputed {is_blocked}')
    return out


def oracle_pipe(p, where):
    """fusion rule of a LegPipe recomputed: every q_map row's sub-blocks fuse to the charge of its sector"""
    out = []
    mods = [int(m) for m in p.chinfo.mod]
    qm = np.asarray(p.q_map)
    if qm.ndim != 2 or qm.shape[1] != 3 + p.nlegs:
        return [f'{where}: q_map shape {qm.shape}']
    seen = set()
    for row in qm:
        row = [int(x) for x in row]
        I, sub = row[2], tuple(row[3:])
        if not (0 <= I < p.block_number) or any(not (0 <= s < l.block_number) for s, l in zip(sub, p.legs)):
            out.append(f'{where}: q_map row {row} out of range')
            break
        if sub in seen:
            out.append(f'{where}: q_map sub-indices {sub} twice')
            break
        seen.add(sub)
        tot = [sum(int(l.charges[s][k]) * int(l.qconj) for s, l in zip(sub, p.legs)) for k in range(len(mods))]
        mine = [int(p.charges[I][k]) * int(p.qconj) for k in range(len(mods))]
        if valid(mods, tot) != valid(mods, mine):
            out.append(f'{where}: q_map row {row} fuses to {valid(mods, tot)} but sector has {valid(mods, mine)}')
            break
    return out


def oracle_arr(a):
    """list of human-readable violations of C02's invariant for the real Array `a` (empty = consistent)"""
    from tenpy.linalg.charges import LegPipe
    out = []
    try:
        a.test_sanity()
    except Exception as e:
        out.append(f'test_sanity(): {type(e).__name__}: {str(e)[:160]}')
    legs = a.legs
    if len(legs) == 0:
        return out + ['rank 0']
    if tuple(a.shape) != tuple(int(l.ind_len) for l in legs) or a.rank != len(legs):
        out.append(f'shape {a.shape} vs legs {[int(l.ind_len) for l in legs]}')
    for i, l in enumerate(legs):
        if l.chinfo != a.chinfo:
            out.append(f'leg {i}: different ChargeInfo')
            return out
        out += oracle_leg(l, f'leg {i}')
        if isinstance(l, LegPipe):
            out += oracle_pipe(l, f'pipe {i}')
    mods = [int(m) for m in a.chinfo.mod]
    if np.asarray(a.qtotal).shape != (len(mods),):
        return out + [f'qtotal has shape {np.asarray(a.qtotal).shape} for {len(mods)} charges: {a.qtotal!r}']
    qt = [int(x) for x in a.qtotal]
    if len(qt) != len(mods) or valid(mods, qt) != qt:
        out.append(f'qtotal {qt} invalid for mod {mods}')
    q = np.asarray(a._qdata)
    if q.ndim != 2 or q.shape != (len(a._data), len(legs)):
        out.append(f'_qdata shape {q.shape} vs {len(a._data)} blocks, rank {len(legs)}')
        return out
    rows = [tuple(int(x) for x in r) for r in q]
    if len(set(rows)) != len(rows):
        out.append(f'duplicate rows in _qdata {rows}')
    keys = [lexkey(r) for r in rows]
    if a._qdata_sorted and any(keys[i] > keys[i + 1] for i in range(len(keys) - 1)):
        out.append(f'_qdata_sorted=True but rows {rows} are not lexsorted')
    if len(a._labels) != len(legs):
        out.append(f'labels {a._labels}')
    for blk, r in zip(a._data, rows):
        if any(not (0 <= qi < int(l.block_number)) for qi, l in zip(r, legs)):
            out.append(f'row {r} out of range')
            break
        shp = tuple(int(l.slices[qi + 1] - l.slices[qi]) for qi, l in zip(r, legs))
        if tuple(blk.shape) != shp:
            out.append(f'block {r} has shape {blk.shape}, legs say {shp}')
            break
        if blk.dtype != a.dtype:
            out.append(f'block {r} dtype {blk.dtype} vs {a.dtype}')
            break
        tot = [sum(int(l.charges[qi][k]) * int(l.qconj) for qi, l in zip(r, legs)) for k in range(len(mods))]
        if valid(mods, tot) != qt:
            out.append(f'charge rule: row {r} has charge {valid(mods, tot)}, qtotal {qt}')
            break
    return out


def index_charge(leg, i):
    """charge*qconj attached to flat index i (python ints, independent of get_qindex)"""
    qf = leg.to_qflat()
    return [int(x) * int(leg.qconj) for x in qf[i]]


def leg_phys(l):
    """what a leg means physically, with python ints: block boundaries and charge*qconj of every block (mod)"""
    mods = [int(m) for m in l.chinfo.mod]
    qc = int(l.qconj)
    return ([int(s) for s in l.slices], [valid(mods, [int(x) * qc for x in c]) for c in l.charges])


def legs_same(l1, l2):
    """independent re-statement of `LegCharge.test_equal`"""
    return l1.chinfo == l2.chinfo and leg_phys(l1) == leg_phys(l2)


def legs_contractible(l1, l2):
    """independent re-statement of `LegCharge.test_contractible`"""
    if l1.chinfo != l2.chinfo:
        return False
    mods = [int(m) for m in l1.chinfo.mod]
    s1, c1 = leg_phys(l1)
    s2, c2 = leg_phys(l2)
    return s1 == s2 and [valid(mods, [-x for x in c]) for c in c1] == c2


def label_perm(self_labels, other_labels):
    """independent re-statement of `_transpose_same_labels`: axes for `other.transpose(axes)` or None"""
    if list(self_labels) == list(other_labels):
        return None
    if None in self_labels or None in other_labels:
        return None
    if set(self_labels) == set(other_labels):
        return [other_labels.index(l) for l in self_labels]
    return None


CATS = [('duplicate rows', 'duplicate-rows'), ('_qdata_sorted=True but', 'sorted-claim'), ('charge rule', 'charge-rule'),
        ('invalid for mod', 'qtotal-invalid'), ('qtotal has shape', 'qtotal-invalid'), ('_qdata shape', 'qdata-shape'),
        ('has shape', 'block-shape'), ('shape (', 'shape'), ('sorted=True but', 'leg-sorted-claim'),
        ('bunched=True but', 'leg-bunched-claim'), ('is_sorted()', 'leg-flags'), ('is_bunched()', 'leg-flags'),
        ('is_blocked()', 'leg-flags'), ('pipe ', 'pipe'), ('leg ', 'leg'), ('not C-contiguous', 'noncontiguous'),
        ('dtype', 'dtype')]


def classify(msgs):
    """stable category of WHAT is inconsistent (first match in a fixed priority order)"""
    text = ' | '.join(msgs)
    for needle, cat in CATS:
        if needle in text:
            return cat
    return 'other'
