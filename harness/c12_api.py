"""C12, part `api`: the bookkeeping methods of `Site` and the helpers around it (coverage round).

Every check is an oracle on the real code (dense matrices / documented contract); the `sort_charge` permutation is
additionally compared with the Lean model (`site` line of the driver).

  state_index / state_indices, get_op('A B C'), valid_opname, multiply_op_names, multiply_operators (names and arrays),
  get_hc_op_name of products, add_op (dense arrays given in the conserve=None order: permute_dense default / False;
  hc auto-detection; need_JW; all error branches), rename_op, remove_op, change_charge(None / permute),
  sort_charge() called explicitly on an unsorted site, charge_to_JW_signs without charge_to_JW_parity, __repr__,
  constructor argument errors, spin_half_species (9 option pairs), kron(<2 ops), GroupedSite(invalid charges / operator
  without hc / kroneckerproduct of arbitrary operators), group_sites with a remainder group, set_common_charges
  error branches and string / float charge specifications.
"""
import copy
import itertools
import warnings

import numpy as np

from vlib import core
from harness import c12_common as cc

TOL = 1e-12


def dense(site, name):
    return site.get_op(name).to_ndarray().astype(complex)


def expect_raises(res, case, sig, exc, fn, what):
    try:
        with warnings.catch_warnings():
            warnings.simplefilter('ignore')
            fn()
    except exc:
        return True
    except Exception as e:  # wrong exception class
        res.fail('property', sig, f'{what}: raised {type(e).__name__}: {e} instead of {getattr(exc, "__name__", exc)}', case)
        return False
    res.fail('property', sig, f'{what}: did not raise', case)
    return False


# ------------------------------------------------------------------------------------------------
def check_site_api(res, spec, rng, lines, pend):
    from tenpy.networks import site as S
    import tenpy.linalg.np_conserved as npc
    cls = spec['cls']
    case = {'part': 'api', 'spec': spec}
    res.note_case(case, True)
    res.count('api.cls=' + cls)
    site = cc.make_site(spec)
    names = sorted(site.opnames)
    D = {n: dense(site, n) for n in names}

    def fail(sig, detail):
        res.fail('property', f'api.{sig}', f'{cc.spec_key(spec)}: {detail}', case)

    # --- state_index / state_indices
    for lab, k in site.state_labels.items():
        if site.state_index(lab) != k:
            fail('state_index', f'state_index({lab!r}) = {site.state_index(lab)} but state_labels says {k}')
    if site.state_index(site.dim - 1) != site.dim - 1 or site.state_indices(list(site.state_labels)[:2] + [0]) != \
            [site.state_labels[l] for l in list(site.state_labels)[:2]] + [0]:
        fail('state_indices', 'integers must pass through / list variant differs')
    expect_raises(res, case, 'api.state_index.unknown', KeyError, lambda: site.state_index('no-such-state'), 'unknown label')

    # --- products of names
    for _ in range(4):
        w = [rng.choice(names) for _ in range(rng.randint(2, 4))]
        ref = D[w[0]]
        for n in w[1:]:
            ref = ref @ D[n]
        joined = site.multiply_op_names(w)
        if joined != ' '.join(w):
            fail('multiply_op_names', f'{w} -> {joined!r}')
        # products of up to 4 operators with entries up to ~Nmax^2 reach 1e4..1e5: floating-point products taken in
        # a different association order differ by ~1e-16 RELATIVE, so the bound scales with the magnitude of the product
        # (false alarm met in the thorough tier: BosonSite(Nmax=7) 'B dNdN dNdN dN', entries 3e4, difference 3.6e-12)
        ptol = TOL * max(1.0, float(np.abs(ref).max()))
        if not np.all(np.abs(dense(site, joined) - ref) <= ptol):
            fail('get_op.product', f'get_op({joined!r}) is not the matrix product')
        mixed = [site.get_op(n) if rng.random() < 0.5 else n for n in w]
        if not np.all(np.abs(site.multiply_operators(mixed).to_ndarray() - ref) <= ptol):
            fail('multiply_operators', f'{w} (names and arrays mixed) is not the matrix product')
        if not site.valid_opname(joined):
            fail('valid_opname', f'{joined!r} reported invalid')
        if all(n in site.hc_ops for n in w):
            hc = site.get_hc_op_name(joined)
            if hc != ' '.join(site.hc_ops[n] for n in reversed(w)) or not np.all(np.abs(dense(site, hc) - ref.conj().T) <= ptol):
                fail('get_hc_op_name.product', f'hc of {joined!r} is {hc!r}: not the adjoint')
        odd = sum(n in site.need_JW_string for n in w) % 2 == 1
        if site.op_needs_JW(joined) != odd:
            fail('op_needs_JW', f'{joined!r}')
    if site.multiply_op_names([]) != 'Id' or not np.all(site.multiply_operators([]).to_ndarray() == np.eye(site.dim)):
        fail('multiply.empty', 'empty product is not Id')
    if site.valid_opname('Id nope') or site.valid_opname('nope'):
        fail('valid_opname', 'unknown name reported valid')
    expect_raises(res, case, 'api.get_op.unknown', ValueError, lambda: site.get_op('nope'), "get_op('nope')")
    expect_raises(res, case, 'api.get_op.unknown', ValueError, lambda: site.get_op('Id nope'), "get_op('Id nope')")
    if getattr(site, 'charge_to_JW_parity', None) is None:
        expect_raises(res, case, 'api.charge_to_JW_signs.undefined', ValueError,
                      lambda: site.charge_to_JW_signs(site.leg.to_qflat()), 'charge_to_JW_signs without charge_to_JW_parity')
    r = repr(site)
    if type(site).__name__ not in r:
        fail('repr', r)

    # --- add_op on a copy: dense array given in the conserve=None order
    s2 = cc.make_site(spec)
    a, b = rng.choice(names), rng.choice(names)
    prod_orig = cc.unpermuted(site, a) @ cc.unpermuted(site, b)       # in the original basis order
    prod_here = D[a] @ D[b]
    ptol2 = TOL * max(1.0, float(np.abs(prod_here).max()))   # rounding of products scales with their magnitude
    try:
        s2.add_op('NewProd', prod_orig)                                # permute_dense default = used_sort_charge
        if not np.all(np.abs(dense(s2, 'NewProd') - prod_here) <= ptol2):
            fail('add_op.permute_dense', f'operator {a}·{b} added as dense array (original order) is not {a}·{b}')
        s2.add_op('NewProd2', prod_here, permute_dense=False)
        if not np.all(np.abs(dense(s2, 'NewProd2') - prod_here) <= ptol2):
            fail('add_op.permute_dense', 'permute_dense=False must take the array as it is')
        herm = np.all(np.abs(prod_here - prod_here.conj().T) <= TOL)
        if herm and s2.hc_ops.get('NewProd') != 'NewProd':
            fail('add_op.hc', 'hermitian operator not registered as its own hc')
        if not herm:
            s2.add_op('NewProdHc', s2.get_op('NewProd').conj().transpose())
            got = (s2.hc_ops.get('NewProdHc'), s2.hc_ops.get('NewProd'))
            # an operator equal to an existing one may be found first: accept any partner with the right matrix
            ok = got[0] is not None and np.all(np.abs(dense(s2, got[0]) - prod_here) <= ptol2)
            if not ok:
                fail('add_op.hc', f'adjoint pair not detected: {got}')
        s2.add_op('OddOp', s2.get_op('Id'), need_JW=True, hc='OddOp')
        if not s2.op_needs_JW('OddOp') or s2.op_needs_JW('OddOp OddOp'):
            fail('add_op.need_JW', 'need_JW flag not honoured')
        s2.test_sanity()
    except ValueError as e:
        # a product that violates charge conservation cannot be added: must be exactly that situation
        q = s2.leg.to_qflat()
        nz = np.argwhere(np.abs(prod_here) > 1e-14)
        diffs = {tuple(s2.leg.chinfo.make_valid(q[i] - q[j])) for i, j in nz}
        if len(diffs) <= 1:
            fail('add_op.rejected', f'{a}·{b}: {str(e)[:120]}')
        else:
            res.count('api.add_op.charge-violating-rejected')
    expect_raises(res, case, 'api.add_op.errors', ValueError, lambda: s2.add_op('not valid', np.eye(site.dim)), 'invalid identifier')
    expect_raises(res, case, 'api.add_op.errors', ValueError, lambda: s2.add_op('Id', np.eye(site.dim)), 'duplicate name')
    expect_raises(res, case, 'api.add_op.errors', ValueError, lambda: s2.add_op('dim', np.eye(site.dim)), 'attribute clash')
    expect_raises(res, case, 'api.add_op.errors', ValueError, lambda: s2.add_op('Wrong', np.eye(site.dim + 1)), 'wrong shape')
    if s2.leg.chinfo.qnumber > 0 and len({tuple(x) for x in s2.leg.to_qflat().tolist()}) > 1:
        bad = np.ones((site.dim, site.dim))
        expect_raises(res, case, 'api.add_op.errors', ValueError, lambda: s2.add_op('Mix', bad), 'charge-violating dense operator')

    # --- rename_op / remove_op
    s3 = cc.make_site(spec)
    pair = next(((x, y) for x, y in sorted(s3.hc_ops.items()) if x != y and x not in ('JW',)), None)
    if pair is not None:
        x, y = pair
        was_jw = x in s3.need_JW_string
        mat = dense(s3, x)
        s3.rename_op(x, x + 'New')
        ok = (x not in s3.opnames and x + 'New' in s3.opnames and s3.hc_ops.get(x + 'New') == y and s3.hc_ops.get(y) == x + 'New'
              and x not in s3.hc_ops and ((x + 'New') in s3.need_JW_string) == was_jw and x not in s3.need_JW_string
              and np.all(dense(s3, x + 'New') == mat) and not hasattr(s3, x))
        if not ok:
            fail('rename_op', f'{x}->{x}New: opnames/hc_ops/need_JW not updated consistently: hc {s3.hc_ops.get(x + "New")}, {s3.hc_ops.get(y)}')
        s3.test_sanity()
        expect_raises(res, case, 'api.rename_op.errors', ValueError, lambda: s3.rename_op(y, 'Id'), 'rename to existing name')
    selfhc = next((x for x in sorted(s3.hc_ops) if s3.hc_ops[x] == x and x not in ('Id', 'JW')), None)
    if selfhc:
        s3.rename_op(selfhc, selfhc)          # no-op
        s3.rename_op(selfhc, selfhc + 'R')
        if s3.hc_ops.get(selfhc + 'R') != selfhc + 'R' or selfhc in s3.hc_ops:
            fail('rename_op', f'self-adjoint {selfhc}: hc entry not renamed')
        s3.remove_op(selfhc + 'R')
        if selfhc + 'R' in s3.opnames or selfhc + 'R' in s3.hc_ops or hasattr(s3, selfhc + 'R'):
            fail('remove_op', f'{selfhc}R still present')
    if pair is not None:
        s3.remove_op(y)
        if y in s3.opnames or y in s3.hc_ops or (x + 'New') in s3.hc_ops or y in s3.need_JW_string:
            fail('remove_op', f'{y}: hc_ops / need_JW_string entries left behind: {s3.hc_ops.get(x + "New")}')
        expect_raises(res, case, 'api.get_hc_op_name.unknown', ValueError, lambda: s3.get_hc_op_name(x + 'New'), 'hc of an operator whose partner was removed')
        s3.test_sanity()

    # --- change_charge / sort_charge
    s4 = cc.make_site(dict(spec, sort=False)) if 'sort' in spec else cc.make_site(spec)
    before = {n: cc.unpermuted(s4, n) for n in s4.opnames}
    labels_before = {lab: int(s4.perm[k]) for lab, k in s4.state_labels.items()}
    c2 = getattr(s4, 'charge_to_JW_parity', None)
    perm_ret = s4.sort_charge()
    if sorted(int(x) for x in perm_ret) != list(range(s4.dim)):
        fail('sort_charge', f'returned {perm_ret}')
    keys = [tuple(r[::-1]) for r in s4.leg.to_qflat().tolist()]
    if keys != sorted(keys):
        fail('sort_charge', 'charges not sorted afterwards')
    for n in before:
        if not np.array_equal(cc.unpermuted(s4, n), before[n]):
            fail('sort_charge', f'operator {n} changed physically')
            break
    if {lab: int(s4.perm[k]) for lab, k in s4.state_labels.items()} != labels_before:
        fail('sort_charge', 'labels name other states')
    if c2 is not None and getattr(s4, 'charge_to_JW_parity', None) is None:
        fail('sort_charge', 'charge_to_JW_parity lost')
    if not np.array_equal(s4.sort_charge(), np.arange(s4.dim)):
        fail('sort_charge', 'second call is not the identity')
    s4.test_sanity()
    lines.append(cc.driver_line(dict(spec, sort=True)))
    pend.append(('perm', case, [int(x) for x in s4.perm]))
    # change_charge(None): trivial charges, same matrices; with a permutation: conjugated matrices
    s5 = cc.make_site(spec)
    mats = {n: dense(s5, n) for n in s5.opnames}
    p = list(range(s5.dim))
    rng.shuffle(p)
    old_perm = np.array(s5.perm)
    old_labels = dict(s5.state_labels)
    s5.change_charge(None, p)
    if s5.leg.chinfo.qnumber != 0 or hasattr(s5, 'charge_to_JW_parity'):
        fail('change_charge', 'change_charge(None) must give trivial charges and drop charge_to_JW_parity')
    for n in mats:
        if not np.all(dense(s5, n) == mats[n][np.ix_(p, p)]):
            fail('change_charge', f'{n} is not op[ix_(permute, permute)]')
            break
    if not np.array_equal(s5.perm, old_perm[p]) or any(p[s5.state_labels[l]] != k for l, k in old_labels.items()):
        fail('change_charge', 'perm / state_labels not updated with the permutation')
    s5.test_sanity()


def check_constructors(res):
    from tenpy.networks import site as S
    case = {'part': 'api-constructors'}
    res.note_case(case, False)
    bad = [lambda: S.SpinHalfSite('N'), lambda: S.SpinSite(1, 'N'), lambda: S.SpinSite(-1.), lambda: S.SpinSite(0.7),
           lambda: S.FermionSite('Sz'), lambda: S.SpinHalfFermionSite('Sz', 'Sz'), lambda: S.SpinHalfFermionSite('N', 'N'),
           lambda: S.SpinHalfHoleSite('x', None), lambda: S.SpinHalfHoleSite(None, 'x'), lambda: S.BosonSite(2, 'Sz'),
           lambda: S.BosonSite(0), lambda: S.ClockSite(1), lambda: S.ClockSite(3, 'N'), lambda: S.ClockSite(2.0),
           lambda: S.kron(S.SpinHalfSite(None).Sz), lambda: S.GroupedSite([S.SpinHalfSite(None)] * 2, charges='other'),
           lambda: S.spin_half_species(S.FermionSite, 'x', None), lambda: S.spin_half_species(S.FermionSite, None, 'x')]
    for k, fn in enumerate(bad):
        expect_raises(res, case, 'api.constructor.invalid-argument', ValueError, fn, f'invalid argument #{k}')
    # spelling variants of "no conservation" give the same site
    for mk in (lambda c: S.SpinHalfSite(c), lambda c: S.FermionSite(c), lambda c: S.BosonSite(2, c), lambda c: S.SpinSite(1., c)):
        sites = [mk(c) for c in (None, 'None', False)]
        if any(s.leg.chinfo.qnumber != 0 or s.conserve != 'None' for s in sites):
            res.fail('property', 'api.constructor.none-variants', 'None / "None" / False differ', case)


def check_spin_half_species(res, lines, pend):
    """two FermionSites for up/down with the charges of a SpinHalfFermionSite"""
    from tenpy.networks import site as S
    for cN, cS in itertools.product(['N', 'parity', None], ['Sz', 'parity', None]):
        case = {'part': 'api-species', 'consN': cN, 'consSz': cS}
        res.note_case(case, True)
        try:
            with warnings.catch_warnings():
                warnings.simplefilter('ignore')
                (up, down), names = S.spin_half_species(S.FermionSite, cN, cS)
                up.test_sanity()
                down.test_sanity()
        except Exception as e:
            res.fail('property', 'api.spin_half_species.construction', f'({cN},{cS}): {type(e).__name__}: {e}', case)
            continue
        ref = S.SpinHalfFermionSite(cN, cS)
        chinfo = up.leg.chinfo
        if names != ['up', 'down'] or up.leg.chinfo != down.leg.chinfo or list(chinfo.mod) != list(ref.leg.chinfo.mod):
            res.fail('property', 'api.spin_half_species.chinfo', f'({cN},{cS}): mod {chinfo.mod} vs {ref.leg.chinfo.mod}', case)
            continue
        labs = {(0, 0): 'empty', (1, 0): 'up', (0, 1): 'down', (1, 1): 'full'}
        for (nu, nd), lab in labs.items():
            qu = up.leg.to_qflat()[up.state_labels['full' if nu else 'empty']]
            qd = down.leg.to_qflat()[down.state_labels['full' if nd else 'empty']]
            want = ref.leg.to_qflat()[ref.state_labels[lab]]
            if not np.array_equal(chinfo.make_valid(qu + qd), want):
                res.fail('property', 'api.spin_half_species.charges',
                         f'({cN},{cS}): state {lab}: charges {qu}+{qd} but SpinHalfFermionSite has {want}', case)
        for s in (up, down):
            for n in s.opnames:
                if not np.array_equal(cc.unpermuted(s, n), S.FermionSite(None).get_op(n).to_ndarray()):
                    res.fail('property', 'api.spin_half_species.operators', f'({cN},{cS}): {n} changed', case)
            c2 = getattr(s, 'charge_to_JW_parity', None)
            if c2 is not None:
                signs = s.charge_to_JW_signs(s.leg.to_qflat())
                if not np.all(np.abs(signs - np.real(np.diag(s.JW.to_ndarray()))) <= TOL):
                    res.fail('property', 'api.spin_half_species.charge_to_JW_signs', f'({cN},{cS}): {signs}', case)
            elif cN in ('N', 'parity'):
                res.fail('property', 'api.spin_half_species.charge_to_JW_parity', f'({cN},{cS}): fermion parity is conserved '
                         f'but charge_to_JW_parity is undefined', case)


def check_grouped_extras(res, rng):
    from tenpy.networks import site as S
    case = {'part': 'api-grouped'}
    res.note_case(case, True)
    f, b = S.FermionSite(None), S.BosonSite(2, None)
    f2 = copy.copy(f)
    f2.opnames = set(f.opnames)
    f2.hc_ops = dict(f.hc_ops)
    f2.need_JW_string = set(f.need_JW_string)
    f2.add_op('NoHc', f.get_op('C') + 2 * f.get_op('N'), hc=False)      # operator without known adjoint
    g = S.GroupedSite([f2, b, f], charges='same')
    g.test_sanity()
    if 'NoHc0' in g.hc_ops:
        res.fail('property', 'api.grouped.hc-none', f'hc of NoHc0 invented: {g.hc_ops["NoHc0"]}', case)
    # kroneckerproduct of arbitrary operators, basis through the labels
    from harness.c12_grouped import basis_map, to_grouped_basis
    P = basis_map([f2, b, f], ['0', '1', '2'], g)
    for _ in range(6):
        ns = [rng.choice(sorted(s.opnames)) for s in (f2, b, f)]
        K = cc.kron_all([s.get_op(n).to_ndarray() for s, n in zip((f2, b, f), ns)])
        got = g.kroneckerproduct([s.get_op(n) for s, n in zip((f2, b, f), ns)]).to_ndarray()
        if not np.all(np.abs(got - to_grouped_basis(K, P)) <= TOL):
            res.fail('property', 'api.grouped.kroneckerproduct', f'{ns}: not the Kronecker product in the labelled basis', case)
    # group_sites with a remainder and custom labels
    sites = [S.FermionSite(None) for _ in range(5)]
    gs = S.group_sites(sites, 2, labels=['a', 'b'], charges='same')
    if [x.n_sites for x in gs] != [2, 2, 1] or 'Ca' not in gs[2].opnames or 'Cb' in gs[2].opnames or 'Cb' not in gs[0].opnames:
        res.fail('property', 'api.group_sites.remainder', f'{[x.n_sites for x in gs]}, {sorted(gs[2].opnames)}', case)
    gs3 = S.group_sites(sites, 3)
    if [x.n_sites for x in gs3] != [3, 2]:
        res.fail('property', 'api.group_sites.remainder', f'n=3: {[x.n_sites for x in gs3]}', case)


def check_scc_extras(res):
    from tenpy.networks import site as S
    case = {'part': 'api-scc'}
    res.note_case(case, True)

    def mk():
        return [S.FermionSite('N'), S.BosonSite(2, 'N'), S.SpinHalfSite('parity')]
    f = S.FermionSite('N')
    expect_raises(res, case, 'api.scc.errors', ValueError, lambda: S.set_common_charges([f, f]), 'same object twice')
    expect_raises(res, case, 'api.scc.errors', ValueError, lambda: S.set_common_charges(mk(), 'nope'), 'unknown policy')
    expect_raises(res, case, 'api.scc.errors', ValueError, lambda: S.set_common_charges(mk(), [[(1, 0, 3)]]), 'charge index out of range')
    expect_raises(res, case, 'api.scc.errors', ValueError, lambda: S.set_common_charges(mk(), [[(1, 0, 0), (1, 2, 0)]]), 'different mod')
    expect_raises(res, case, 'api.scc.errors', ValueError, lambda: S.set_common_charges(mk(), [[(0.5, 0, 0)]]), 'non-integer charges')
    # charge given by name, float factor with integer result, explicit names / mod
    sites = mk()
    with warnings.catch_warnings():
        warnings.simplefilter('ignore')
        perms = S.set_common_charges(sites, [[(1, 0, 'N'), (2.0, 1, 'N')], [(1, 2, 'parity_Sz')]], new_names=['Q', 'P'], new_mod=[1, 2])
    ok = (sites[0].leg.chinfo.names == ['Q', 'P'] and list(sites[0].leg.chinfo.mod) == [1, 2]
          and sorted(sites[1].leg.to_qflat()[:, 0].tolist()) == [0, 2, 4] and len(perms) == 3)
    for s in sites:
        s.test_sanity()
    if not ok:
        res.fail('property', 'api.scc.by-name', f'{sites[0].leg.chinfo}, {sites[1].leg.to_qflat().tolist()}', case)
    # names None stay independent under 'same'
    import tenpy.linalg.np_conserved as npc
    a, b = S.SpinHalfSite('Sz'), S.SpinHalfSite('Sz')
    for s in (a, b):
        s.change_charge(npc.LegCharge.from_qflat(npc.ChargeInfo([1], [None]), s.leg.to_qflat()[:, 0]))
    S.set_common_charges([a, b], 'same')
    if a.leg.chinfo.qnumber != 2 or not np.all(a.leg.to_qflat()[:, 1] == 0) or not np.all(b.leg.to_qflat()[:, 0] == 0):
        res.fail('property', 'site.set_common_charges.same.None-names-merged',
                 f"set_common_charges(new_charges='same') on two sites whose charge name was given as None merged the "
                 f'charges into one (documented: None-set names are considered different; ChargeInfo stores str(None)): '
                 f'{a.leg.to_qflat().tolist()}', {'part': 'api-scc-none-names'})
    # no common total fermion number -> charge_to_JW_parity cannot be guessed
    x, y = S.FermionSite('N'), S.FermionSite('N')
    S.set_common_charges([x, y], [[(1, 0, 0), (-1, 1, 0)]])
    c2 = getattr(x, 'charge_to_JW_parity', None)
    if c2 is not None:
        signs = x.charge_to_JW_signs(x.leg.to_qflat())
        if not np.all(np.abs(signs - np.real(np.diag(x.JW.to_ndarray()))) <= TOL):
            res.fail('property', 'api.scc.charge_to_JW_parity', f'guessed {c2} gives wrong signs', case)


# ------------------------------------------------------------------------------------------------
def run(ctx, use_model=True):
    res = core.Result()
    rng = ctx.sub_rng('api')
    specs = cc.all_site_specs(rng, ctx.quick)
    if ctx.quick:
        # every class x conserve option once, parameters sampled
        seen, pick = set(), []
        rng.shuffle(specs)
        for s in specs:
            k = (s['cls'], s.get('cons'), s.get('consN'), s.get('consSz'), s.get('sort', True))
            if k not in seen:
                seen.add(k)
                pick.append(s)
        specs = pick
    lines, pend = [], []
    for spec in specs:
        try:
            check_site_api(res, spec, rng, lines, pend)
        except Exception as e:
            res.fail('property', 'api.crash', f'{cc.spec_key(spec)}: {type(e).__name__}: {e}', {'part': 'api', 'spec': spec})
    check_constructors(res)
    check_spin_half_species(res, lines, pend)
    check_grouped_extras(res, rng)
    check_scc_extras(res)
    if use_model and lines:
        for (what, case, got), ans in zip(pend, core.run_driver('C12', lines)):
            res.traces_validated += 1
            if ans.get('perm') != got:
                res.fail('correspondence', 'api.sort_charge.model-vs-impl', f'impl perm {got} model {ans.get("perm")}', case)
    return res


def search(ctx):
    return run(ctx, use_model=False)
