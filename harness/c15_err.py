"""C15, part 2: `TruncationError.from_S / from_norm / __add__ / ov_err` — real class vs Lean model vs direct oracle.

Inputs are few-bit dyadic rationals, so every float operation involved is exact and results are compared with
`==` on the exact rationals.
"""
from fractions import Fraction as F

import numpy as np

from vlib import core
from harness.c15_truncate import fr, rs, pr

DY = [k / 16 for k in range(0, 17)] + [2.0 ** -k for k in range(5, 9)]


def gen(rng):
    k = rng.random()
    if k < 0.4:
        S = [rng.choice(DY) for _ in range(rng.randint(0, 6))]
        return {'part': 'err', 'op': 'from_S', 'S': S, 'norm_old': rng.choice([None, None, 0.0, 1.0, 2.0, 0.5, 4.0])}
    if k < 0.6:
        return {'part': 'err', 'op': 'from_norm', 'norm_new': rng.choice(DY), 'norm_old': rng.choice([1.0, 2.0, 0.5, 4.0, 0.25])}
    if k < 0.7:
        return {'part': 'err', 'op': 'copy', 'eps': rng.choice(DY) / 4, 'ov': rng.choice([1.0, 0.5, 0.75, 0.875])}
    n = rng.randint(1, 5)
    return {'part': 'err', 'op': 'add',
            'errs': [[rng.choice(DY) / 8, rng.choice([1.0, 0.5, 0.75, 0.875, 0.25])] for _ in range(n)]}


def run_impl(case):
    from tenpy.linalg.truncation import TruncationError
    if case['op'] == 'from_S':
        e = TruncationError.from_S(np.array(case['S'], dtype=float), case['norm_old'])
    elif case['op'] == 'from_norm':
        e = TruncationError.from_norm(case['norm_new'], case['norm_old'])
    elif case['op'] == 'copy':
        a = TruncationError(case['eps'], case['ov'])
        e = a.copy()
        same_type = type(e) is TruncationError and e is not a
        rep = repr(a)  # must not raise; content is not part of the property
        d = TruncationError()
        e2 = a.copy()
        e2.eps += 1.0  # a copy is independent of the original
        e2.ov = 0.0
        return {'eps': float(e.eps), 'ov': float(e.ov), 'ov_err': float(e.ov_err), 'same_type': same_type,
                'orig': [float(a.eps), float(a.ov)], 'default': [float(d.eps), float(d.ov), repr(d)], 'repr_ok': isinstance(rep, str)}
    else:
        es = [TruncationError(a, b) for a, b in case['errs']]
        e = TruncationError()
        for x in es:
            e = e + x
        # the operands are not modified
        if [[x.eps, x.ov] for x in es] != case['errs']:
            return {'mutated': True}
        # grouping does not matter
        if len(es) >= 3:
            e2 = es[0] + (es[1] + es[2])
            e3 = (es[0] + es[1]) + es[2]
            if (e2.eps, e2.ov) != (e3.eps, e3.ov):
                return {'assoc': False}
    return {'eps': float(e.eps), 'ov': float(e.ov), 'ov_err': float(e.ov_err)}


def oracle(case, impl):
    if impl.get('mutated'):
        return 'err.add.mutates-operand', ''
    if impl.get('assoc') is False:
        return 'err.add.not-associative', ''
    if case['op'] == 'from_S':
        eps = sum(fr(x) ** 2 for x in case['S'])
        if case['norm_old']:
            eps /= fr(case['norm_old']) ** 2
        want = (eps, 1 - 2 * eps)
        name = 'err.from_S'
    elif case['op'] == 'from_norm':
        eps = 1 - fr(case['norm_new']) ** 2 / fr(case['norm_old']) ** 2
        want = (eps, 1 - 2 * eps)
        name = 'err.from_norm'
    elif case['op'] == 'copy':
        want = (fr(case['eps']), fr(case['ov']))
        name = 'err.copy'
        if not impl['same_type'] or not impl['repr_ok']:
            return 'err.copy.type', str(impl)
        if impl['orig'] != [case['eps'], case['ov']]:
            return 'err.copy.aliases-original', f'original became {impl["orig"]}'
        if impl['default'][:2] != [0.0, 1.0]:
            return 'err.default-not-neutral', str(impl['default'])
    else:
        eps, ov = F(0), F(1)
        for a, b in case['errs']:
            eps += fr(a)
            ov *= fr(b)
        want = (eps, ov)
        name = 'err.add'
    if F(impl['eps']) != want[0]:
        return name + '.eps', f'eps {impl["eps"]!r} expected {float(want[0])!r}'
    if F(impl['ov']) != want[1]:
        return name + '.ov', f'ov {impl["ov"]!r} expected {float(want[1])!r}'
    if F(impl['ov_err']) != 1 - want[1]:
        return name + '.ov_err', f'ov_err {impl["ov_err"]!r}'
    return None, None


def model_line(case):
    if case['op'] == 'copy':  # the model has values, not objects: a copy is the value itself = sum with nothing else
        return {'k': 'add', 'errs': [{'eps': rs(fr(case['eps'])), 'ov': rs(fr(case['ov']))}]}
    if case['op'] == 'from_S':
        return {'k': 'from_S', 'S': [rs(fr(x)) for x in case['S']],
                'norm_old': None if case['norm_old'] is None else rs(fr(case['norm_old']))}
    if case['op'] == 'from_norm':
        return {'k': 'from_norm', 'norm_new': rs(fr(case['norm_new'])), 'norm_old': rs(fr(case['norm_old']))}
    return {'k': 'add', 'errs': [{'eps': rs(fr(a)), 'ov': rs(fr(b))} for a, b in case['errs']]}


def run_cases(ctx, cases, use_model=True):
    res = core.Result()
    impls = [run_impl(c) for c in cases]
    mods = core.run_driver('C15', [model_line(c) for c in cases]) if use_model and cases else [None] * len(cases)
    for c, impl, mod in zip(cases, impls, mods):
        res.note_case(c, nontrivial=(c['op'] != 'add' or len(c['errs']) > 1))
        res.count('err.op=' + c['op'])
        sig, detail = oracle(c, impl)
        if sig:
            res.fail('property', sig, detail, c)
            continue
        if mod is not None:
            res.traces_validated += 1
            if 'eps' not in mod or F(impl['eps']) != pr(mod['eps']) or F(impl['ov']) != pr(mod['ov']):
                res.fail('correspondence', 'err.model-vs-impl.' + c['op'], f'model {mod} impl {impl}', c)
    return res


CORPUS = [
    {'part': 'err', 'op': 'from_S', 'S': [0.5, 0.25], 'norm_old': 2.0},
    {'part': 'err', 'op': 'from_S', 'S': [0.5, 0.25], 'norm_old': None},
    {'part': 'err', 'op': 'from_S', 'S': [], 'norm_old': 0.0},
    {'part': 'err', 'op': 'from_norm', 'norm_new': 0.75, 'norm_old': 1.0},
    {'part': 'err', 'op': 'add', 'errs': [[0.125, 0.75], [0.0625, 0.875], [0.0, 1.0]]},
    {'part': 'err', 'op': 'copy', 'eps': 0.125, 'ov': 0.75},
    {'part': 'err', 'op': 'from_norm', 'norm_new': 0.5, 'norm_old': 2.0},
]


def run(ctx):
    rng = ctx.sub_rng('err')
    return run_cases(ctx, CORPUS + [gen(rng) for _ in range(1500 if ctx.quick else 40000)])


def search(ctx):
    rng = ctx.sub_rng('err-search')
    return run_cases(ctx, CORPUS + [gen(rng) for _ in range(5000)], use_model=False)
