"""C17: generators for charge infos, legs, pipes and tensors (structured, mostly valid: unsorted legs,
repeated sectors, empty legs, Z_N charges, missing blocks) and the reflection of a saved LegCharge group
into the shape of the Lean leg model (lean/TenpyModel/C17/Legs.lean)."""
import numpy as np

from tenpy.linalg import charges as tc
from tenpy.linalg import np_conserved as npc

FORMATS = ('blocks', 'compact', 'flat')


def gen_chinfo(rng, dipolar_ok=True):
    q = rng.choice([0, 1, 1, 1, 2, 2, 3])
    mod = [rng.choice([1, 1, 2, 3]) for _ in range(q)]
    names = [rng.choice(['', 'N', 'Sz', '2*Sz', 'parity', 'ü'])[:8] for _ in range(q)]
    if dipolar_ok and q >= 2 and rng.random() < 0.3:
        # dipole charge 1 of charge 0 (dipole mod must divide charge mod; U(1) dipole only along dim 0)
        mod[1] = mod[0] if rng.random() < 0.7 else 1
        if mod[0] != 1 and mod[1] == 1:
            mod[1] = mod[0]
        try:
            return tc.DipolarChargeInfo(mod, names, [0], [1], [0])
        except ValueError:
            pass
    return tc.ChargeInfo(mod, names)


def gen_charges(rng, chinfo, n):
    rows = []
    for _ in range(n):
        rows.append([rng.randint(-2, 2) if m == 1 else rng.randrange(m) for m in chinfo.mod])
    return np.array(rows, dtype=int).reshape(n, chinfo.qnumber)


def gen_leg(rng, chinfo, style=None):
    """style: raw (unsorted, repeated sectors, maybe empty blocks), sorted, bunched, empty, single"""
    style = style or rng.choice(['raw', 'raw', 'sorted', 'bunched', 'empty', 'single', 'qflat'])
    qconj = rng.choice([1, -1])
    if style == 'empty':
        return tc.LegCharge(chinfo, [0], np.zeros((0, chinfo.qnumber), int), qconj)
    if style == 'single':
        return tc.LegCharge(chinfo, [0, rng.randint(1, 3)], gen_charges(rng, chinfo, 1), qconj)
    if style == 'qflat':
        n = rng.randint(1, 6)
        return tc.LegCharge.from_qflat(chinfo, gen_charges(rng, chinfo, n), qconj)
    n = rng.randint(1, 5)
    sizes = [rng.choice([1, 1, 2, 3]) for _ in range(n)]
    slices = np.concatenate([[0], np.cumsum(sizes)])
    leg = tc.LegCharge(chinfo, slices, gen_charges(rng, chinfo, n), qconj)
    if style == 'sorted':
        _, leg = leg.sort(bunch=False)
    elif style == 'bunched':
        _, leg = leg.sort(bunch=True)
    return leg


def negate_charges(chinfo):
    """a charge mapping compatible with fusion and duality: q -> -q"""
    def f(charges):
        return chinfo.make_valid(-charges)
    return f


def gen_pipe(rng, chinfo, derived=None):
    """`derived`: None = as constructed by LegPipe(...); 'conj'; 'outer_conj' / 'outer_conj2' (once / twice);
    'mapped' = apply_charge_mapping (q -> -q).  The derived ones keep the block order of the pipe they come from."""
    legs = [gen_leg(rng, chinfo, rng.choice(['raw', 'sorted', 'bunched', 'single'])) for _ in range(rng.randint(1, 3))]
    p = tc.LegPipe(legs, qconj=rng.choice([1, -1]), sort=rng.random() < 0.7, bunch=rng.random() < 0.7)
    return derive_pipe(p, derived)


def derive_pipe(p, derived):
    if derived == 'conj':
        return p.conj()
    if derived == 'outer_conj':
        return p.outer_conj()
    if derived == 'outer_conj2':
        return p.outer_conj().outer_conj()
    if derived == 'mapped':
        return p.apply_charge_mapping(negate_charges(p.chinfo))
    return p


def pipe_differs_from_reinit(p):
    """Predicate on the INPUT (no save/load involved): is `p` different from the pipe `LegPipe.from_hdf5` builds,
    i.e. `LegPipe(p.legs, p.qconj, sort=p.sorted, bunch=p.bunched)`?  True for most pipes returned by `outer_conj()` /
    `apply_charge_mapping()` (they keep the block order of the pipe they were derived from)."""
    import warnings
    with warnings.catch_warnings():
        warnings.simplefilter('ignore')
        try:
            q = type(p)(p.legs, p.qconj, p.sorted, p.bunched)
        except Exception:
            return True
    from harness import c17_graph as G
    # any attribute: blocks, q_map, _perm, but also the flags and the type of `legs`
    return bool(G.Compare(max_diffs=1).run(p, q))


def noncanonical_pipes(obj, limit=20000):
    """all LegPipe instances below `obj` (containers, instance attributes) with pipe_differs_from_reinit"""
    seen, todo, out, n = set(), [obj], [], 0
    scalars = (int, float, complex, str, bytes, bool, type(None), np.generic, np.ndarray, np.dtype, range, type)
    while todo and n < limit:
        x = todo.pop()
        if id(x) in seen or isinstance(x, scalars):
            continue
        seen.add(id(x))
        n += 1
        if isinstance(x, (list, tuple, set, frozenset)):
            todo += list(x)
        elif isinstance(x, dict):
            todo += list(x.values())
        else:
            if isinstance(x, tc.LegPipe) and pipe_differs_from_reinit(x):
                out.append(x)
            d = getattr(x, '__dict__', None)
            if d:
                todo += list(d.values())
    return out


def gen_array(rng, chinfo=None, legs=None):
    chinfo = chinfo or gen_chinfo(rng)
    if legs is None:
        rank = rng.choice([1, 2, 2, 3])
        legs = [gen_leg(rng, chinfo, rng.choice(['raw', 'sorted', 'bunched', 'single', 'qflat'])) for _ in range(rank)]
        if rng.random() < 0.3 and rank >= 2:
            legs[-1] = legs[0].conj()  # shared charge data
    dtype = rng.choice([np.float64, np.complex128, np.int64])
    seed = rng.randrange(2 ** 31)
    nprng = np.random.RandomState(seed)

    def func(shape):
        a = nprng.randint(-3, 4, size=shape)
        if dtype is np.complex128:
            return a + 1j * nprng.randint(-3, 4, size=shape)
        return a.astype(dtype)

    qtotal = None
    if rng.random() < 0.5 and chinfo.qnumber:
        qtotal = chinfo.make_valid(gen_charges(rng, chinfo, 1)[0])
    labels = [rng.choice(['a', 'b', 'vL', 'p*', None, '(p.q)']) for _ in legs]
    seen = set()
    for i, l in enumerate(labels):
        if l in seen:
            labels[i] = None
        seen.add(l)
    A = npc.Array.from_func(func, legs, dtype=dtype, qtotal=qtotal, labels=labels)
    if A.stored_blocks > 1 and rng.random() < 0.5:  # drop some blocks
        keep = [i for i in range(A.stored_blocks) if rng.random() < 0.6]
        A._data = [A._data[i] for i in keep]
        A._qdata = A._qdata[keep]
    if rng.random() < 0.3 and A.rank >= 2:
        A = A.combine_legs([0, 1])  # contains a LegPipe
        r = rng.random()
        if r < 0.2:
            # a tensor carrying an outer_conj'ed pipe: qconj and charges flip together, the charge rule still holds
            A.legs[0] = A.legs[0].outer_conj()
        elif r < 0.3:
            A = A.apply_charge_mapping(negate_charges(chinfo))
    return A


def leg_to_json(leg):
    return {'ind_len': int(leg.ind_len), 'block_number': int(leg.block_number),
            'slices': [int(x) for x in leg.slices], 'charges': [[int(x) for x in r] for r in leg.charges],
            'qconj': int(leg.qconj), 'sorted': bool(leg.sorted), 'bunched': bool(leg.bunched)}


def leg_group_to_json(gr):
    """What LegCharge.save_hdf5 wrote into group `gr` (attributes + datasets), in the Lean model's shape."""
    fmt = gr.attrs['format']
    fmt = fmt.decode() if isinstance(fmt, bytes) else fmt
    out = {'format': fmt, 'ind_len': int(gr.attrs['ind_len']), 'qconj': int(gr.attrs['qconj'])}

    def rows(ds):
        a = ds[...]
        return [[int(x) for x in r] for r in a.reshape(a.shape[0], -1)] if a.ndim == 2 else None

    if fmt in ('blocks', 'compact'):
        out['block_number'] = int(gr.attrs['block_number'])
        out['sorted'] = bool(gr.attrs['sorted'])
        out['bunched'] = bool(gr.attrs['bunched'])
    if fmt == 'blocks':
        out['slices'] = [int(x) for x in gr['slices'][...]]
        out['charges'] = rows(gr['charges'])
    elif fmt == 'compact':
        out['blockcharges'] = rows(gr['blockcharges'])
    elif fmt == 'flat':
        out['charges'] = rows(gr['charges'])
    return out
