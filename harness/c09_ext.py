"""C09 extension round: the loop of `MPS.permute_sites` and `MPS._term_to_ops_list` / the glue of `apply_local_term`.

Model: lean/TenpyModel/C09/ExtPermute.lean, ExtTerm.lean through the driver lean/drivers/C09ext.lean.
Real code: `permute_sites` with the calls of `swap_sites` recorded; `_term_to_ops_list` with `Site.multiply_operators`
replaced by a recorder of the name lists; `apply_local_term(canonicalize=False)` with the calls of
`apply_JW_string_left_of_virt_leg`, `set_B`, `multiply_operators` recorded.
Oracle (no model): dense site permutation with fermionic signs; dense product of the term's operators with explicit
Jordan-Wigner strings.
"""
import random
import warnings

import numpy as np

from harness import mps_common as mc

TOL = 1e-9
MIXED_FERMIONS = [(['Fermion', None], ['SHFermion', [None, None]]), (['Fermion', 'N'], ['SHFermion', ['N', None]]),
                  (['Fermion', 'parity'], ['SHFermion', ['parity', None]]), (['Fermion', 'N'], ['SHFermion', ['N', 'Sz']]),
                  (['Fermion', 'parity'], ['SHFermion', ['parity', 'Sz']]),
                  (['Fermion', 'parity'], ['SHFermion', ['parity', 'parity']])]
INF_KINDS = [['SpinHalf', None], ['Fermion', None], ['Fermion', 'parity'], ['SHFermion', [None, None]], ['Spin1', 'parity']]
PERM_MODES = ['perm', 'perm', 'perm', 'perm', 'perm', 'short', 'long', 'dup']
TERM_MODES = ['valid', 'valid', 'valid', 'valid', 'neg', 'range', 'empty', 'emptyname']


def gen_base(rng, quick):
    Lmax = 5 if quick else 6
    if rng.random() < 0.55:
        a, b = rng.choice(MIXED_FERMIONS)
        Lm = rng.randint(2, Lmax)
        k0 = rng.randint(0, 1)
        kinds = [a if (i + k0) % 2 == 0 else b for i in range(Lm)]
        if rng.random() < 0.4:
            kinds = [rng.choice([a, b]) for _ in range(Lm)]
        if int(np.prod([mc.site_dim(k) for k, _ in kinds])) > 256:
            kinds = kinds[:4]
        return dict(kind='full', seed=rng.getrandbits(31), complex=rng.random() < 0.3, sites={'kinds': kinds},
                    form=rng.choice([None, 'A', 'B', 'C']), normalize=rng.random() < 0.5, density=1.0)
    while True:
        base = mc.gen_case(rng, ['full'], Lmax=Lmax, dmax=128 if quick else 256)
        base['form'] = rng.choice([None, 'A', 'B', 'C'])
        if int(np.prod([mc.site_dim(k) for k, _ in base['sites']['kinds']])) <= (128 if quick else 256):
            return base


def gen_cases(rng, n, quick):
    cases = []
    subs = ['perm', 'term', 'lop', 'perm', 'term', 'term_inf', 'lop', 'lop_inf']
    k = 0
    while len(cases) < n:
        sub = subs[k % len(subs)]
        k += 1
        case = dict(kind='ext', sub=sub, seed=rng.getrandbits(31))
        if sub == 'perm':
            case.update(base=gen_base(rng, quick), mode=rng.choice(PERM_MODES))
        elif sub == 'term':
            case.update(base=gen_base(rng, quick), mode=rng.choice(TERM_MODES))
        elif sub == 'lop':
            base = gen_base(rng, quick)
            if rng.random() < 0.5:   # long chains of small sites: room for 4- and 5-site operators
                kk = rng.choice([['SpinHalf', None], ['SpinHalf', 'parity'], ['SpinHalf', 'Sz'], ['Fermion', 'N'],
                                 ['Fermion', None], ['Fermion', 'parity']])
                base['sites'] = {'kinds': [kk] * rng.randint(4, 7)}
            case.update(base=base, n=rng.choice([1, 2, 3, 4, 4, 5, 5]), unitary_op=rng.random() < 0.6,
                        flag=rng.choice([None, None, True, False]), renorm=rng.random() < 0.3,
                        cutoff=rng.choice([1e-13, 1e-13, 1e-12, 1e-10]))
        elif sub == 'lop_inf':
            L = rng.randint(2, 5)
            kk = rng.choice([['SpinHalf', None], ['SpinHalf', 'parity'], ['Fermion', None], ['Fermion', 'parity']])
            case.update(inf=dict(kind='inf', seed=rng.getrandbits(31), complex=rng.random() < 0.3,
                                 sites={'kinds': [kk] * L}, chi=[rng.randint(1, 2) for _ in range(L)]),
                        n=rng.choice([1, 2, 3, 4, 4, 5, 5]), flag=rng.choice([None, None, True]),
                        cutoff=rng.choice([1e-13, 1e-12]))
        else:
            L = rng.randint(1, 3)
            kk = rng.choice(INF_KINDS)
            case.update(inf=dict(kind='inf', seed=rng.getrandbits(31), complex=rng.random() < 0.3,
                                 sites={'kinds': [kk] * L}, chi=[rng.randint(1, 2) for _ in range(L)]),
                        mode=rng.choice(['valid', 'valid', 'valid', 'empty']))
        cases.append(case)
    return cases


def eval_ext(case):
    if case['sub'] == 'perm':
        return eval_perm(case)
    if case['sub'] in ('lop', 'lop_inf'):
        return eval_lop(case)
    return eval_term(case)


def eval_ext_oracle_only(case):
    ev = eval_ext(case)
    ev.pop('lines', None)
    ev.pop('compare', None)
    return ev


# ----------------------------------------------------------------------------------------------------------------
# permute_sites


def eval_perm(case):
    from harness.C09 import dense_permute, parities
    rnd = random.Random(case['seed'])
    oracle, lines, expects = [], [], []
    st = mc.build_state(case['base'])
    psi = st['psi']
    L = psi.L
    vec = mc.np_state(psi).reshape(-1).astype(complex)
    if not mc.close(vec, st['ref'].reshape(-1), 1e-8 * max(1.0, float(np.max(np.abs(vec))))):
        return dict(skip='base state does not denote its input (C07 territory)')
    sites = list(psi.sites)
    mode = case['mode']
    perm = list(range(L))
    rnd.shuffle(perm)
    if rnd.random() < 0.3 and L >= 3:
        # near-sorted permutations: the `i -= 1` branch after a swap far from the left end
        perm = list(range(L))
        a = rnd.randrange(L)
        perm.insert(rnd.randrange(L), perm.pop(a))
    given = list(perm)
    if mode == 'short':
        given = perm[:rnd.randint(0, L - 1)]
    elif mode == 'long':
        given = perm + [rnd.randrange(L + 2) for _ in range(rnd.randint(1, 2))]
    elif mode == 'dup':
        given = [rnd.randrange(L) for _ in range(L)]
    hist = ['ext=perm', 'perm-mode=' + mode, 'L=%d' % L]
    is_perm = sorted(given[:L]) == list(range(L)) and len(given) >= L
    # one basis configuration with weight, its parities: the model's sign vs the amplitude ratio of the real code
    flat = int(np.argmax(np.abs(vec)))
    dims = [s.dim for s in sites]
    cfg = list(np.unravel_index(flat, dims))
    par = [bool(parities(s)[c]) for s, c in zip(sites, cfg)]
    items = [[int(given[i]), par[i] if i < L else False] for i in range(len(given))]
    log = []
    orig_swap = psi.swap_sites

    def rec_swap(i, *a, **k):
        log.append(int(i))
        return orig_swap(i, *a, **k)

    psi.swap_sites = rec_swap
    raised = None
    try:
        with warnings.catch_warnings():
            warnings.simplefilter('ignore')
            psi.permute_sites(list(given) if rnd.random() < 0.5 else np.array(given, dtype=int))
    except IndexError:
        raised = 'IndexError'
    except Exception as e:   # anything else is not a documented refusal
        oracle.append(('C09.ext.permute_sites.raises:%s' % type(e).__name__, repr(e)[:200]))
        return dict(oracle=oracle, lines=[], nontrivial=False, hist=hist)
    finally:
        del psi.swap_sites
    lines.append({'op': 'permute', 'L': L, 'items': items})
    if raised:
        if is_perm:
            oracle.append(('C09.ext.permute_sites.refuses-valid-permutation', '%r on L=%d' % (given, L)))
        expects.append(dict(raises=raised))
    else:
        got = mc.np_state(psi).reshape(-1)
        amp_ratio = None
        if is_perm:
            new, new_sites = dense_permute(vec, sites, given[:L])
            ferm = sum(parities(s).any() for s in sites) >= 2
            scale = max(1.0, float(np.max(np.abs(new))))
            if got.shape != new.shape or not np.all(np.abs(got - new) <= 1e-8 * scale):
                oracle.append(('C09.ext.permute_sites' + ('.fermionic' if ferm else ''),
                               'perm %r: dense state differs %.3g' % (given, mc.maxerr(got, new))))
            if [repr(a) for a in psi.sites] != [repr(a) for a in new_sites]:
                oracle.append(('C09.ext.permute_sites.sites', 'site list is not the permuted one for %r' % given))
            # every swap must be needed: number of swap_sites calls = number of inversions (independent count)
            ninv = sum(1 for a in range(L) for b in range(a + 1, L) if given[a] > given[b])
            if len(log) != ninv:
                oracle.append(('C09.ext.permute_sites.swap-count', '%d swap_sites calls for %d inversions of %r' % (
                    len(log), ninv, given)))
            inv = np.argsort(given[:L])
            new_cfg = [cfg[inv[k]] for k in range(L)]
            new_dims = [dims[inv[k]] for k in range(L)]
            amp_ratio = got[int(np.ravel_multi_index(new_cfg, new_dims))] / vec[flat]
        expects.append(dict(sched=log, ratio=amp_ratio, sorted_keys=sorted(given[:L])))

    def compare(outs):
        bad = []
        for want, out in zip(expects, outs):
            if 'error' in out:
                bad.append(('C09.model.ext.permute', 'driver error ' + str(out['error'])[:200]))
            elif 'raises' in want or 'raises' in out:
                if want.get('raises') != out.get('raises'):
                    bad.append(('C09.model.ext.permute.raises', 'real %r model %r (perm %r, L=%d)' % (
                        want.get('raises'), out.get('raises'), given, L)))
            else:
                if out['sched'] != want['sched']:
                    bad.append(('C09.model.ext.permute.schedule', 'swap_sites calls %r, model %r (perm %r)' % (
                        want['sched'], out['sched'], given)))
                if out['keys'] != want['sorted_keys']:
                    bad.append(('C09.model.ext.permute.final', 'model final keys %r' % out['keys']))
                if out['inv'] != len(out['sched']) or out['sign'] != out['invsign']:
                    bad.append(('C09.model.ext.permute.theorem-instance', repr(out)[:200]))
                if want['ratio'] is not None and abs(want['ratio'] - out['sign']) > 1e-7:
                    bad.append(('C09.model.ext.permute.sign', 'amplitude ratio %r vs model sign %d (perm %r, parities %r)' % (
                        want['ratio'], out['sign'], given, par)))
        return bad

    return dict(oracle=oracle, lines=lines, compare=compare, nontrivial=bool(log) or bool(raised), hist=hist)


# ----------------------------------------------------------------------------------------------------------------
# _term_to_ops_list / apply_local_term


def _pools(site):
    plain = sorted(n for n in site.opnames if not site.op_needs_JW(n))
    jw = sorted(n for n in site.opnames if site.op_needs_JW(n))
    return plain, jw


def eval_term(case):
    from tenpy.networks.site import Site
    from harness.C08 import Dense
    rnd = random.Random(case['seed'])
    oracle, lines, expects = [], [], []
    inf = case['sub'] == 'term_inf'
    if inf:
        b = mc.build_infinite(case['inf'])
        psi = b['psi']
        w = mc.transfer_spectrum(b['dense'])[0]
        if (len(w) > 1 and abs(w[1]) > 0.9 * abs(w[0])) or abs(w[0]) < 1e-8:
            return dict(skip='inf: degenerate/zero (generator)')
        psi.canonical_form()
        vec = None
    else:
        st = mc.build_state(case['base'])
        psi = st['psi']
        vec = mc.np_state(psi).reshape(-1).astype(complex)
        if not mc.close(vec, st['ref'].reshape(-1), 1e-8 * max(1.0, float(np.max(np.abs(vec))))):
            return dict(skip='base state does not denote its input (C07 territory)')
    L = psi.L
    sites = list(psi.sites)
    mode = case['mode']
    can_jw = [getattr(s, 'charge_to_JW_parity', None) is not None for s in sites]
    off = rnd.choice([0, 0, 0, 1, -1, L, -L])
    autoJW = rnd.random() < 0.8
    jwr = rnd.choice([False, False, True, None])
    term = []
    in_range = True
    n_ent = rnd.randint(1, 4)
    for _ in range(n_ent):
        i_eff = rnd.randrange(L) if not inf else rnd.randint(-L, 2 * L)
        if mode == 'neg' and rnd.random() < 0.5:
            i_eff -= L
        if mode == 'range' and rnd.random() < 0.5:
            i_eff = rnd.choice([L, L + 1, -L - 1, 2 * L])
        if not (0 <= i_eff < L):
            in_range = False
        site = sites[i_eff % L]
        plain, jw = _pools(site)
        pool = plain + jw * 3
        name = rnd.choice(pool)
        if rnd.random() < 0.25:
            name = name + ' ' + rnd.choice(pool)
        if mode == 'emptyname' and rnd.random() < 0.5:
            name = ''
        term.append((name, i_eff - off))
    if mode == 'empty':
        term = []
    hist = ['ext=' + case['sub'], 'term-mode=' + mode, 'L=%d' % L, 'autoJW=%s' % autoJW, 'len(term)=%d' % len(term)]
    sites_jw = [sorted(s.need_JW_string) for s in sites]
    enc_term = [[nm, nm.split(), int(i)] for nm, i in term]
    # --- (a) _term_to_ops_list with the matrix product replaced by the list of names
    orig_mult = Site.multiply_operators
    Site.multiply_operators = lambda self, ops: list(ops)
    try:
        with warnings.catch_warnings():
            warnings.simplefilter('ignore')
            try:
                ops, imin, extra = psi._term_to_ops_list(list(term), autoJW, off, jwr)
                real = dict(ops=[list(o) for o in ops], imin=int(imin), extra=bool(extra))
            except (ValueError, IndexError, AssertionError) as e:
                real = dict(error=type(e).__name__)
    finally:
        Site.multiply_operators = orig_mult
    lines.append({'op': 'termops', 'sites': sites_jw, 'inf': inf, 'term': enc_term, 'autoJW': autoJW, 'off': off,
                  'jwRight': jwr})
    expects.append(('termops', real))
    # --- (b) apply_local_term(canonicalize=False) with the calls recorded
    has_empty = any(nm == '' for nm, _ in term)
    if not (has_empty and not autoJW):     # get_op('') is C10 territory
        p2 = psi.copy()
        log = dict(jw=None, steps=[], mult=[])
        orig_jw, orig_set = p2.apply_JW_string_left_of_virt_leg, p2.set_B

        def rec_jw(theta, leg, i):
            log['jw'] = int(i)
            return orig_jw(theta, leg, i)

        def rec_set(i, *a, **k):
            log['steps'].append(int(i))
            return orig_set(i, *a, **k)

        def rec_mult(self, ops_):
            log['mult'].append(list(ops_))
            return orig_mult(self, ops_)

        p2.apply_JW_string_left_of_virt_leg = rec_jw
        p2.set_B = rec_set
        Site.multiply_operators = rec_mult
        plan = None
        destroyed = False
        try:
            with warnings.catch_warnings():
                warnings.simplefilter('ignore')
                p2.apply_local_term(list(term), autoJW, off, canonicalize=False)
            plan = dict(jw=log['jw'], steps=[[i, o] for i, o in zip(log['steps'], log['mult'])])
        except (ValueError, IndexError, AssertionError) as e:
            if 'destroys state' in str(e):
                destroyed = True
                hist.append('term-destroys-state')
            else:
                plan = dict(error=type(e).__name__)
        finally:
            Site.multiply_operators = orig_mult
        if not destroyed:
            lines.append({'op': 'termplan', 'sites': sites_jw, 'inf': inf, 'canJW': can_jw, 'term': enc_term,
                          'autoJW': autoJW, 'off': off})
            expects.append(('termplan', plan))
        # independent oracle: dense product of the operators with explicit JW strings
        njw = sum(1 for nm, i in term if nm and sites[(i + off) % L].op_needs_JW(nm))
        if not inf and term and in_range and not has_empty:
            D = Dense(sites)
            opfull = np.eye(D.D)
            for nm, i in term:
                opfull = opfull @ D.op(i + off, nm, with_jw=autoJW)
            new = opfull @ vec
            if plan is not None and 'error' in plan:
                if not (autoJW and njw % 2 == 1 and not all(can_jw)):
                    oracle.append(('C09.ext.apply_local_term.refuses-valid-term',
                                   '%s for term %r off %d autoJW %s' % (plan['error'], term, off, autoJW)))
            elif destroyed:
                pass    # a site factor annihilates the stored tensor: documented refusal
            else:
                got = mc.np_state(p2).reshape(-1)
                amb = psi.chinfo.qnumber > 0 and njw % 2 == 1 and autoJW and (
                    any(np.any(B.qtotal != 0) for B in psi._B) or bool(np.any(psi._B[0].get_leg('vL').charges != 0)))
                scale = max(1.0, float(np.max(np.abs(new))))
                ok = np.all(np.abs(got - new) <= TOL * scale) or (amb and np.all(np.abs(got + new) <= TOL * scale))
                if not ok:
                    oracle.append(('C09.ext.apply_local_term' + ('.JW' if njw and autoJW else ''),
                                   'term %r off %d autoJW %s: dense state differs %.3g' % (
                                       term, off, autoJW, mc.maxerr(got, new))))
        if inf and term and not has_empty and autoJW and njw % 2 == 1 and plan is not None and 'error' not in plan:
            oracle.append(('C09.ext.apply_local_term.open-JW-string-on-infinite', 'term %r accepted' % (term,)))

    def compare(outs):
        bad = []
        for (what, want), out in zip(expects, outs):
            sig = 'C09.model.ext.' + what
            if 'error' in out and out['error'] not in ('ValueError', 'IndexError', 'AssertionError'):
                bad.append((sig, 'driver error ' + str(out['error'])[:200]))
            elif 'error' in want or 'error' in out:
                if want.get('error') != out.get('error'):
                    bad.append((sig + '.raises', 'real %r model %r (term %r off %d autoJW %s jwRight %r L=%d inf=%s)' % (
                        want.get('error', want), out.get('error', out), term, off, autoJW, jwr, L, inf)))
            elif what == 'termops':
                if (out['ops'], out['imin'], out['extra']) != (want['ops'], want['imin'], want['extra']):
                    bad.append((sig, 'real %r model %r (term %r off %d autoJW %s jwRight %r)' % (
                        want, out, term, off, autoJW, jwr)))
            else:
                if out['jw'] != want['jw'] or out['steps'] != want['steps']:
                    bad.append((sig, 'real %r model %r (term %r off %d autoJW %s)' % (want, out, term, off, autoJW)))
        return bad

    return dict(oracle=oracle, lines=lines, compare=compare, nontrivial=len(term) > 0, hist=hist)


# ----------------------------------------------------------------------------------------------------------------
# apply_local_op with operators on 1..5 sites (oracle only)


def _random_op(sites, nprng, unitary, cplx):
    """charge-conserving random operator on `sites` as (dense D x D matrix, npc Array with labels p0.. / p0*..)."""
    import scipy.linalg
    import tenpy.linalg.np_conserved as npc
    n = len(sites)
    dims = [s.dim for s in sites]
    D = int(np.prod(dims))
    chinfo = sites[0].leg.chinfo
    M = nprng.normal(size=(D, D)) + (1j * nprng.normal(size=(D, D)) if cplx else 0.0)
    if chinfo.qnumber > 0:
        q = np.zeros((D, chinfo.qnumber), dtype=int)
        idx = np.array(np.unravel_index(np.arange(D), dims)).T
        for k, st in enumerate(sites):
            q = q + st.leg.to_qflat()[idx[:, k]] * st.leg.qconj
        q = chinfo.make_valid(q)
        M = M * np.all(q[:, None, :] == q[None, :, :], axis=2)
    if unitary:
        M = scipy.linalg.expm(1j * (M + M.conj().T) if cplx else (M - M.T))
    else:
        M = M + 0.5 * np.eye(D) * np.sign(nprng.normal())
    if n == 1:
        labels = ['p', 'p*']
    else:
        labels = ['p%d' % k for k in range(n)] + ['p%d*' % k for k in range(n)]
    op = npc.Array.from_ndarray(M.reshape(dims + dims), [st.leg for st in sites] + [st.leg.conj() for st in sites],
                                labels=labels, cutoff=1e-14)
    return M, op


def _schmidt(vec, dims, b):
    m = (vec / np.linalg.norm(vec)).reshape(int(np.prod(dims[:b])), -1)
    return np.linalg.svd(m, compute_uv=False)


def _same_spectrum(a, b, tol=1e-7):
    a = np.sort(np.asarray(a).real)[::-1]
    b = np.sort(np.asarray(b).real)[::-1]
    k = max(len(a), len(b))
    a = np.concatenate([a, np.zeros(k - len(a))])
    b = np.concatenate([b, np.zeros(k - len(b))])
    return bool(np.all(np.abs(a - b) <= tol))


def eval_lop(case):
    nprng = np.random.default_rng(case['seed'])
    oracle = []
    inf = case['sub'] == 'lop_inf'
    n = case['n']
    if inf:
        b = mc.build_infinite(case['inf'])
        psi = b['psi']
        w = mc.transfer_spectrum(b['dense'])[0]
        if (len(w) > 1 and abs(w[1]) > 0.9 * abs(w[0])) or abs(w[0]) < 1e-8:
            return dict(skip='inf: degenerate/zero (generator)')
        psi.canonical_form()
        L = psi.L
        n = min(n, L)
        i = int(nprng.integers(0, L))
        sites = [psi.get_site(j) for j in range(i, i + n)]
        cplx = psi.dtype.kind == 'c' or nprng.random() < 0.3
        M, op = _random_op(sites, nprng, True, cplx)
        hist = ['ext=lop_inf', 'L=%d' % L, 'n_sites=%d' % n, 'flag=%s' % case['flag']]
        th0 = mc.np_theta(psi, i, n)
        rho0 = th0.reshape(th0.shape[0], -1, th0.shape[-1])
        rho0 = np.einsum('apb,aqb->pq', rho0, rho0.conj())
        tag = 'C09.ext.apply_local_op[infinite bc, %s]' % ('one site' if n == 1 else 'multi-site')
        try:
            with warnings.catch_warnings():
                warnings.simplefilter('ignore')
                psi.apply_local_op(i, op, unitary=case['flag'], cutoff=case['cutoff'], understood_infinite=True)
                nt = float(np.max(np.abs(psi.norm_test())))
                th1 = mc.np_theta(psi, i, n)
                p2 = psi.copy()
                p2.canonical_form()
        except Exception as e:
            oracle.append((tag + '.raises:' + type(e).__name__, repr(e)[:200]))
            return dict(oracle=oracle, lines=[], nontrivial=True, hist=hist)
        rho1 = th1.reshape(th1.shape[0], -1, th1.shape[-1])
        rho1 = np.einsum('apb,aqb->pq', rho1, rho1.conj())
        want = M @ rho0 @ M.conj().T
        if not np.all(np.abs(rho1 - want) <= 1e-8):
            oracle.append((tag + '.density-matrix', 'rho on the %d sites is not U rho U^dagger: %.3g' % (n, mc.maxerr(rho1, want))))
        if nt > 1e-7:
            oracle.append((tag + '.norm_test', 'max %.3g after a unitary on %d sites at %d (L=%d)' % (nt, n, i, L)))
        for bnd in range(L):
            if not _same_spectrum(psi.get_SL(bnd), p2.get_SL(bnd)):
                oracle.append((tag + '.singular-values', 'stored S on bond %d is not the Schmidt spectrum (n=%d, i=%d, L=%d)' % (
                    bnd, n, i, L)))
                break
        return dict(oracle=oracle, lines=[], nontrivial=True, hist=hist)
    st = mc.build_state(case['base'])
    psi = st['psi']
    L = psi.L
    vec = mc.np_state(psi).reshape(-1).astype(complex)
    if not mc.close(vec, st['ref'].reshape(-1), 1e-8 * max(1.0, float(np.max(np.abs(vec))))):
        return dict(skip='base state does not denote its input (C07 territory)')
    n = min(n, L)
    i = int(nprng.integers(0, L - n + 1))
    sites = list(psi.sites)
    dims = [s.dim for s in sites]
    cplx = psi.dtype.kind == 'c' or nprng.random() < 0.3
    is_u = bool(case['unitary_op'])
    M, op = _random_op(sites[i:i + n], nprng, is_u, cplx)
    flag = case['flag']
    if flag is True and not is_u:
        flag = None
    renorm = bool(case['renorm'])
    hist = ['ext=lop', 'L=%d' % L, 'n_sites=%d' % n, 'flag=%s' % flag, 'unitary-op=%s' % is_u, 'renormalize=%s' % renorm]
    t = vec.reshape(dims)
    Mt = M.reshape(dims[i:i + n] * 2)
    new = np.tensordot(Mt, t, axes=[list(range(n, 2 * n)), list(range(i, i + n))])
    new = np.moveaxis(new, list(range(n)), list(range(i, i + n))).reshape(-1)
    if np.linalg.norm(new) < 1e-3 * np.linalg.norm(vec):
        return dict(skip='lop: operator (nearly) annihilates the state (generator)')
    if renorm:
        new = new / np.linalg.norm(new) * np.linalg.norm(vec)
    tag = 'C09.ext.apply_local_op[%s]' % ('one site' if n == 1 else 'multi-site')
    try:
        with warnings.catch_warnings():
            warnings.simplefilter('ignore')
            psi.apply_local_op(i, op, unitary=flag, renormalize=renorm, cutoff=case['cutoff'])
            got = mc.np_state(psi).reshape(-1)
            nt = float(np.max(np.abs(psi.norm_test())))
    except Exception as e:
        oracle.append((tag + '.raises:' + type(e).__name__, repr(e)[:200]))
        return dict(oracle=oracle, lines=[], nontrivial=True, hist=hist)
    scale = max(1.0, float(np.max(np.abs(new))))
    if got.shape != new.shape or not np.all(np.abs(got - new) <= 1e-8 * scale):
        oracle.append((tag + '.state', 'dense state differs from the dense application: %.3g (n=%d, i=%d, L=%d, unitary=%r)' % (
            mc.maxerr(got, new), n, i, L, flag)))
    if nt > 1e-7:
        oracle.append((tag + '.norm_test', 'max %.3g (n=%d, i=%d, L=%d, unitary=%r)' % (nt, n, i, L, flag)))
    for bnd in range(1, L):
        if not _same_spectrum(psi.get_SL(bnd), _schmidt(new, dims, bnd)):
            oracle.append((tag + '.singular-values', 'stored S on bond %d is not the Schmidt spectrum of the dense state '
                           '(n=%d, i=%d, L=%d, unitary=%r)' % (bnd, n, i, L, flag)))
            break
    return dict(oracle=oracle, lines=[], nontrivial=True, hist=hist)
