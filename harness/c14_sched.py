"""C14 part (a): the Suzuki-Trotter tables of the real static methods vs the Lean model's expansion of the
regenerated tables, and the independent oracle (sum of time steps per parity = N_steps) on the real output."""
import math
from fractions import Fraction

from vlib import core
from harness import c14_engines as E

DOCUMENTED_ORDERS = [1, 2, 4, '4_opt']   # docstring of suzuki_trotter_decomposition


def real_tables(order, N):
    from tenpy.algorithms.tebd import TEBDEngine
    ts = TEBDEngine.suzuki_trotter_time_steps(order)
    dec = TEBDEngine.suzuki_trotter_decomposition(order, N)
    return [float(x) for x in ts], [[int(j), int(k)] for j, k in dec]


def oracle(order, N, ts, dec):
    """the property on the real output -> (signature, detail) | (None, None)"""
    if N == 0:
        if dec != []:
            return f'schedule.zero-steps.order={order}', f'N_steps=0 gives {dec[:6]}'
        return None, None
    for j, k in dec:
        if not (0 <= j < len(ts)) or k not in (0, 1):
            return f'schedule.index-out-of-range.order={order}', f'step ({j},{k}) with {len(ts)} time steps'
    for par, name in ((0, 'even'), (1, 'odd')):
        s = math.fsum(ts[j] for j, k in dec if k == par)
        if abs(s - N) > 1e-12 * (N + 1):
            return (f'schedule.time-sum.order={order}',
                    f'N_steps={N}: time steps applied to the {name} bonds sum to {s!r} (in units of dt), expected {N}')
    for a, b in zip(dec[:-1], dec[1:]):
        if a[1] == b[1]:
            return f'schedule.not-alternating.order={order}', f'N_steps={N}: consecutive steps {a}, {b} on the same parity'
    return None, None


def run(ctx, meta, use_model=True):
    """meta: what the translator found (orders, symbol values)"""
    res = core.Result()
    rng = ctx.sub_rng('sched')
    Ns = list(range(0, 13 if ctx.quick else 61)) + [rng.randint(13, 400) for _ in range(4 if ctx.quick else 40)]
    keys = list(meta.get('order_keys', []))
    for o in DOCUMENTED_ORDERS:
        if o not in keys:
            keys.append(o)
    syms = [E.fstr(Fraction(v)) for v in meta.get('symbol_values', [])]
    cases, reqs = [], []
    for order in keys:
        for N in Ns:
            case = dict(part='sched', order=order, N=N)
            try:
                ts, dec = real_tables(order, N)
            except Exception as e:
                res.note_case(case, False)
                res.fail('property', f'schedule.exception.order={order}.{type(e).__name__}', str(e)[:300], case)
                continue
            cases.append((case, ts, dec))
            reqs.append(dict(k='sched', order=str(order), N=N, syms=syms))
    mods = core.run_driver('C14', reqs) if (use_model and reqs) else [None] * len(reqs)
    for (case, ts, dec), mod in zip(cases, mods):
        order, N = case['order'], case['N']
        res.note_case(case, N >= 2)
        res.count('sched.order=%s' % order)
        sig, detail = oracle(order, N, ts, dec)
        if sig:
            if mod is not None and 'time' in mod:
                detail += f'; Lean model of the regenerated table: even/odd time = {mod["time"]}'
            res.fail('property', sig, detail, case)
        if mod is None:
            continue
        res.traces_validated += 1
        if 'error' in mod:
            if not sig:
                res.fail('correspondence', f'sched.model-error.order={order}', str(mod['error']), case)
            continue
        diff = None
        if mod['steps'] != dec:
            diff = f'decomposition differs: impl {dec[:8]}… ({len(dec)}) model {mod["steps"][:8]}… ({len(mod["steps"])})'
        elif len(mod['ts']) != len(ts) or any(abs(float(Fraction(a)) - b) > 1e-15 * max(1.0, abs(b))
                                               for a, b in zip(mod['ts'], ts)):
            diff = f'time steps differ: impl {ts} model {[float(Fraction(a)) for a in mod["ts"]]}'
        elif N >= 1 and (mod['time'] != [str(N), str(N)] or not mod['valid'] or not mod['alt']):
            diff = f'model schedule violates its own theorem: {mod["time"]} valid={mod["valid"]} alt={mod["alt"]}'
        if diff and not sig:
            res.fail('correspondence', f'sched.model-vs-impl.order={order}', diff, case)
    return res


def model_counterexamples(meta, max_N=6):
    """Used when the regenerated theorem no longer builds: small (order, N, parity) where the *model* table does
    not sum to N -- each is then replayed on the real methods by `search`."""
    syms = [E.fstr(Fraction(v)) for v in meta.get('symbol_values', [])]
    reqs = [dict(k='sched', order=str(o), N=N, syms=syms) for o in meta.get('order_keys', []) for N in range(1, max_N + 1)]
    out = []
    if not reqs:
        return out
    for rq, mod in zip(reqs, core.run_driver('C14', reqs)):
        if 'time' in mod and (mod['time'] != [str(rq['N'])] * 2 or not mod['valid'] or not mod['alt']):
            out.append((rq['order'], rq['N'], mod['time']))
    return out


def search(ctx, meta):
    """oracle only, larger range; the model-side counterexamples are replayed first"""
    res = core.Result()
    try:
        cex = model_counterexamples(meta)
    except core.DriverError:
        cex = []
    keymap = {str(k): k for k in list(meta.get('order_keys', [])) + DOCUMENTED_ORDERS}
    todo = [(keymap.get(o, o), N) for o, N, _ in cex]
    todo += [(o, N) for o in keymap.values() for N in range(0, 40)]
    seen = set()
    for order, N in todo:
        if (str(order), N) in seen:
            continue
        seen.add((str(order), N))
        case = dict(part='sched', order=order, N=N)
        try:
            ts, dec = real_tables(order, N)
        except Exception as e:
            res.note_case(case, False)
            res.fail('property', f'schedule.exception.order={order}.{type(e).__name__}', str(e)[:300], case)
            continue
        res.note_case(case, N >= 2)
        sig, detail = oracle(order, N, ts, dec)
        if sig:
            m = [c for c in cex if c[0] == str(order) and c[1] == N]
            if m:
                detail += f' (model-side counterexample of the regenerated table: even/odd time {m[0][2]})'
            res.fail('property', sig, detail, case)
    res.extra['model_counterexamples'] = [list(c) for c in cex[:10]]
    return res
