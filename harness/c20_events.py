"""EventHandler: real class vs Lean model vs independent oracle (plain Python list spec)."""
import warnings

from vlib import core


def gen_ops(rng, maxlen):
    n = rng.randint(1, maxlen)
    ops, nconn = [], 0
    for _ in range(n):
        r = rng.random()
        if r < 0.45 or nconn == 0:
            ops.append(['connect', 100 + nconn, rng.choice([-1, 0, 0, 0, 1, 2, 5, -100])])
            nconn += 1
        elif r < 0.65:
            # mostly ids that were issued (live or dead), sometimes one never issued
            lid = rng.randrange(nconn) if rng.random() < 0.85 else nconn + rng.randint(0, 2)
            ops.append(['disconnect', lid])
        elif r < 0.92:
            ops.append(['emit'])
        else:
            k = rng.randint(0, 2)
            ops.append(['emit_until', sorted(rng.sample(range(100, 100 + nconn), min(k, nconn)))])
    if not any(o[0].startswith('emit') for o in ops):
        ops.append(['emit'])
    return ops


def run_impl(ops):
    """Run on the real class. Returns (outs, listeners, counter)."""
    from tenpy.tools.events import EventHandler
    eh = EventHandler('x')
    calls = []
    stop = set()

    def make(cb):
        def f(x, tag=None):
            assert tag == cb
            calls.append(cb)
            return cb if cb in stop else None
        return f

    outs = []
    for op in ops:
        if op[0] == 'connect':
            eh.connect(make(op[1]), priority=op[2], extra_kwargs={'tag': op[1]})
            outs.append(None)
        elif op[0] == 'disconnect':
            with warnings.catch_warnings(record=True) as w:
                warnings.simplefilter('always')
                eh.disconnect(op[1])
            outs.append({'warned': len(w) > 0})
        elif op[0] == 'emit':
            del calls[:]
            r = eh.emit(0)
            assert len(r) == len(calls)
            outs.append({'called': list(calls)})
        elif op[0] == 'emit_until':
            del calls[:]
            stop.clear()
            stop.update(op[1])
            r = eh.emit_until_result(0)
            stop.clear()
            assert (r is None) == (not calls or calls[-1] not in op[1])
            outs.append({'called': list(calls)})
    lst = [[l.listener_id, l.extra_kwargs['tag'], l.priority] for l in eh.listeners]
    return outs, lst, eh._id_counter


def run_oracle(ops):
    """The property itself: exactly the connected-and-not-disconnected listeners, by descending priority, ties
    in connection order; disconnect removes exactly the named listener."""
    active = []  # (id, cb, prio) in connection order
    n = 0
    outs = []
    for op in ops:
        if op[0] == 'connect':
            active.append((n, op[1], op[2]))
            n += 1
            outs.append(None)
        elif op[0] == 'disconnect':
            had = any(a[0] == op[1] for a in active)
            active = [a for a in active if a[0] != op[1]]
            outs.append({'warned': not had})
        else:
            order = sorted(active, key=lambda a: (-a[2], a[0]))
            cbs = [a[1] for a in order]
            if op[0] == 'emit_until':
                for i, c in enumerate(cbs):
                    if c in op[1]:
                        cbs = cbs[:i + 1]
                        break
            outs.append({'called': cbs})
    return outs, sorted(list(a) for a in active), n


def nontrivial(ops):
    live, ok_emit, disc = 0, False, False
    ids = []
    n = 0
    for op in ops:
        if op[0] == 'connect':
            ids.append(n)
            n += 1
        elif op[0] == 'disconnect':
            if op[1] in ids:
                ids.remove(op[1])
                disc = True
        elif len(ids) >= 2:
            ok_emit = True
    return ok_emit and disc


def classify(ops, impl, orc):
    """Name what fails (signature) from the first differing output."""
    for i, (a, b) in enumerate(zip(impl[0], orc[0])):
        if a != b:
            kind = ops[i][0]
            if kind == 'disconnect':
                return 'events.disconnect.warning-wrong', f'step {i} {ops[i]}: impl {a} expected {b}'
            # an emit differs: is the set wrong or only the order?
            if sorted(a['called']) != sorted(b['called']):
                return 'events.emit.wrong-listener-set', f'step {i} {ops[i]}: called {a["called"]} expected {b["called"]}'
            return 'events.emit.wrong-order', f'step {i} {ops[i]}: called {a["called"]} expected {b["called"]}'
    if sorted(impl[1]) != orc[1]:
        return 'events.final.wrong-listener-set', f'final listeners {impl[1]} expected {orc[1]}'
    if impl[2] != orc[2]:
        return 'events.final.counter', f'{impl[2]} vs {orc[2]}'
    return None, None


def shrink(ops, fails):
    """Greedy removal of operations while `fails(ops)` stays true (ids renumber themselves)."""
    cur = list(ops)
    changed = True
    while changed:
        changed = False
        for i in range(len(cur)):
            cand = cur[:i] + cur[i + 1:]
            if cand and fails(cand):
                cur, changed = cand, True
                break
    return cur


def run_cases(ctx, cases, use_model=True):
    res = core.Result()
    impls = [run_impl(ops) for ops in cases]
    models = core.run_driver('C20', [{'k': 'events', 'ops': ops} for ops in cases]) if use_model else [None] * len(cases)
    for ops, impl, mod in zip(cases, impls, models):
        case = {'part': 'events', 'ops': ops}
        res.note_case(case, nontrivial(ops))
        res.count('events.len=%d' % min(len(ops), 15))
        for o in ops:
            res.count('events.op.' + o[0])
        orc = run_oracle(ops)
        sig, detail = classify(ops, impl, orc)
        if sig:
            small = shrink(ops, lambda c: classify(c, run_impl(c), run_oracle(c))[0] is not None)
            sig2, detail2 = classify(small, run_impl(small), run_oracle(small))
            res.fail('property', sig2, detail2, {'part': 'events', 'ops': small, 'original': ops})
        if mod is not None:
            res.traces_validated += 1
            mm = (mod.get('outs'), mod.get('listeners'), mod.get('counter'))
            if 'error' in mod or mm != (impl[0], impl[1], impl[2]):
                if not sig:
                    res.fail('correspondence', 'events.model-vs-impl',
                             f'model {mod} impl {impl}', case)
    return res


CORPUS = [
    # disconnecting a listener that is not the first one connected
    [['connect', 100, 0], ['connect', 101, 0], ['disconnect', 1], ['emit']],
    [['connect', 100, 0], ['connect', 101, 5], ['connect', 102, 0], ['emit'], ['disconnect', 2], ['emit'],
     ['disconnect', 2], ['emit_until', [100]]],
    [['connect', 100, 1], ['disconnect', 0], ['connect', 101, 1], ['disconnect', 0], ['emit']],
]


def run(ctx):
    rng = ctx.sub_rng('events')
    n = 400 if ctx.quick else 20000
    cases = list(CORPUS) + [gen_ops(rng, 14 if ctx.quick else 24) for _ in range(n)]
    return run_cases(ctx, cases)


def search(ctx):
    rng = ctx.sub_rng('events-search')
    cases = list(CORPUS) + [gen_ops(rng, 12) for _ in range(3000 if ctx.quick else 50000)]
    return run_cases(ctx, cases, use_model=False)
