"""API surface of tenpy/tools/{cache,thread,events}.py that the model-based streams do not reach (coverage round).

Every case is a small JSON-able dict (`part='api'`, `kind=...`, parameters) that is run on the REAL classes and judged
by an oracle written here (Python dict / list semantics, file-system facts, documented exceptions, termination
deadlines).  No Lean model is involved: these are options and entry points (open() arguments, context managers,
MutableMapping mix-ins, private storage classes, Worker life cycle, decorator/by-name/copy/re-entrant use of
EventHandler) around the core that the models describe.
"""
import os
import shutil
import tempfile
import threading
import warnings

from vlib import core

DEADLINE = 20.0


class Timeout(Exception):
    pass


def with_deadline(fn, seconds=DEADLINE):
    """run fn() in a helper thread; Timeout if it does not return (a hang must become a verdict, not a hang)"""
    box = {}

    def body():
        try:
            box['r'] = fn()
        except BaseException as e:  # noqa
            box['e'] = e
    th = threading.Thread(target=body, daemon=True)
    th.start()
    th.join(seconds)
    if th.is_alive():
        raise Timeout()
    if 'e' in box:
        raise box['e']
    return box.get('r')


class fast_timeouts:
    """`Worker` polls its queue with `timeout=1.` (so every regular exit of a worker costs up to 1 s).  Inside this
    context `tenpy.tools.thread.queue` is a copy of the real module whose `Queue` caps timeouts at 20 ms: same
    semantics (a timeout may always fire), real threads, 50x faster shutdown."""

    def __enter__(self):
        import queue as real_queue
        import types
        import tenpy.tools.thread as tt

        class Queue(real_queue.Queue):
            def get(self, block=True, timeout=None):
                return super().get(block, None if timeout is None else min(timeout, 0.02))

            def put(self, item, block=True, timeout=None):
                return super().put(item, block, None if timeout is None else min(timeout, 0.02))
        mod = types.ModuleType('queue_fast')
        mod.Queue, mod.Empty, mod.Full = Queue, real_queue.Empty, real_queue.Full
        self.tt, self.old = tt, tt.queue
        tt.queue = mod

    def __exit__(self, *a):
        self.tt.queue = self.old


def exc_of(fn):
    try:
        fn()
        return None
    except Exception as e:  # noqa
        return type(e).__name__


# =============================================================================================
# EventHandler


def named_listener(*args, **kwargs):
    """target of `connect_by_name`"""
    NAMED_CALLS.append((args, kwargs))
    return None


NAMED_CALLS = []


def gen_events_case(rng):
    n = rng.randint(2, 9)
    ops, nconn = [], 0
    for _ in range(n):
        r = rng.random()
        if r < 0.45 or nconn == 0:
            style = rng.choice(['call', 'call', 'deco', 'deco_args', 'by_name'])
            action = None
            if style != 'by_name' and rng.random() < 0.35:
                action = rng.choice([['disconnect_self'], ['disconnect', rng.randrange(nconn + 1)],
                                     ['connect', rng.choice([-1, 0, 3])]])
            ops.append(['connect', 100 + nconn, rng.choice([-1, 0, 0, 1, 2]), rng.random() < 0.5, style, action])
            nconn += 1
        elif r < 0.55:
            ops.append(['disconnect', rng.randrange(nconn + 1)])
        elif r < 0.8:
            ops.append(['emit', rng.randint(0, 2), rng.random() < 0.5])
        elif r < 0.88:
            ops.append(['emit_until', sorted(rng.sample(range(100, 100 + nconn), min(rng.randint(0, 2), nconn)))])
        elif r < 0.95:
            ops.append(['copy'])
        else:
            ops.append(['last_id'])
    ops.insert(rng.randrange(2), ['last_id'])
    ops.append(['emit', 1, True])
    return {'part': 'api', 'kind': 'events', 'ops': ops}


def run_events_case(case):
    """returns (signature, detail) of the first violated requirement or (None, None)"""
    from tenpy.tools.events import EventHandler
    eh = EventHandler('x')
    calls = []            # (cb, args, kwargs) in call order of the current emit
    stop = set()
    live = []             # oracle: dicts id, cb, prio, extra, action(one-shot)
    state = {'n': 0, 'dyn': 0}

    def make(cb, action):
        def f(*args, **kwargs):
            calls.append((cb, args, dict(kwargs)))
            if action and not f.fired and state.get('in_emit'):
                f.fired = True
                if action[0] == 'disconnect_self':
                    do_disconnect(f.lid)
                elif action[0] == 'disconnect':
                    do_disconnect(action[1])
                elif action[0] == 'connect':
                    do_connect(900 + state['dyn'], action[1], False, 'call', None)
                    state['dyn'] += 1
            return cb if cb in stop else None
        f.fired = False
        f.lid = None
        return f

    def do_connect(cb, prio, extra, style, action):
        kw = {'tag': cb} if extra else None
        lid = state['n']
        if style == 'by_name':
            eh.connect_by_name('harness.c20_api', 'named_listener', kw, prio)
            f = None
        else:
            f = make(cb, action)
            f.lid = lid
            if style == 'call':
                r = eh.connect(f, priority=prio, extra_kwargs=kw)
            elif style == 'deco':
                prio = 0
                kw = None
                r = eh.connect(f)
            else:
                r = eh.connect(priority=prio, extra_kwargs=kw)(f)
            if r is not f:
                return 'events.connect.returns-other-object'
        state['n'] += 1
        live.append(dict(id=lid, cb=cb, prio=prio, extra=kw or {}, by_name=(f is None)))
        return None

    def do_disconnect(lid):
        with warnings.catch_warnings(record=True) as w:
            warnings.simplefilter('always')
            eh.disconnect(lid)
        had = any(l['id'] == lid for l in live)
        live[:] = [l for l in live if l['id'] != lid]
        return had, len(w) > 0

    for i, op in enumerate(case['ops']):
        where = f'step {i} {op}'
        if op[0] == 'connect':
            sig = do_connect(*op[1:])
            if sig:
                return sig, where
            if eh.id_of_last_connected != state['n'] - 1:
                return 'events.id_of_last_connected.wrong', where
        elif op[0] == 'disconnect':
            had, warned = do_disconnect(op[1])
            if warned == had:
                return 'events.disconnect.warning-wrong', where
        elif op[0] == 'last_id':
            if state['n'] == 0:
                if exc_of(lambda: eh.id_of_last_connected) != 'ValueError':
                    return 'events.id_of_last_connected.no-error-before-connect', where
            elif eh.id_of_last_connected != state['n'] - 1:
                return 'events.id_of_last_connected.wrong', where
        elif op[0] == 'copy':
            cp = eh.copy()
            before = [(l.listener_id, l.priority) for l in eh.listeners]
            seen = []
            cp.connect(lambda *a, **k: seen.append(1), priority=99)
            if [(l.listener_id, l.priority) for l in eh.listeners] != before or cp._id_counter != eh._id_counter + 1 \
                    or len(cp.listeners) != len(before) + 1 or cp.arg_descr != eh.arg_descr:
                return 'events.copy.not-independent', where
        elif op[0] in ('emit', 'emit_until'):
            del calls[:]
            del NAMED_CALLS[:]
            start = sorted(live, key=lambda l: (-l['prio'], l['id']))
            if op[0] == 'emit':
                args = tuple(range(op[1]))
                kwargs = {'kw': 7} if op[2] else {}
                state['in_emit'] = True        # re-entrant actions (connect/disconnect from a listener) fire here
                try:
                    res = eh.emit(*args, **kwargs)
                finally:
                    state['in_emit'] = False
            else:
                args, kwargs = (0,), {}
                stop.clear()
                stop.update(op[1])
                res = eh.emit_until_result(*args, **kwargs)
                stop.clear()
            got = [c[0] for c in calls]
            # arguments: positional + keyword + the listener's own extra_kwargs
            extra_of = {l['cb']: l['extra'] for l in start}
            for cb, a, k in calls:
                if a != args or k != dict(kwargs, **extra_of.get(cb, {})):
                    if extra_of.get(cb) and k == kwargs:
                        return 'events.connect.decorator-drops-extra_kwargs' if any(
                            o[0] == 'connect' and o[1] == cb and o[4] == 'deco_args' for o in case['ops']) \
                            else 'events.emit.extra_kwargs-missing', f'{where}: listener {cb} got {k}'
                    return 'events.emit.wrong-arguments', f'{where}: listener {cb} got {a} {k}'
            n_named = sum(1 for l in start if l['by_name'])
            if op[0] == 'emit':
                if len(set(got)) != len(got):
                    return 'events.emit.listener-called-twice', f'{where}: {got}'
                reentrant = any(o[0] == 'connect' and o[5] and o[5][0].startswith('disconnect') for o in case['ops'])
                if len(NAMED_CALLS) != n_named:
                    return ('events.emit.listener-skipped-after-disconnect-during-emit' if reentrant else
                            'events.emit.by-name-listener-calls'), f'{where}: {len(NAMED_CALLS)} expected {n_named}'
                still = {l['cb'] for l in live}
                missing = [l['cb'] for l in start if not l['by_name'] and l['cb'] in still and l['cb'] not in got]
                if missing:
                    return ('events.emit.listener-skipped-after-disconnect-during-emit' if reentrant
                            else 'events.emit.listener-not-called'), f'{where}: called {got}, never called {missing}'
                order = [l['cb'] for l in start if l['cb'] in got]
                if [c for c in got if c in set(order)] != order:
                    return 'events.emit.wrong-order', f'{where}: called {got}, priority order {order}'
                if not isinstance(res, list) or len(res) != len(got) + len(NAMED_CALLS):
                    return 'events.emit.results-list', f'{where}: {res}'
            else:
                exp = []
                for l in start:
                    if l['by_name']:
                        continue
                    exp.append(l['cb'])
                    if l['cb'] in op[1]:
                        break
                if got != exp:
                    return 'events.emit_until_result.wrong-calls', f'{where}: called {got} expected {exp}'
                want = exp[-1] if exp and exp[-1] in op[1] else None
                if res != want:
                    return 'events.emit_until_result.wrong-result', f'{where}: {res} expected {want}'
    return None, None


# =============================================================================================
# Cache: mapping mix-ins and open() options


def mkval(n):
    return [n, 'v%d' % n]


def gen_mapping_ops(rng, n, nkeys=4):
    ops, nv = [], 0
    for _ in range(n):
        k = rng.randrange(nkeys)
        r = rng.random()
        nv += 1
        if r < 0.22:
            ops.append(['set', k, nv])
        elif r < 0.34:
            ops.append(['getitem', k])
        elif r < 0.40:
            ops.append(['get_default', k, nv])
        elif r < 0.48:
            ops.append(['del', k])
        elif r < 0.56:
            ops.append(['pop', k])
        elif r < 0.62:
            ops.append(['pop_default', k, nv])
        elif r < 0.67:
            ops.append(['popitem'])
        elif r < 0.74:
            ops.append(['setdefault', k, nv])
        elif r < 0.82:
            ops.append(['update', sorted({rng.randrange(nkeys) for _ in range(rng.randint(0, 3))}), nv])
        elif r < 0.85:
            ops.append(['clear'])
        elif r < 0.90:
            ops.append(['items'])
        elif r < 0.94:
            ops.append(['stk', sorted({rng.randrange(nkeys) for _ in range(rng.randint(0, 2))})])
        elif r < 0.97:
            ops.append(['preload', [k]])
        else:
            ops.append(['eq'])
    return ops


def run_mapping_ops(cache, ops):
    d = {}
    for i, op in enumerate(ops):
        name = op[0]
        key = 'k%d' % op[1] if len(op) > 1 and isinstance(op[1], int) else None
        where = f'step {i} {op}'
        try:
            if name == 'set':
                cache[key] = mkval(op[2])
                d[key] = mkval(op[2])
            elif name == 'getitem':
                got = exc_of(lambda: cache[key]) if key not in d else cache[key]
                if got != (d[key] if key in d else 'KeyError'):
                    return 'cache.mapping.getitem', f'{where}: {got}'
            elif name == 'get_default':
                if cache.get(key, op[2]) != d.get(key, op[2]):
                    return 'cache.mapping.get-default', where
            elif name == 'del':
                del cache[key]
                d.pop(key, None)
            elif name == 'pop':
                if key in d:
                    if cache.pop(key) != d.pop(key):
                        return 'cache.mapping.pop', where
                elif exc_of(lambda: cache.pop(key)) != 'KeyError':
                    return 'cache.mapping.pop-missing', where
            elif name == 'pop_default':
                if cache.pop(key, op[2]) != d.pop(key, op[2]):
                    return 'cache.mapping.pop-default', where
            elif name == 'popitem':
                if d:
                    k, v = cache.popitem()
                    if k not in d or d.pop(k) != v:
                        return 'cache.mapping.popitem', f'{where}: {(k, v)}'
                elif exc_of(cache.popitem) != 'KeyError':
                    return 'cache.mapping.popitem-empty', where
            elif name == 'setdefault':
                if cache.setdefault(key, mkval(op[2])) != d.setdefault(key, mkval(op[2])):
                    return 'cache.mapping.setdefault', where
            elif name == 'update':
                upd = {'k%d' % k: mkval(op[2] + k) for k in op[1]}
                cache.update(upd)
                d.update(upd)
            elif name == 'clear':
                cache.clear()
                d.clear()
            elif name == 'items':
                if sorted(cache.items()) != sorted(d.items()) or sorted(cache.keys()) != sorted(d) \
                        or sorted(map(repr, cache.values())) != sorted(map(repr, d.values())):
                    return 'cache.mapping.items', where
            elif name == 'stk':
                cache.set_short_term_keys(*['k%d' % k for k in op[1]])
            elif name == 'preload':
                cache.preload(*['k%d' % k for k in op[1]])
            elif name == 'eq':
                if not (cache == d) or (cache != d):
                    return 'cache.mapping.eq', where
            if len(cache) != len(d) or sorted(cache) != sorted(d) or any((k in cache) != (k in d) for k in
                                                                        ('k0', 'k1', 'k2', 'k3')):
                return 'cache.mapping.keys-after-' + name, f'{where}: {sorted(cache)} expected {sorted(d)}'
        except Exception as e:  # noqa
            return f'cache.mapping.{name}.raises.{type(e).__name__}', f'{where}: {e}'
    return None, d


def gen_open_case(rng):
    sc = rng.choice(['Storage', 'PickleStorage', 'Hdf5Storage'])
    return {'part': 'api', 'kind': 'open', 'storage_class': sc,
            'use_threading': sc != 'Storage' and rng.random() < 0.5,
            'delete': rng.random() < 0.6, 'explicit_path': rng.random() < 0.5,
            'max_queue_size': rng.choice([1, 2, 5]), 'how': rng.choice(['close', 'with', 'with-exception']),
            'subgroup': rng.random() < 0.3, 'sub': rng.random() < 0.4,
            'ops': gen_mapping_ops(rng, rng.randint(3, 14))}


def run_open_case(case):
    from tenpy.tools.cache import CacheFile
    sc = case['storage_class']
    tmp = tempfile.mkdtemp(prefix='verif_c20a_')
    try:
        kw = {}
        path = None
        if sc == 'PickleStorage':
            if case['explicit_path']:
                path = kw['directory'] = os.path.join(tmp, 'cachedir')
            else:
                kw['tmpdir'] = tmp
        elif sc == 'Hdf5Storage':
            if case['explicit_path']:
                path = kw['filename'] = os.path.join(tmp, 'cache.h5')
            else:
                kw['tmpdir'] = tmp
            if case['subgroup']:
                kw['subgroup'] = 'grp'
        with warnings.catch_warnings():
            warnings.simplefilter('ignore')
            cache = CacheFile.open(storage_class=sc, use_threading=case['use_threading'], delete=case['delete'],
                                   max_queue_size=case['max_queue_size'], **kw)
        storage = cache.long_term_storage
        if not bool(cache) or 'closed' in repr(storage) or 'closed' in repr(getattr(storage, 'disk_storage', storage)):
            return 'cache.open.not-open', repr(storage)
        if case['use_threading'] and storage.worker.tasks.maxsize != case['max_queue_size']:
            return 'cache.open.max_queue_size-ignored', str(storage.worker.tasks.maxsize)
        sub = None
        boom = RuntimeError('boom')
        res = [None, None]

        def body(c):
            nonlocal sub
            res[:] = run_mapping_ops(c, case['ops'])
            if res[0] is None and case['sub']:
                sub = c.create_subcache('sub')
                r2 = run_mapping_ops(sub, case['ops'][:6])
                if r2[0]:
                    res[:] = ('sub' + r2[0], r2[1])
                elif sorted(c.items()) != sorted(res[1].items()):      # the parent is untouched by the sub-cache
                    res[:] = ('cache.subcache.not-isolated', '')
        if case['how'] == 'close':
            body(cache)
            cache.close()
        else:
            try:
                with cache as c:
                    if c is not cache:
                        return 'cache.enter.returns-other-object', ''
                    body(c)
                    if case['how'] == 'with-exception':
                        raise boom
            except RuntimeError as e:
                if e is not boom:
                    raise
        if res[0]:
            return res[0], res[1]
        # closed state
        if bool(cache) or (sub is not None and bool(sub)):
            return 'cache.close.still-open', ''
        inner = getattr(storage, 'disk_storage', storage)
        if 'closed' not in repr(inner):
            return 'cache.close.repr-not-closed', repr(inner)
        if exc_of(cache.close) != 'ValueError':
            return 'cache.close.second-close-no-error', ''
        for nm, f in (('set', lambda: cache.__setitem__('q', 1)), ('sub', lambda: cache.create_subcache('zz'))):
            if exc_of(f) not in ('ValueError', 'WorkerDied'):
                return f'cache.use-after-close.{nm}', str(exc_of(f))
        if case['use_threading'] and storage.worker.worker_thread.is_alive():
            return 'cache.close.thread-alive', ''
        left = sorted(os.listdir(tmp))
        if case['delete'] or sc == 'Storage':
            if left:
                return 'cache.close.files-left-behind', str(left)
        else:
            if not left or (path and not os.path.exists(path)):
                return 'cache.close.delete-False-but-removed', str(left)
            d = res[1]
            lost = 'cache.threaded.close-drops-pending-saves' if case['use_threading'] else None
            if case['how'] == 'with-exception':
                d = None            # leaving the block with an exception: no promise about what reached the disk
            if d is not None and sc == 'PickleStorage':
                files = set()
                for root, _, fs in os.walk(tmp):
                    if os.path.basename(root) != 'sub':
                        files |= {f[:-4] for f in fs}
                if files != set(d):
                    return lost or 'cache.delete-False.files-differ-from-keys', f'{sorted(files)} vs {sorted(d)}'
            if sc == 'Hdf5Storage' and path:
                # re-open the kept file (mode 'a'); with a subgroup that exists already
                with warnings.catch_warnings():
                    warnings.simplefilter('ignore')
                    try:
                        c2 = CacheFile.open('Hdf5Storage', filename=path, mode='a', delete=True, **(
                            {'subgroup': 'grp'} if case['subgroup'] else {}))
                    except Exception as e:  # noqa
                        return ('cache.hdf5.open-existing-subgroup-raises' if case['subgroup'] else
                                'cache.hdf5.reopen-raises'), f'{type(e).__name__}: {e}'
                from tenpy.tools.hdf5_io import load_from_hdf5
                gr = c2.long_term_storage.h5gr
                for k, v in (d or {}).items():
                    if k not in gr or load_from_hdf5(gr, k) != v:
                        c2.close()
                        return lost or 'cache.hdf5.reopen-data', k
                c2['fresh'] = 1
                c2.close()
                if os.path.exists(path):
                    return 'cache.close.files-left-behind', path
        if path and sc != 'Storage' and not case['delete']:
            # the target must not exist: documented for PickleStorage ("directory to be created"), mode 'w-' for hdf5
            with warnings.catch_warnings():
                warnings.simplefilter('ignore')
                if os.path.exists(path) and exc_of(lambda: CacheFile.open(sc, **{
                        'directory' if sc == 'PickleStorage' else 'filename': path})) != 'FileExistsError':
                    return 'cache.open.existing-target-accepted', path
        return None, None
    finally:
        shutil.rmtree(tmp, ignore_errors=True)


def run_misc_cache_case(case):
    """fixed scenarios: private array storages, trivial cache, direct Storage API"""
    import numpy as np
    from tenpy.tools import cache as C
    which = case['which']
    tmp = tempfile.mkdtemp(prefix='verif_c20m_')
    try:
        if which == 'trivial':
            c = C.DictCache.trivial()
            r = run_mapping_ops(c, case['ops'])
            if r[0]:
                return r
            if not c.long_term_storage.trivial or not bool(c):
                return 'cache.trivial.flags', ''
            return None, None
        if which == 'threaded-trivial':
            from tenpy.tools.thread import Worker
            w = Worker()
            if exc_of(lambda: C.ThreadedStorage(w, C.Storage.open())) != 'ValueError':
                return 'cache.threaded.accepts-trivial-storage', ''
            return None, None
        if which == 'numpy':
            st = C._NumpyStorage.open(tmpdir=tmp)
            c = C.DictCache(st)
            d = {}
            for i, op in enumerate(case['ops']):
                k = 'k%d' % op[1]
                if op[0] == 'set':
                    d[k] = np.arange(op[2], dtype=float).reshape(-1, 1) * (1 + 1j * (op[2] % 2))
                    c[k] = d[k]
                elif op[0] == 'del':
                    del c[k]
                    d.pop(k, None)
                elif op[0] == 'getitem' and k in d:
                    a = c[k]
                    if a.dtype != d[k].dtype or a.shape != d[k].shape or not np.array_equal(a, d[k]):
                        return 'cache.numpy-storage.wrong-array', f'step {i} {op}'
                if sorted(c) != sorted(d):
                    return 'cache.numpy-storage.keys', f'step {i} {op}'
            st.close()
            return (None, None) if not os.listdir(tmp) else ('cache.close.files-left-behind', 'numpy')
        if which == 'npc':
            import tenpy.linalg.np_conserved as npc
            st = C._NpcArrayStorage.open(tmpdir=tmp)
            c = C.DictCache(st)
            d = {}
            ci = npc.ChargeInfo([2])
            leg = npc.LegCharge.from_qflat(ci, [[0], [1], [1], [0]])
            for i, op in enumerate(case['ops']):
                k = 'k%d' % op[1]
                if op[0] == 'set':
                    a = npc.Array.from_func(lambda s: np.full(s, float(op[2])), [leg, leg.conj()], labels=['a', 'b'])
                    d[k] = a
                    c[k] = a
                elif op[0] == 'del':
                    if k in d:
                        del c[k]
                        d.pop(k)
                elif op[0] == 'getitem' and k in d:
                    a = c[k]
                    if a.get_leg_labels() != ['a', 'b'] or npc.norm(a - d[k]) != 0. or a is d[k]:
                        return 'cache.npc-storage.wrong-array', f'step {i} {op}'
                    a.test_sanity()
                if sorted(c) != sorted(d):
                    return 'cache.npc-storage.keys', f'step {i} {op}'
            st.close()
            return (None, None) if not os.listdir(tmp) else ('cache.close.files-left-behind', 'npc')
        if which == 'direct':
            with warnings.catch_warnings():
                warnings.simplefilter('ignore')
                for cls, kw in ((C.Storage, {}), (C.PickleStorage, {'tmpdir': tmp}), (C.Hdf5Storage, {'tmpdir': tmp})):
                    st = cls.open(**kw)
                    with st as s2:
                        if s2 is not st:
                            return 'storage.enter.returns-other-object', cls.__name__
                        st.save('a', 5)
                        st.preload('a')
                        sub = st.subcontainer('x')
                        sub.save('a', 6)
                        if st.load('a') != 5 or sub.load('a') != 6 or not bool(st):
                            return 'storage.direct.load', cls.__name__
                        st.delete('a')
                        if cls is not C.Storage:
                            st.delete('a')      # deleting an absent key is a no-op for the disk storages
                        if cls is not C.Storage and exc_of(lambda: st.delete('never')) is not None:
                            return 'storage.delete-absent-raises', cls.__name__
                    if bool(st) or bool(sub):
                        return 'storage.exit.not-closed', cls.__name__
                    for nm in ('load', 'delete', 'preload', 'subcontainer'):
                        if exc_of(lambda: getattr(st, nm)('a')) != 'ValueError':
                            return f'storage.use-after-close.{nm}', cls.__name__
                    if exc_of(lambda: st.save('a', 1)) != 'ValueError' or exc_of(st.close) != 'ValueError':
                        return 'storage.use-after-close.save', cls.__name__
                # private array storages after close; a sub-container of a ThreadedStorage closed on its own
                for cls in (C._NumpyStorage, C._NpcArrayStorage):
                    st = cls.open(tmpdir=tmp)
                    st.close()
                    if exc_of(lambda: st.load('a')) != 'ValueError' or exc_of(lambda: st.save('a', np.zeros(2))) != 'ValueError':
                        return 'storage.use-after-close.array-storage', cls.__name__
                with fast_timeouts():
                    c = C.CacheFile.open('PickleStorage', use_threading=True, tmpdir=tmp)
                    sub = c.create_subcache('s')
                    sub['a'] = 1
                    c['a'] = 2
                    sub.long_term_storage.close()       # not the owner of the worker: only marks itself closed
                    if c['a'] != 2 or not bool(c):
                        return 'cache.threaded.sub-close-affects-parent', ''
                    sub2 = c.create_subcache('t')
                    sub2.long_term_storage.__exit__(None, None, None)
                    if c['a'] != 2 or not c.long_term_storage.worker.worker_thread.is_alive():
                        return 'cache.threaded.sub-close-affects-parent', 'exit'
                    c.close()
            return (None, None) if not os.listdir(tmp) else ('cache.close.files-left-behind', 'direct')
        raise ValueError(which)
    finally:
        shutil.rmtree(tmp, ignore_errors=True)


# =============================================================================================
# Worker life cycle (real threads, every blocking call under a deadline)


def gen_worker_case(rng):
    kind = rng.choice(['basic', 'basic', 'task-raises', 'task-raises', 'exc-in-body', 'reuse', 'not-entered',
                       'after-exit', 'unbounded'])
    return {'part': 'api', 'kind': 'worker', 'scenario': kind, 'maxsize': rng.choice([0, 1, 2, 3]),
            'ntasks': rng.randint(1, 12), 'fail_at': rng.randrange(6), 'daemon': rng.choice([None, True, False]),
            'join_every': rng.choice([0, 1, 3])}


def run_worker_case(case):
    from tenpy.tools.thread import Worker, WorkerDied
    sc, n = case['scenario'], case['ntasks']
    logging_off()

    def work(a, b=0, fail=False):
        if fail:
            raise RuntimeError('task failed')
        return a * 10 + b

    def go():
        w = Worker('verif', max_queue_size=case['maxsize'], daemon=case['daemon'])
        if w.tasks.maxsize != case['maxsize']:
            return 'worker.max_queue_size', ''
        if sc == 'not-entered':
            if exc_of(lambda: w.put_task(work, 1)) != 'ValueError' or exc_of(w.join_tasks) != 'ValueError':
                return 'worker.not-entered.no-error', ''
            return None
        results = {}
        if sc in ('basic', 'unbounded'):
            gate = threading.Event()
            with w as w2:
                if w2 is not w or not w.worker_thread.is_alive():
                    return 'worker.enter', ''
                if case['daemon'] is not None and w.worker_thread.daemon != case['daemon']:
                    return 'worker.daemon-flag', ''
                if sc == 'unbounded':
                    if case['maxsize'] != 0:
                        return None
                    w.put_task(gate.wait, 10.)          # the worker is busy: nothing is taken from the queue
                    for i in range(60):                 # ... and 60 puts must not block
                        w.put_task(work, i, b=1, return_dict=results, return_key=i)
                    gate.set()
                    w.join_tasks()
                    n_ = 60
                else:
                    for i in range(n):
                        if i % 2:
                            w.put_task(work, i, b=1, return_dict=results, return_key=i)
                        else:
                            w.put_task(work, a=i, b=1, return_dict=results, return_key=i)
                        if case['join_every'] and i % case['join_every'] == 0:
                            w.join_tasks()
                            if i not in results:
                                return 'worker.join_tasks.result-missing', str(i)
                    w.put_task(work, 99)                # no return_dict
                    w.join_tasks()
                    n_ = n
                if results != {i: i * 10 + 1 for i in range(n_)}:
                    return 'worker.results', str(results)
            if w.worker_thread.is_alive():
                return 'worker.exit.thread-alive', ''
            if exc_of(lambda: w.put_task(work, 1)) != 'WorkerDied' or exc_of(w.join_tasks) != 'WorkerDied':
                return 'worker.after-exit.no-WorkerDied', ''
            return None
        if sc == 'reuse':
            with w:
                pass
            if exc_of(w.__enter__) != 'ValueError':
                return 'worker.reuse.no-error', ''
            return None
        if sc == 'after-exit':
            w.__enter__()
            w.put_task(work, 1, return_dict=results, return_key='x')
            w.__exit__(None, None, None)
            w.__exit__(None, None, None)              # second exit: thread already dead, must not block/raise
            if w.worker_thread.is_alive():
                return 'worker.exit.thread-alive', ''
            if exc_of(lambda: w.put_task(work, 1)) != 'WorkerDied':
                return 'worker.after-exit.no-WorkerDied', ''
            return None
        if sc == 'exc-in-body':
            boom = KeyError('body')
            try:
                with w:
                    for i in range(n):
                        w.put_task(work, i, return_dict=results, return_key=i)
                    raise boom
            except KeyError as e:
                if e is not boom:
                    return 'worker.exit.swallows-or-replaces-exception', repr(e)
            else:
                return 'worker.exit.swallows-or-replaces-exception', 'none raised'
            if w.worker_thread.is_alive():
                return 'worker.exit.thread-alive', ''
            return None
        if sc == 'task-raises':
            fail_at = case['fail_at'] % n
            died = None
            with w:
                for i in range(n + 3):
                    try:
                        w.put_task(work, i, fail=(i == fail_at), return_dict=results, return_key=i)
                        if case['join_every'] and i % case['join_every'] == 0:
                            w.join_tasks()
                    except WorkerDied:
                        died = i
                        break
                if died is None and exc_of(w.join_tasks) != 'WorkerDied':
                    return 'worker.task-raises.no-WorkerDied', f'fail_at {fail_at}'
                if died is not None and died < fail_at:
                    return 'worker.task-raises.WorkerDied-too-early', f'{died} < {fail_at}'
                if any(results.get(i) != i * 10 for i in range(fail_at)) or fail_at in results:
                    return 'worker.task-raises.results', str(results)
                if exc_of(w.join_tasks) != 'WorkerDied' or exc_of(lambda: w.put_task(work, 0)) != 'WorkerDied':
                    return 'worker.task-raises.later-call-no-WorkerDied', ''
            if w.worker_thread.is_alive():
                return 'worker.exit.thread-alive', ''
            return None
        raise ValueError(sc)

    try:
        r = with_deadline(go)
    except Timeout:
        return 'worker.hang.' + sc, f'no termination within {DEADLINE} s'
    return r if r else (None, None)


def logging_off():
    import logging
    logging.getLogger('tenpy.tools.thread').disabled = True


# =============================================================================================

RUNNERS = {'events': run_events_case, 'open': run_open_case, 'misc': run_misc_cache_case, 'worker': run_worker_case}

FIXED = [
    # decorator with arguments must keep extra_kwargs
    {'part': 'api', 'kind': 'events', 'ops': [['connect', 100, 2, True, 'deco_args', None], ['emit', 1, False]]},
    # a listener that disconnects itself must not make the next one be skipped
    {'part': 'api', 'kind': 'events', 'ops': [['connect', 100, 0, False, 'call', ['disconnect_self']],
                                             ['connect', 101, 0, False, 'call', None],
                                             ['connect', 102, 0, False, 'call', None], ['emit', 0, False],
                                             ['emit', 0, False]]},
    {'part': 'api', 'kind': 'events', 'ops': [['last_id'], ['connect', 100, 0, True, 'by_name', None],
                                             ['connect', 101, 5, False, 'deco', None], ['copy'], ['emit', 2, True],
                                             ['emit_until', [101]], ['last_id']]},
    # hdf5 file kept (delete=False), re-opened with mode 'a' and an existing subgroup
    {'part': 'api', 'kind': 'open', 'storage_class': 'Hdf5Storage', 'use_threading': False, 'delete': False,
     'explicit_path': True, 'max_queue_size': 2, 'how': 'with', 'subgroup': True, 'sub': False,
     'ops': [['set', 0, 1], ['set', 1, 2], ['pop', 1]]},
    {'part': 'api', 'kind': 'open', 'storage_class': 'PickleStorage', 'use_threading': True, 'delete': False,
     'explicit_path': True, 'max_queue_size': 1, 'how': 'with-exception', 'subgroup': False, 'sub': True,
     'real_timeouts': True, 'ops': [['set', 0, 1], ['update', [1, 2], 5], ['popitem'], ['setdefault', 3, 9], ['items'], ['clear'],
             ['set', 2, 4]]},
    {'part': 'api', 'kind': 'worker', 'scenario': 'basic', 'maxsize': 1, 'ntasks': 5, 'fail_at': 0, 'daemon': None,
     'join_every': 2, 'real_timeouts': True},
    {'part': 'api', 'kind': 'misc', 'which': 'threaded-trivial'},
    {'part': 'api', 'kind': 'misc', 'which': 'direct'},
]


def run_case(case):
    core.use_repo()
    try:
        if case['kind'] in ('open', 'worker') and not case.get('real_timeouts'):
            with fast_timeouts():
                return RUNNERS[case['kind']](case)
        return RUNNERS[case['kind']](case)
    except Timeout:
        return 'api.hang.' + case['kind'], f'no termination within {DEADLINE} s'
    except Exception as e:  # noqa
        import traceback
        return f'api.{case["kind"]}.harness-or-impl-exception.{type(e).__name__}', traceback.format_exc()[-600:]


def run_cases(ctx, cases, procs=1):
    if os.environ.get('VERIF_PROCS'):      # e.g. VERIF_PROCS=1 for coverage measurements (everything in-process)
        procs = int(os.environ['VERIF_PROCS'])
    res = core.Result()
    if procs > 1 and len(cases) > 20:
        import multiprocessing
        import tenpy.tools.cache  # noqa: F401
        with multiprocessing.get_context('fork').Pool(procs) as pool:
            outs = pool.map(run_case, cases, chunksize=8)
    else:
        outs = [run_case(c) for c in cases]
    for case, (sig, detail) in zip(cases, outs):
        res.note_case(case, True)
        res.count('api.' + case['kind'] + ('.' + str(case.get('scenario') or case.get('which') or
                                                     case.get('storage_class') or '')).rstrip('.'))
        if case['kind'] == 'open':
            res.count('api.open.how=' + case['how'])
            res.count('api.open.threading=%s,delete=%s,explicit_path=%s' % (case['use_threading'], case['delete'],
                                                                           case['explicit_path']))
        if sig:
            res.fail('property', sig, detail, case)
    return res


def gen_cases(ctx, tag='api'):
    rng = ctx.sub_rng(tag)
    q = ctx.quick
    import json
    cases = list(FIXED)
    for f in sorted((core.CORPUS_DIR / 'C20').glob('*.json')):
        c = json.loads(f.read_text())
        if c.get('part') == 'api':
            cases.append(c)
    cases += [gen_events_case(rng) for _ in range(400 if q else 20000)]
    cases += [gen_open_case(rng) for _ in range(120 if q else 3000)]
    for which in ('trivial', 'numpy', 'npc'):
        for _ in range(6 if q else 200):
            cases.append({'part': 'api', 'kind': 'misc', 'which': which, 'ops': gen_mapping_ops(rng, 12) if which == 'trivial'
                          else [[rng.choice(['set', 'set', 'getitem', 'del']), rng.randrange(3), rng.randint(1, 5)]
                                for _ in range(10)]})
    cases += [gen_worker_case(rng) for _ in range(60 if q else 1500)]
    return cases


def run(ctx):
    res = run_cases(ctx, gen_cases(ctx), procs=8 if ctx.quick else 14)
    res.extra['anchor_coverage_note'] = COVERAGE_NOTE
    return res


def search(ctx):
    return run_cases(ctx, gen_cases(ctx, 'api-search'), procs=8)


COVERAGE_NOTE = ('2026-09-26, quick tier seed 0, coverage.py --branch over tenpy/tools/{cache,thread,events}.py, in-process '
                 '(VERIF_PROCS=1): before the API stream 82% (cache.py 81%, events.py 75%, thread.py 95%; 80 of 507 '
                 'statements and 20 branches missed); after 99% (cache.py 99%, events.py 100%, thread.py 100%; 0 statements, '
                 '2 branches missed: Storage.close of a non-owner, Hdf5Storage.close with the file already closed)')
