"""C14 part (b): accounting traces.  Real engines on small chains with a truncating chi_max, random splits of the
total time into run() calls; the step errors are summed independently (wrapped update_bond / svd_theta / MPO.apply) and
compared with eng.trunc_err, eng.evolved_time with start + sum N*dt; the same history is run through the Lean model.

case = {part:'acct', engine, td, model:{kind,L,bc,conserve,...}, state, chi_max, order, approximation, compression,
        start_time:[p,q], start_eps:[p,q]|None, calls:[{N, dt:[p,q], imag:bool}], inject:bool, inject_seed:int}
All times are dyadic rationals with small numerators, so the float sums of the engine are exact.
"""
import multiprocessing as mp
import random
import traceback
from fractions import Fraction

from vlib import core
from harness import c14_engines as E

REL = 1e-12


# ---------------------------------------------------------------------------------------------------------------
# running one case on the real code (worker side; returns plain data)


def call_dt(c):
    dt = c['dt'][0] / c['dt'][1]
    return -1j * dt if c.get('imag') else dt


def injector(seed):
    def inj(i):
        k = random.Random(f'{seed}:{i}').choice([0, 0, 1, 1, 2, 3, 5, 8])
        eps = k / 4096.0
        return eps, 1.0 - 2.0 * eps
    return inj


def run_case(case):
    """-> observation dict (no judgement here)"""
    E.quiet()
    try:
        return _run_case(case)
    except Exception as e:  # reported by the caller
        return dict(exception=type(e).__name__, message=str(e)[:300], tb=traceback.format_exc()[-1500:])


def _run_case(case):
    import numpy as np
    np.random.seed(case.get('inject_seed', 0) % (2 ** 31))   # RandomUnitaryEvolution draws from the global generator
    M = E.build_model(dict(case['model'], time=0.0) if case['td'] else case['model'])
    psi = E.build_state(M, case)
    if case.get('pre_steps'):
        # give the state some entanglement first (not part of the trace)
        from tenpy.algorithms import tebd
        pre = tebd.TEBDEngine(psi, M, dict(dt=0.125, N_steps=case['pre_steps'], order=2,
                                           trunc_params=dict(chi_max=case['chi_max'], svd_min=1e-14)))
        pre.run()
    c0 = case['calls'][0]
    case_f = dict(case)
    case_f['start_time'] = case['start_time'][0] / case['start_time'][1]
    case_f['start_eps'] = None if case.get('start_eps') is None else case['start_eps'][0] / case['start_eps'][1]
    opts = E.engine_options(case_f, call_dt(c0), c0['N'])
    if case['engine'] == 'RUE':
        eng = E.engine_class('RUE', False)(psi, opts)
    else:
        eng = E.engine_class(case['engine'], case['td'])(psi, M, opts)
    q0 = psi.get_total_charge().tolist()
    rec = E.Recorder(case['engine'], inject=injector(case['inject_seed']) if case.get('inject') else None)
    sweeps = []   # TDVP: len(trunc_err_list) after every sweep
    obs = dict(L=psi.L, finite=bool(psi.finite), start=_snap(eng), calls=[], charge0=q0)
    with rec.active(eng):
        if case['engine'] in ('TDVP2', 'TDVP1'):
            cls = type(eng)
            orig_sweep = cls.sweep

            def sweep(self_, *a, **k):
                r = orig_sweep(self_, *a, **k)
                sweeps.append([float(x) for x in self_.trunc_err_list])
                return r
            cls.sweep = sweep
        try:
            for c in case['calls']:
                n0, u0, i0, s0 = len(rec.errors), len(rec.updates), len(rec.inner), len(sweeps)
                if case['engine'] == 'TEBDimag':
                    # the imaginary-time path used by run_GS: calc_U(type_evo='imag') + update_imag, no run_evolution
                    eng.calc_U(case['order'], c['dt'][0] / c['dt'][1], type_evo='imag')
                    eng.update_imag(c['N'], call_canonical_form=bool(c['N'] % 2))
                else:
                    eng.options['dt'] = call_dt(c)
                    eng.options['N_steps'] = c['N']
                    eng.run()
                snap = _snap(eng)
                snap.update(errors=rec.errors[n0:], updates=rec.updates[u0:], inner=rec.inner[i0:],
                            sweeps=sweeps[s0:], norm=float(psi.norm), chi=[int(x) for x in psi.chi],
                            charge=psi.get_total_charge().tolist())
                if case['engine'] == 'ExpMPO':
                    snap['nU'] = None if eng._U_MPO is None else len(eng._U_MPO)   # None: nothing prepared yet (N_steps=0)
                obs['calls'].append(snap)
        finally:
            if case['engine'] in ('TDVP2', 'TDVP1'):
                if 'sweep' in cls.__dict__ and cls.sweep is sweep:
                    del cls.sweep
    return obs


def _snap(eng):
    t = complex(eng.evolved_time)
    return dict(time=[t.real, t.imag], eps=float(eng.trunc_err.eps), ov=float(eng.trunc_err.ov))


# ---------------------------------------------------------------------------------------------------------------
# independent oracle: the property stated directly on the observations


def close(a, b, rel=REL, abs_=1e-300):
    return abs(a - b) <= rel * max(abs(a), abs(b)) + abs_


def engine_label(case):
    return ('timedep-' if case['td'] else '') + case['engine']


def oracle(case, obs):
    """-> (signature, detail) of the first violated statement, or (None, None)"""
    lab = engine_label(case)
    t = Fraction(*case['start_time'])
    t = [t, Fraction(0)]
    eps = Fraction(*case['start_eps']) if case.get('start_eps') is not None else Fraction(0)
    ov = 1 - 2 * eps
    if [float(t[0]), float(t[1])] != obs['start']['time'] or float(eps) != obs['start']['eps']:
        return f'start-values.{lab}', f'start {obs["start"]} expected time {t} eps {eps}'
    nan_seen = False
    prev_norm = 1.0
    for k, (c, o) in enumerate(zip(case['calls'], obs['calls'])):
        # run_evolution resets psi.norm when preserve_norm (default: real dt) -- checked before anything else
        pn = case.get('preserve_norm')
        preserve = pn if pn is not None else (not c.get('imag'))
        if case['engine'] != 'TEBDimag' and preserve and o['norm'] != prev_norm:
            return (f'norm-not-preserved.{lab}', f'call {k}: psi.norm {prev_norm!r} -> {o["norm"]!r} with '
                    f'preserve_norm={pn} and dt={call_dt(c)}')
        prev_norm = o['norm']
        step = Fraction(*c['dt']) * c['N']
        if c.get('imag'):
            t[1] -= step
        else:
            t[0] += step
        if [float(t[0]), float(t[1])] != o['time']:
            return (f'evolved_time.{lab}',
                    f'call {k} (N_steps={c["N"]}, dt={call_dt(c)}): evolved_time={o["time"]} expected '
                    f'start + sum N*dt = {[float(t[0]), float(t[1])]}')
        if any(e != e for e, _ in o['errors']) or nan_seen:
            # QR-TEBD with compute_err=False hands NaN errors to the engine: the accumulated error must be NaN, too
            nan_seen = True
            if o['eps'] == o['eps'] and any(True for _ in o['errors']):
                return f'trunc_err.{lab}.nan-errors-lost', f'call {k}: errors are NaN but trunc_err.eps = {o["eps"]!r}'
            continue
        s_call = sum((Fraction(e) for e, _ in o['errors']), Fraction(0))
        before = eps
        eps += s_call
        for _, v in o['errors']:
            ov *= Fraction(v)
        exact = bool(case.get('inject'))
        ok_eps = (float(eps) == o['eps']) if exact else close(float(eps), o['eps'])
        if not ok_eps:
            added = Fraction(o['eps']) - before
            if s_call > 0 and close(float(added), 2 * float(s_call), 1e-9):
                kind = 'counted-twice'
            elif s_call > 0 and added == 0:
                kind = 'not-accumulated'
            else:
                kind = 'mismatch'
            return (f'trunc_err.{lab}.{kind}',
                    f'call {k} (N_steps={c["N"]}, dt={call_dt(c)}): {len(o["errors"])} truncations with errors summing '
                    f'to {float(s_call):.17g}; trunc_err.eps went {float(before):.17g} -> {o["eps"]:.17g} '
                    f'(expected {float(eps):.17g})')
        if not close(float(ov), o['ov'], 1e-11):
            return f'trunc_err.ov.{lab}', f'call {k}: ov={o["ov"]!r} expected product {float(ov)!r}'
        if o.get('charge') != obs.get('charge0'):
            return f'charge.{lab}', f'call {k}: total charge {o.get("charge")} was {obs.get("charge0")}'
        # the truncations inside MPO.apply (SVD / zip_up compression) sum to what apply returns
        if case['engine'] == 'ExpMPO' and case.get('compression') in ('SVD', 'zip_up') and not case.get('inject'):
            s_in = sum(Fraction(x) for x in o['inner'])
            if not close(float(s_in), float(s_call), 1e-11):
                return (f'trunc_err.MPO.apply-vs-inner-truncations.{case["compression"]}',
                        f'call {k}: MPO.apply returned errors summing to {float(s_call)!r}, the svd_theta calls '
                        f'inside gave {float(s_in)!r}')
    return None, None


# ---------------------------------------------------------------------------------------------------------------
# Lean model


def model_request(case, obs):
    if case['engine'] in ('RUE', 'TEBDimag'):
        return None   # oracle only (RandomUnitaryEvolution.evolve / TEBDEngine.update_imag are not in the Lean model)
    if any(e != e for o in obs['calls'] for e, _ in o['errors']):
        return None   # NaN errors (compute_err=False) are not rationals
    L = obs['L']
    if case['engine'] in ('TEBD', 'QRTEBD'):
        kind = dict(t='tebd', order=str(case['order']), L=L, finite=obs['finite'])
    elif case['engine'] == 'TDVP2':
        kind = dict(t='tdvp', nupd=2 * L - 3)
    elif case['engine'] == 'TDVP1':
        kind = dict(t='tdvp', nupd=2 * L - 1)
    else:
        kind = dict(t='mpo', nU=1 if case['order'] == 1 else 2)
    calls = []
    for c, o in zip(case['calls'], obs['calls']):
        dt = Fraction(*c['dt'])
        errs = o['errors']
        if case['engine'] == 'TDVP1':
            # single-site TDVP performs no truncation; what the engine adds up is trunc_err_list (all 0.0)
            errs = [(x, 1.0) for sw in o['sweeps'] for x in sw]
        calls.append(dict(N=c['N'], dt=['0', E.fstr(-dt)] if c.get('imag') else [E.fstr(dt), '0'],
                          errs=[[E.fstr(Fraction(e)), E.fstr(Fraction(v))] for e, v in errs]))
    eps = Fraction(*case['start_eps']) if case.get('start_eps') is not None else Fraction(0)
    return dict(k='acct', kind=kind, td=bool(case['td']), variant=None,
                start=dict(time=[E.fstr(Fraction(*case['start_time'])), '0'], eps=E.fstr(eps), ov=E.fstr(1 - 2 * eps)),
                calls=calls)


def compare_model(case, obs, mod):
    """-> None | description of the first difference between model and implementation"""
    if 'error' in mod:
        return 'model error: ' + str(mod['error'])
    exact = bool(case.get('inject'))
    for k, (o, m, exp, upd) in enumerate(zip(obs['calls'], mod['trace'], mod['expected'], mod['updates'])):
        n_err = len(o['errors']) if case['engine'] != 'TDVP1' else sum(len(s) for s in o['sweeps'])
        if exp != n_err or m['left'] != 0:
            return f'call {k}: model expects {exp} truncations, implementation performed {n_err}'
        if case['engine'] in ('TEBD', 'QRTEBD') and [list(u) for u in o['updates']] != upd:
            return f'call {k}: update sequence (U_idx_dt, i_bond) differs: impl {o["updates"][:12]} model {upd[:12]}'
        if case['engine'] == 'TDVP2':
            sw = [x for s in o['sweeps'] for x in s]
            if sw != [e for e, _ in o['errors']]:
                return f'call {k}: trunc_err_list differs from the eps of the svd_theta calls'
        if case['engine'] == 'ExpMPO' and o.get('nU') not in (None, 1 if case['order'] == 1 else 2):
            return f'call {k}: len(_U_MPO)={o.get("nU")}'
        mt = [float(Fraction(m['time'][0])), float(Fraction(m['time'][1]))]
        if mt != o['time']:
            return f'call {k}: evolved_time impl {o["time"]} model {mt}'
        me, mo = float(Fraction(m['eps'])), float(Fraction(m['ov']))
        if (me != o['eps']) if exact else (not close(me, o['eps'])):
            return f'call {k}: trunc_err.eps impl {o["eps"]!r} model {me!r}'
        if not close(mo, o['ov'], 1e-11):
            return f'call {k}: trunc_err.ov impl {o["ov"]!r} model {mo!r}'
    if len(mod['trace']) != len(obs['calls']):
        return 'number of calls differs'
    return None


# ---------------------------------------------------------------------------------------------------------------
# generation


DTS = [[1, 8], [1, 16], [3, 32], [1, 32], [1, 4]]


def gen_case(rng, idx, thorough=False):
    engine = E.ENGINES[idx % len(E.ENGINES)] if idx < 40 else rng.choice(E.ENGINES)
    td = rng.random() < 0.4
    L = rng.choice([4, 5, 6, 6, 7, 8] if thorough else [4, 5, 6, 6, 7])
    bc = 'finite'
    if engine in ('TEBD', 'QRTEBD'):
        kind = 'nn'
        if rng.random() < 0.15:
            bc, L = 'infinite', rng.choice([2, 4])
    else:
        kind = rng.choice(['lr', 'lr', 'nn'])
    conserve = rng.choice(['Sz', 'Sz', None])
    model = dict(kind=kind, L=L, bc=bc, conserve=conserve, J=1.0, Jz=rng.choice([0.5, 1.0, -0.75]),
                 hz=rng.choice([0.0, 0.25]), g=0.0 if conserve == 'Sz' else rng.choice([0.0, 0.5]),
                 amp=rng.choice([0.5, 1.0]) if td else 0.0, omega=rng.choice([1.0, 3.0]))
    if kind == 'lr':
        model.update(J2=rng.choice([0.3, -0.4]), J3=rng.choice([0.0, 0.2]))
    total = rng.randint(2, 9 if thorough else 6)
    calls = []
    left = total
    imag_case = rng.random() < 0.2 and engine != 'QRTEBD'
    while left > 0:
        n = rng.randint(1, left)
        left -= n
        calls.append(dict(N=n, dt=rng.choice(DTS), imag=bool(imag_case and rng.random() < 0.8)))
    if rng.random() < 0.08:
        calls.insert(rng.randrange(len(calls) + 1), dict(N=0, dt=rng.choice(DTS), imag=False))
    case = dict(part='acct', engine=engine, td=td, model=model, state=rng.choice(['neel', 'domain', 'mixed']),
                chi_max=rng.choice([2, 3, 4]), start_time=rng.choice([[0, 1], [0, 1], [3, 8], [-1, 2]]),
                start_eps=rng.choice([None, None, [1, 1024]]), calls=calls,
                inject=rng.random() < 0.35, inject_seed=rng.randrange(10 ** 6))
    r = rng.random()
    if r < 0.06:
        # RandomUnitaryEvolution (own `evolve`): oracle only
        case.update(engine='RUE', td=False, model=dict(model, kind='nn', bc='finite', L=max(L, 4)),
                    calls=[dict(c, imag=False, dt=[1, 1]) for c in calls])
        case['model'].pop('J2', None), case['model'].pop('J3', None)
        case.pop('pre_steps', None)
        return case
    if r < 0.12:
        # the imaginary-time path of run_GS (calc_U(type_evo='imag') + update_imag): oracle only
        case.update(engine='TEBDimag', td=False, order=2, model=dict(model, kind='nn', bc='finite', L=max(L, 4)),
                    calls=[dict(c, imag=True) for c in calls if c['N'] > 0] or [dict(N=1, dt=[1, 8], imag=True)])
        case['model'].pop('J2', None), case['model'].pop('J3', None)
        case.pop('pre_steps', None)
        return case
    case['preserve_norm'] = rng.choice([None, None, None, True, False])
    extra = {}
    if engine in ('TEBD', 'QRTEBD'):
        case['order'] = rng.choice([1, 2, 4, '4_opt'])
        if engine == 'QRTEBD':
            # option branches of QRBasedTEBDEngine (_expansion_rate, eig-based SVD, error not computed)
            extra['cbe_expand'] = rng.choice([0.1, 0.5, 1.0, 10.0])
            extra['cbe_min_block_increase'] = rng.choice([1, 2, 4])
            if rng.random() < 0.35:
                extra['cbe_expand_0'] = rng.choice([1.0, 2.0, 10.0])
            if rng.random() < 0.25:
                extra['use_eig_based_svd'] = True
            if rng.random() < 0.2 and not case['inject']:
                extra['compute_err'] = False
        elif rng.random() < 0.2 and bc == 'finite':
            extra['E_offset'] = [rng.choice([0.0, 0.25, -0.5]) for _ in range(L)]
    elif engine == 'ExpMPO':
        # every approximation x compression x order combination comes up in turn
        combos = [(a, c, o) for o in (2, 1) for c in ('SVD', 'zip_up', 'variational', 'variationalQR') for a in ('II', 'I')]
        case['approximation'], case['compression'], case['order'] = combos[(idx // 5) % len(combos)] if idx < 80 \
            else rng.choice(combos)
    elif engine in ('TDVP2', 'TDVP1'):
        r2 = rng.random()
        if r2 < 0.15:
            extra['lanczos_params'] = dict(N_max=20, reortho=False)
        elif r2 < 0.3:
            extra['lanczos_params'] = dict(N_max=20, hermitian=False)
        elif r2 < 0.4:
            extra['lanczos_params'] = dict(N_min=rng.choice([3, 5]), N_max=20, reortho=True, P_tol=1e-12)
        elif r2 < 0.45:
            extra['lanczos_options'] = dict(N_max=20, reortho=True)
        if rng.random() < 0.15 and engine == 'TDVP2':
            case['model']['explicit_plus_hc'] = True
    if extra:
        case['extra_options'] = extra
    if engine == 'TDVP1':
        case['pre_steps'] = 2
        case['model']['kind'] = 'nn'   # pre-evolution uses TEBD
        case['model'].pop('J2', None), case['model'].pop('J3', None)
    return case


def nontrivial(case, obs):
    """>= 2 calls (or a time-dependent engine) and at least one non-zero truncation error"""
    if 'calls' not in obs:
        return False
    nz = any(e > 0 for o in obs['calls'] for e, _ in o['errors'])
    return nz and (len(case['calls']) >= 2 or case['td'])


# defects found by this check on the tree as first examined (replayed first; see notes/C14.md)
CORPUS = [
    dict(part='acct', engine='TEBD', td=False, model=dict(kind='nn', L=4, bc='finite', conserve='Sz', Jz=0.5, hz=0.25),
         state='neel', chi_max=2, order=2, start_time=[0, 1], start_eps=None, calls=[dict(N=2, dt=[1, 8], imag=False)],
         inject=False, inject_seed=0),
    dict(part='acct', engine='ExpMPO', td=True,
         model=dict(kind='lr', L=4, bc='finite', conserve='Sz', Jz=0.5, hz=0.25, amp=0.5, omega=1.0, J2=0.3, J3=0.0),
         state='neel', chi_max=2, order=2, approximation='II', compression='SVD', start_time=[0, 1], start_eps=None,
         calls=[dict(N=2, dt=[1, 8], imag=False)], inject=False, inject_seed=0),
    dict(part='acct', engine='TDVP2', td=True,
         model=dict(kind='nn', L=4, bc='finite', conserve='Sz', Jz=0.5, hz=0.25, amp=0.5, omega=1.0),
         state='neel', chi_max=2, start_time=[0, 1], start_eps=None, calls=[dict(N=1, dt=[1, 8], imag=False),
                                                                            dict(N=2, dt=[1, 16], imag=False)],
         inject=False, inject_seed=0),
    dict(part='acct', engine='QRTEBD', td=False, model=dict(kind='nn', L=5, bc='finite', conserve=None, Jz=1.0, g=0.5),
         state='mixed', chi_max=2, order='4_opt', start_time=[3, 8], start_eps=[1, 1024],
         calls=[dict(N=1, dt=[1, 8], imag=False), dict(N=2, dt=[1, 16], imag=False)], inject=True, inject_seed=7),
]


# ---------------------------------------------------------------------------------------------------------------


def shrink(case, fails):
    """try simpler histories of the same engine/model that still fail the oracle"""
    cands = []
    for c in case['calls']:
        cands.append([dict(c, N=1)])
        cands.append([dict(c)])
    for calls in cands:
        small = dict(case, calls=calls, start_eps=None, start_time=[0, 1], inject=False)
        obs = run_case(small)
        if 'exception' not in obs:
            sig, detail = oracle(small, obs)
            if sig and fails(sig):
                return small, sig, detail
    return None


def evaluate(cases, use_model=True, pool=None, do_shrink=True):
    res = core.Result()
    if pool is not None and len(cases) > 1:
        obss = pool.map(run_case, cases, chunksize=1)
    else:
        obss = [run_case(c) for c in cases]
    reqs, idxs = [], []
    for i, (case, obs) in enumerate(zip(cases, obss)):
        if 'exception' not in obs:
            rq = model_request(case, obs)
            if rq is not None:
                reqs.append(rq)
                idxs.append(i)
    mods = {}
    if use_model and reqs:
        for i, m in zip(idxs, core.run_driver('C14', reqs)):
            mods[i] = m
    for i, (case, obs) in enumerate(zip(cases, obss)):
        res.note_case(case, nontrivial(case, obs))
        lab = engine_label(case)
        res.count('acct.engine=' + lab)
        res.count('acct.calls=%d' % len(case['calls']))
        if case['engine'] in ('TEBD', 'QRTEBD'):
            res.count('acct.tebd.order=%s' % case['order'])
        if case['engine'] == 'ExpMPO':
            res.count('acct.mpo=%s/%s/order%s' % (case['approximation'], case['compression'], case['order']))
        if any(c.get('imag') for c in case['calls']):
            res.count('acct.imaginary-steps')
        if case.get('inject'):
            res.count('acct.injected-exact-errors')
        if 'exception' in obs:
            res.fail('property', f'exception.{lab}.{obs["exception"]}',
                     f'{obs["exception"]}: {obs["message"]}\n{obs.get("tb", "")}', case)
            continue
        res.count('acct.truncations', sum(len(o['errors']) for o in obs['calls']))
        sig, detail = oracle(case, obs)
        if sig:
            small = shrink(case, lambda s: s == sig) if do_shrink else None
            if small:
                res.fail('property', small[1], small[2], dict(small[0], original=case))
            else:
                res.fail('property', sig, detail, case)
        if i in mods:
            res.traces_validated += 1
            diff = compare_model(case, obs, mods[i])
            if diff and not sig:
                res.fail('correspondence', 'acct.model-vs-impl.' + lab, diff, case)
    return res


class _NoPool:
    """in-process stand-in (C14_NO_POOL=1: used to measure line coverage of the anchored source)"""

    def map(self, f, xs, chunksize=1):
        return [f(x) for x in xs]

    def terminate(self):
        pass


def make_pool(n=8):
    import os
    if os.environ.get('C14_NO_POOL') == '1':
        return _NoPool()
    return mp.get_context('fork').Pool(n)


def run(ctx, pool=None, corpus=()):
    rng = ctx.sub_rng('acct')
    n = 80 if ctx.quick else 800
    cases = [dict(c) for c in corpus] + [dict(c) for c in CORPUS] + \
        [gen_case(rng, i, thorough=not ctx.quick) for i in range(n)]
    return evaluate(cases, use_model=True, pool=pool)


def search(ctx, pool=None):
    rng = ctx.sub_rng('acct-search')
    n = 80 if ctx.quick else 1000
    cases = [dict(c) for c in CORPUS] + [gen_case(rng, i, thorough=not ctx.quick) for i in range(n)]
    return evaluate(cases, use_model=False, pool=pool)
