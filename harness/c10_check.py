"""C10: run one case on the real code, on the Lean model and on the oracle; diff everything."""
import json
import traceback
import warnings

import numpy as np

from harness import c10_model as cm
from harness import ops_common as oc

TOL = 1e-10
LEAN_DENSE_MAX_D = 36


class TooLarge(Exception):
    """the dense matrices of this zoo case would be too large for the check"""


def real_side(case):
    """everything observable of the real model, JSON-able part under 'j', numpy part under 'np'"""
    from tenpy.networks import mpo
    from tenpy.networks.terms import MultiCouplingTerms
    from tenpy.models.model import CouplingModel
    case_eff = case
    if case.get('kind') == 'zoo':
        from harness import c10_zoo
        M, lean_calls, distinct, calls, unsupported = c10_zoo.build_zoo_model(case)
        dims = [s.dim for s in M.lat.mps_sites()]
        window = 1
        if M.lat.bc_MPS != 'finite':
            window = 3 if float(np.prod(dims)) ** 3 <= 1100 else 2
        if float(np.prod(dims)) ** window > 1300:
            raise TooLarge()
        case_eff = dict(case, calls=calls, explicit=bool(getattr(M, 'explicit_plus_hc', False)),
                        lattice={'bc_MPS': M.lat.bc_MPS}, window=window, unsupported=unsupported)
        if not isinstance(M, CouplingModel):
            return dict(M=M, lean_calls=[], distinct=distinct, j=None, infinite=M.lat.bc_MPS != 'finite',
                        N=M.lat.N_sites, case_eff=case_eff, plain=True)
    else:
        M, lean_calls, distinct = cm.build_model(case)
    lat = M.lat
    N = lat.N_sites
    infinite = lat.bc_MPS != 'finite'
    j = {}
    j['cats_onsite'] = {c: cm.onsite_entries(ot) for c, ot in M.onsite_terms.items()}
    j['cats_onsite_order'] = list(M.onsite_terms.keys())
    j['cats_coupling'] = {c: cm.ct_json(ct) for c, ct in M.coupling_terms.items()}
    j['cats_coupling_order'] = list(M.coupling_terms.keys())
    j['exp'] = cm.exp_json(M.exp_decaying_terms, N)
    ot = M.all_onsite_terms()
    ot.remove_zeros()
    ct = M.all_coupling_terms()
    ct.remove_zeros()
    edt = M.exp_decaying_terms
    j['ot'] = cm.onsite_entries(ot)
    j['ct'] = cm.ct_json(ct)
    j['tl_onsite'] = oc.termlist_json(ot.to_TermList())
    j['tl_coupling'] = oc.termlist_json(ct.to_TermList())
    j['tl_exp'] = oc.termlist_json(edt.to_TermList(cutoff=0.0)) if not infinite else None
    with warnings.catch_warnings():
        warnings.simplefilter('ignore')
        graph = mpo.MPOGraph.from_terms((ot, ct, edt), lat.mps_sites(), lat.bc_MPS,
                                        unit_cell_width=lat.mps_unit_cell_width)
    graph._set_ordered_states()
    j['edges'] = oc.edges_json(graph)
    j['states'] = [[oc.key_json(k) for k, _ in sorted(d.items(), key=lambda kv: kv[1])] for d in graph._ordered_states]
    mr = graph.max_range
    j['max_range'] = None if mr is None else ('inf' if mr == np.inf else int(mr))
    H = M.H_MPO
    j['IdL'] = [None if x is None else int(x) for x in H.IdL]
    j['IdR'] = [None if x is None else int(x) for x in H.IdR]
    j['chi'] = [int(x) for x in H.chi]
    return dict(M=M, lean_calls=lean_calls, distinct=distinct, j=j, infinite=infinite, N=N, case_eff=case_eff, plain=False)


def window_of(case):
    if case['lattice']['bc_MPS'] == 'finite':
        return 1
    return int(case.get('window', 2))


def lean_request(case, real, with_dense=True):
    M = real['M']
    case = real.get('case_eff', case)
    if real.get('plain'):
        return {'k': 'noop'}
    sites = real['distinct']
    idx = {id(s): n for n, s in enumerate(sites)}
    req = {'k': 'model', 'L': real['N'], 'infinite': real['infinite'], 'explicit': bool(case.get('explicit', False)),
           'site_of': [idx[id(M.lat.unit_cell[int(u)])] for u in M.lat.order[:, -1]],
           'sites': [oc.site_json(s) for s in sites], 'calls': real['lean_calls'], 'window': window_of(case)}
    if with_dense and not real['infinite']:
        D = int(np.prod([s.dim for s in M.lat.mps_sites()]))
        if D <= LEAN_DENSE_MAX_D:
            req['mats'] = [oc.site_mats_json(s, s.opnames) for s in M.lat.mps_sites()]
    return req


STRUCT_FIELDS = ['cats_onsite', 'cats_onsite_order', 'cats_coupling', 'cats_coupling_order', 'exp', 'ot', 'ct',
                 'tl_onsite', 'tl_coupling', 'tl_exp', 'edges', 'states', 'max_range']


def eval_canon(mb, canon_json, n_sites):
    """numpy value of a canonical formal sum returned by the Lean model"""
    H = mb.zero()
    for t, c in canon_json:
        ops = {int(i): n for i, n in t}
        if any(i >= n_sites or i < 0 for i in ops):
            continue
        H = H + oc.parse_gq(c) * mb.string(ops)
    return oc.dense(H)


def json_close(a, b, exact=True, tol=1e-12):
    """equality of JSON values; with exact=False numeric [re, im] pairs are compared to relative `tol`
    (zoo models with irrational parameters: float sums in tenpy vs exact sums of the same floats in Lean)"""
    if exact:
        return a == b
    if isinstance(a, list) and isinstance(b, list):
        if len(a) != len(b):
            return False
        if len(a) == 2 and all(cm._is_num(v) for v in a) and all(cm._is_num(v) for v in b):
            za, zb = oc.parse_gq(a), oc.parse_gq(b)
            return abs(za - zb) <= tol * max(1.0, abs(za), abs(zb))
        return all(json_close(x, y, exact, tol) for x, y in zip(a, b))
    if isinstance(a, dict) and isinstance(b, dict):
        return a.keys() == b.keys() and all(json_close(a[k], b[k], exact, tol) for k in a)
    return a == b


def switch_named_like_string(M):
    """a multi-coupling connection whose switch-site operator has the name of the string left of it"""
    from tenpy.networks.terms import MultiCouplingTerms
    ct = M.all_coupling_terms()
    if not isinstance(ct, MultiCouplingTerms):
        return False
    tl = ct._fill_term_list(ct.terms_left, ct._connect_left)
    for l, c in zip(tl, ct.connections):
        if c is None or not l:
            continue
        if c[1] == l[-1][2] and c[1] != 'Id':
            return True
    return False


def centered_left(case):
    """a centred exponentially decaying term with at least one site left of the centre"""
    for c in case.get('calls', []):
        if c['f'] == 'add_centered':
            subs = c.get('subsites')
            if subs is None or any(j < c['i'] for j in subs):
                if c['i'] > 0:
                    return True
    return False


def only_onsite_bonds(M):
    """no two-site coupling at all (the bond operators consist of distributed onsite terms only)"""
    ct = M.all_coupling_terms()
    ct.remove_zeros()
    return len(ct.to_TermList().terms) == 0


def classify_exporter(case, real, rep):
    """name the way in which the from-couplings exporters differ from the represented operator"""
    M = real['M']
    mb = oc.ManyBody(M.lat.mps_sites())
    explicit = bool(case.get('explicit', False))
    sigs = []
    for ws, hc, name in [(False, explicit, 'op_string_dropped'), (True, False, 'explicit_plus_hc_ignored'),
                         (False, False, 'op_string_dropped+explicit_plus_hc_ignored')]:
        if name.endswith('ignored') and not explicit:
            continue
        try:
            alt = cm.termlist_matrix(mb, cm.container_strings(M, with_strings=ws), hc=hc)
        except Exception:  # noqa: BLE001
            continue
        if oc.maxdiff(alt, rep) <= TOL * max(1.0, float(np.max(np.abs(alt))) if alt.size else 1.0):
            sigs.append(name)
    return sigs[0] if sigs else None


def bond_energies_error_sig(e, H_bond, finite, sites=None):
    """`H_bond` entries may be None (documented: "list of {Array | None}"); bond_energies passes them on"""
    bonds = H_bond[1:] if finite else H_bond
    if isinstance(e, AttributeError) and "'NoneType' object has no attribute" in str(e) and any(h is None for h in bonds):
        return 'energy.bond_energies.H_bond_entry_None'
    if not finite and sites is not None and isinstance(e, ValueError) and 'incompatible LegCharge' in str(e):
        # H_bond[i] (sites i-1, i) contracted with the state on sites (i, i+1): the legs differ in a mixed unit cell
        L = len(sites)

        def same_leg(a, b):
            try:
                a.leg.test_equal(b.leg)
                return True
            except ValueError:
                return False
        if any(not same_leg(sites[i], sites[(i + 1) % L]) for i in range(L)):
            return 'energy.bond_energies.infinite.evaluated_on_sites_i_i+1'
    return f'energy.bond_energies.error.{type(e).__name__}'


def nn_finite_bond_energies(M, H_bond, fails, facts):
    """finite nearest-neighbour model: bond_energies of a random product of basis states, E_bond[i] = energy of bond
    (i, i+1) = diagonal element of H_bond[i+1]"""
    from tenpy.models.model import NearestNeighborModel
    from tenpy.networks.mps import MPS
    import zlib
    sites = M.lat.mps_sites()
    L = len(sites)
    rs = np.random.RandomState(zlib.crc32(repr([s.dim for s in sites]).encode()) % (1 << 30))
    state = [int(rs.randint(s.dim)) for s in sites]
    psi = MPS.from_product_state(sites, state, bc='finite', permute=False, unit_cell_width=M.lat.mps_unit_cell_width)
    nn = NearestNeighborModel(M.lat, H_bond)
    facts['bond_energies_finite'] = True
    try:
        with warnings.catch_warnings():
            warnings.simplefilter('ignore')
            E = np.asarray(nn.bond_energies(psi))
    except Exception as e:  # noqa: BLE001
        fails.append(('property', bond_energies_error_sig(e, H_bond, True), traceback.format_exc()[-1200:]))
        return
    want = []
    for i in range(L - 1):
        hb = H_bond[i + 1]
        k = state[i] * sites[i + 1].dim + state[i + 1]
        want.append(0.0 if hb is None else cm.bond_dense(hb)[k, k])
    want = np.array(want)
    if E.shape != want.shape or np.max(np.abs(E - want)) > 1e-9 * max(1.0, float(np.max(np.abs(want)))):
        fails.append(('property', 'energy.bond_energies.finite_mismatch',
                      f'bond_energies = {E.tolist()}, diagonal elements of H_bond[i+1] = {want.tolist()}'))


def nn_infinite_checks(M, case, real, H, n_cells, N, tol, reps, fails, facts):
    """infinite nearest-neighbour models: bond operators, MPO from bonds, bonds from MPO and their round trip denote the
    operator of the terms; energies of a random iMPS from the MPO, the MPO from the bonds and the bond energies agree
    with the term-by-term reference"""
    from tenpy.models.model import NearestNeighborModel, MPOModel, CouplingModel
    lat = M.lat
    coupling = isinstance(M, CouplingModel)
    n = n_cells * N
    if n < 2:
        return
    try:
        H_bond = M.calc_H_bond() if coupling else getattr(M, 'H_bond', None)
    except (ValueError, AssertionError) as e:
        if isinstance(e, ValueError) and 'nearest' not in str(e).lower() and 'exp_decaying' not in str(e):
            reps['calc_H_bond'] = e
        return
    if H_bond is None or all(h is None for h in H_bond):
        return
    if M.H_MPO.max_range is None or M.H_MPO.max_range > 1:
        # nearest-neighbour as an operator, but a term is spelled over more sites (outer operator 'Id'): "the terms inside
        # a window" then means different things for the bond form and the term form; not compared here
        facts['nn_infinite_skipped_formal_range'] = True
        return
    facts['nn_infinite'] = True
    dims = [s.dim for s in lat.mps_sites()] * n_cells
    mod = {}

    def attempt(name, fn):
        try:
            mod[name] = fn()
        except Exception as e:  # noqa: BLE001
            reps[name] = e          # classified like the finite representations

    nn = NearestNeighborModel(lat, H_bond)
    store = {}
    attempt('bonds', lambda: cm.bonds_window_dense(H_bond, dims, n))

    def mpo_from_bond():
        store['H2'] = nn.calc_H_MPO_from_bond()
        return cm.mpo_window_dense(store['H2'], n)
    attempt('mpo_from_bond', mpo_from_bond)
    attempt('bond_from_mpo', lambda: cm.bonds_window_dense(M.calc_H_bond_from_MPO(), dims, n))
    if 'H2' in store:
        def roundtrip():
            nn2 = NearestNeighborModel.from_MPOModel(MPOModel(lat, store['H2']))
            store['nn2'] = nn2
            return cm.bonds_window_dense(nn2.H_bond, dims, n)
        attempt('bond_mpo_bond_roundtrip', roundtrip)
    for name, W in mod.items():
        facts['rep.' + name + '_infinite'] = True
        # up to on-site terms on the two boundary sites of the window and a constant (see strip_boundary_onsite)
        d = float(np.max(np.abs(cm.strip_boundary_onsite(W - H, dims)))) if W.size else 0.0
        if not d <= tol:
            fails.append(('property', f'dense.{name}.infinite_mismatch',
                          f'{name}: operator on a window of {n} sites differs from the represented operator by {d:.3e} '
                          f'beyond boundary on-site terms (tol {tol:.1e})'))
    # ---- energies of a random iMPS (also fixes the constant and the boundary terms left open above)
    if real.get('plain'):
        H_small = cm.mpo_window_dense(M.H_MPO, n - N) if n - N >= 1 else None
    else:
        H_small = cm.oracle_matrix(case, lat, n_cells=n_cells - 1)[0] if n_cells >= 2 else None
    if H_small is None:
        return
    import zlib
    seed = zlib.crc32(json.dumps(case, sort_keys=True, default=str).encode()) % (1 << 30)
    psi = cm.random_imps(lat.mps_sites(), seed, chi=3 if np.prod(dims) <= 300 else 2, width=lat.mps_unit_cell_width)
    rho_n = cm.rho_window_dense(psi, n)
    e_cell = np.trace(rho_n @ H)
    if n - N >= 1:
        e_cell = e_cell - np.trace(cm.rho_window_dense(psi, n - N) @ H_small)
    scale = max(1.0, abs(e_cell), float(np.max(np.abs(H))))
    etol = 1e-9 * scale
    facts['nn_infinite_energy'] = True

    def energy(name, fn):
        try:
            v = complex(fn())
        except Exception as e:  # noqa: BLE001
            fails.append(('property', f'energy.{name}.error.{type(e).__name__}', traceback.format_exc()[-1200:]))
            return
        if abs(v - e_cell) > etol:
            fails.append(('property', f'energy.{name}.mismatch',
                          f'energy per unit cell of a random iMPS: {name} gives {v!r}, term-by-term reference {complex(e_cell)!r}'))
    energy('H_MPO.expectation_value', lambda: M.H_MPO.expectation_value(psi) * N)
    if 'H2' in store:
        energy('mpo_from_bond.expectation_value', lambda: store['H2'].expectation_value(psi) * N)
    # bond energies: E_bond[i] is documented as the energy of bond (i-1, i)
    try:
        E = np.asarray(nn.bond_energies(psi))
    except Exception as e:  # noqa: BLE001
        fails.append(('property', bond_energies_error_sig(e, H_bond, False, lat.mps_sites()), traceback.format_exc()[-1200:]))
        return
    want = np.array([np.trace(cm.rho_window_dense(psi, 2, first=i - 1) @ cm.bond_dense(H_bond[i])) if H_bond[i] is not None
                     else 0.0 for i in range(N)])
    if abs(np.sum(want) - e_cell) > etol:
        fails.append(('property', 'energy.H_bond.sum_mismatch',
                      f'sum of <H_bond[i]> on sites (i-1, i) = {complex(np.sum(want))!r}, reference {complex(e_cell)!r}'))
    if np.max(np.abs(E - want)) > etol:
        same_dims = all(lat.mps_sites()[i].dim == lat.mps_sites()[(i + 1) % N].dim for i in range(N))
        shifted = None
        if same_dims:
            shifted = np.array([np.trace(cm.rho_window_dense(psi, 2, first=i) @ cm.bond_dense(H_bond[i]))
                                if H_bond[i] is not None else 0.0 for i in range(N)])
        if shifted is not None and np.max(np.abs(E - shifted)) <= etol:
            fails.append(('property', 'energy.bond_energies.infinite.evaluated_on_sites_i_i+1',
                          f'bond_energies = {np.round(E, 8).tolist()} are <H_bond[i]> on sites (i, i+1); on the documented '
                          f'sites (i-1, i): {np.round(want, 8).tolist()}; sum {complex(np.sum(E))!r} vs energy per unit cell '
                          f'{complex(e_cell)!r}'))
        else:
            fails.append(('property', 'energy.bond_energies.mismatch',
                          f'bond_energies = {E.tolist()}, <H_bond[i]> on sites (i-1, i) = {want.tolist()}'))


def check_case(case, lean_out, real=None, use_model=True):
    """returns list of (kind, signature, detail) failures and a dict of facts for the histogram"""
    fails = []
    facts = {}
    try:
        if real is None:
            real = real_side(case)
    except Exception as e:  # noqa: BLE001
        fails.append(('property', f'build.error.{type(e).__name__}', traceback.format_exc()[-1500:]))
        return fails, facts
    M = real['M']
    lat = M.lat
    N = real['N']
    infinite = real['infinite']
    case = real.get('case_eff', case)
    zoo = case.get('kind') == 'zoo'
    explicit = bool(case.get('explicit', False))
    j = real['j']
    if zoo and case.get('unsupported'):
        fails.append(('correspondence', 'zoo.unsupported-adder', f'adders not logged: {case["unsupported"]}'))

    # ---------------- oracle and dense representations -----------------------------------
    n_cells = window_of(case)
    H = None
    if not real.get('plain'):
        try:
            H, A, B = cm.oracle_matrix(case, lat, n_cells=n_cells if infinite else 1)
        except Exception as e:  # noqa: BLE001
            fails.append(('correspondence', f'oracle.error.{type(e).__name__}', traceback.format_exc()[-1500:]))
            return fails, facts
    else:
        # not a CouplingModel (AKLTChain): the representations are compared with each other
        try:
            if not infinite:
                from tenpy.algorithms.exact_diag import ExactDiag
                ed = ExactDiag(M)
                ed.build_full_H_from_mpo()
                H = cm.ed_dense(ed)
            else:
                H = cm.mpo_window_dense(M.H_MPO, n_cells * N)
        except Exception as e:  # noqa: BLE001
            fails.append(('property', f'dense.mpo.error.{type(e).__name__}', traceback.format_exc()[-1500:]))
            return fails, facts
    scale = max(1.0, float(np.max(np.abs(H))) if H.size else 1.0)
    tol = TOL * scale
    facts['herm_oracle'] = oc.herm_defect(H) <= tol
    facts['D'] = H.shape[0]
    reps = {}
    if not infinite:
        reps = cm.representations(M, case)
        try:
            from tenpy.models.model import CouplingModel
            Hb_f = None
            if N >= 2:
                with warnings.catch_warnings():
                    warnings.simplefilter('ignore')
                    try:
                        Hb_f = M.calc_H_bond() if isinstance(M, CouplingModel) else getattr(M, 'H_bond', None)
                    except (ValueError, AssertionError):
                        Hb_f = None
            if Hb_f is not None and any(h is not None for h in Hb_f):
                nn_finite_bond_energies(M, Hb_f, fails, facts)
        except Exception:  # noqa: BLE001
            fails.append(('correspondence', 'harness.nn_finite.exception', traceback.format_exc()[-1500:]))
    else:
        from tenpy.algorithms.exact_diag import ExactDiag
        import copy

        def seg(model):
            ed = ExactDiag.from_infinite_model(model, first=0, last=n_cells * N - 1, max_size=1e9)
            ed.build_full_H_from_mpo()
            return cm.ed_dense(ed)

        def attempt(name, fn):
            try:
                with warnings.catch_warnings():
                    warnings.simplefilter('ignore')
                    reps[name] = fn()
            except Exception as e:  # noqa: BLE001
                reps[name] = e
        attempt('segment', lambda: seg(M))

        def enlarged():
            M2 = copy.deepcopy(M)
            M2.enlarge_mps_unit_cell(2)
            ed = ExactDiag.from_infinite_model(M2, first=0, last=n_cells * N - 1, max_size=1e9)
            ed.build_full_H_from_mpo()
            return cm.ed_dense(ed)
        attempt('enlarged', enlarged)

        def sorted_legs():
            M2 = copy.deepcopy(M)
            M2.H_MPO.sort_legcharges()
            return seg(M2)
        attempt('sorted', sorted_legs)
        if N % 2 == 0:
            def grouped():
                M2 = copy.deepcopy(M)
                M2.group_sites(2)
                return cm.mpo_window_dense(M2.H_MPO, n_cells * N // 2)
            attempt('grouped', grouped)

            def grouped_segment():
                M2 = copy.deepcopy(M)
                M2.group_sites(2)
                ed = ExactDiag.from_infinite_model(M2, first=0, last=n_cells * N // 2 - 1, max_size=1e9)
                ed.build_full_H_from_mpo()
                return cm.ed_dense(ed)
            attempt('grouped_segment', grouped_segment)
        attempt('window', lambda: cm.mpo_window_dense(M.H_MPO, n_cells * N))
        if case.get('shift_pairs') and not real.get('plain'):
            # term lists of the merged containers against the brute-force sum of the added terms (bosonic operators,
            # strings 'Id': a TermList entry is the plain product of its operators): every term starting in the first unit
            # cell is listed once with its strength; its translates by whole unit cells fill the window
            def termlist_window():
                mbw = oc.ManyBody(lat.mps_sites() * n_cells)
                ot_ = M.all_onsite_terms()
                ot_.remove_zeros()
                ct_ = M.all_coupling_terms()
                ct_.remove_zeros()
                Ht = mbw.zero()
                for tl in (ot_.to_TermList(), ct_.to_TermList()):
                    for term, strength in zip(tl.terms, tl.strength):
                        for n in range(n_cells):
                            ops = {int(i) + n * N: op for op, i in term}
                            if min(ops) < 0 or max(ops) >= n_cells * N:
                                continue
                            Ht = Ht + complex(strength) * mbw.string(ops)
                Ht = oc.dense(Ht)
                if explicit:
                    Ht = Ht + Ht.conj().T
                return Ht
            attempt('termlist_window', termlist_window)
        try:
            with warnings.catch_warnings():
                warnings.simplefilter('ignore')
                nn_infinite_checks(M, case, real, H, n_cells, N, tol, reps, fails, facts)
        except Exception:  # noqa: BLE001
            fails.append(('correspondence', 'harness.nn_infinite.exception', traceback.format_exc()[-1500:]))
    for name, rep in reps.items():
        facts['rep.' + name] = True
        if isinstance(rep, Exception):
            sig = f'dense.{name}.error.{type(rep).__name__}'
            if name in ('numpy', 'sparse', 'numpy_undo') and isinstance(rep, ValueError) and centered_left(case):
                sig = f'dense.{name}.centered_terms_unordered'
            if name == 'mpo_from_bond' and isinstance(rep, UnboundLocalError) and 'chinfo' in str(rep):
                sig = 'dense.mpo_from_bond.chinfo_unbound'
            if name.startswith('grouped') and isinstance(rep, TypeError) and "'bool' object is not iterable" in str(rep):
                sig = 'dense.grouped.GroupedSite_charge_to_JW_parity_list'
            if name == 'bond_from_mpo' and isinstance(rep, AttributeError) and 'explicit_plus_hc' in str(rep):
                sig = 'dense.bond_from_mpo.mpomodel_without_explicit_plus_hc'
            if name == 'bond_from_mpo' and isinstance(rep, ValueError) and "didn't capture everything" in str(rep) \
                    and (M.H_MPO.max_range is None or M.H_MPO.max_range > 1):
                # legitimate refusal: the MPO has a path over more than two sites (e.g. a multi-site term whose outer
                # operator is 'Id': nearest-neighbour as an operator, and for calc_H_bond, but not as an MPO graph)
                facts['bond_from_mpo_refused_long_range_graph'] = True
                continue
            if name == 'mpo_from_bond' and isinstance(rep, RuntimeError) and 'no singular values' in str(rep):
                # the two-site part of a bond operator vanishes up to rounding (pure on-site content): the residual of the
                # subtractions passes the absolute `norm < tol_zero` test and the SVD with the same cutoff finds nothing
                sig = 'dense.mpo_from_bond.rounding_residual_svd'
            if name == 'grouped_segment' and isinstance(rep, ZeroDivisionError):
                sig = 'dense.grouped_segment.extract_segment_after_group_sites'
            fails.append(('property', sig, f'{name}: {rep!r}'))
            continue
        d = oc.maxdiff(rep, H)
        if not d <= tol:
            sig = f'dense.{name}.mismatch'
            if name in ('numpy', 'sparse', 'numpy_undo'):
                cls = classify_exporter(case, real, rep if name != 'numpy_undo' else rep)
                if cls:
                    sig = f'dense.{name}.{cls}'
            fails.append(('property', sig, f'{name} differs from the represented operator by {d:.3e} (tol {tol:.1e})'))
        elif facts['herm_oracle'] and oc.herm_defect(rep) > 10 * tol:
            fails.append(('property', f'dense.{name}.not_hermitian', f'hermiticity defect {oc.herm_defect(rep):.3e}'))
    # pairwise agreement of tenpy's own representations (independent of the oracle)
    names = [n for n, r in reps.items() if not isinstance(r, Exception)]
    for a, b in zip(names, names[1:]):
        facts['pairs'] = facts.get('pairs', 0) + 1

    if not use_model or lean_out is None or real.get('plain'):
        return fails, facts

    # ---------------- model vs implementation ---------------------------------------------
    if 'error' in lean_out:
        fails.append(('correspondence', 'model.driver-error', str(lean_out['error'])[:500]))
        return fails, facts
    if lean_out.get('raised'):
        fails.append(('correspondence', 'model.raised', f'model says calls {lean_out["raised"]} raise ValueError'))
    for fld in STRUCT_FIELDS:
        want = j.get(fld)
        got = lean_out.get(fld)
        if fld == 'tl_exp' and want is None:
            continue
        if not json_close(cm.norm_num(want), cm.norm_num(got), exact=not zoo):
            fails.append(('correspondence', f'model.{fld}',
                          f'impl {json.dumps(cm.norm_num(want))[:600]} model {json.dumps(cm.norm_num(got))[:600]}'))
    # IdL / IdR / chi from the ordered states
    st = lean_out.get('states') or []
    idl = [s.index('IdL') if 'IdL' in s else None for s in st]
    idr = [s.index('IdR') if 'IdR' in s else None for s in st]
    if not case.get('sort_mpo_legs'):
        if idl != j['IdL'] or idr != j['IdR'] or [len(s) for s in st] != j['chi']:
            fails.append(('correspondence', 'model.IdL_IdR_chi', f'impl {j["IdL"]} {j["IdR"]} {j["chi"]} model {idl} {idr}'))
    if lean_out.get('spec_ok') is False:
        fails.append(('correspondence', 'model.graph_spec', 'closed form of the graph (GraphSpec.specLayers) differs from the imperative model'))
    if lean_out.get('spec_ok') is True:
        facts['spec_ok'] = True
    if not lean_out.get('paths_ok'):
        detail = ('path sum of the MPO graph differs from the formal sum of the term lists: '
                  + json.dumps(lean_out.get('denote_graph'))[:400] + ' vs ' + json.dumps(lean_out.get('denote_terms'))[:400])
        struct_ok = not any(f[1] in ('model.edges', 'model.tl_onsite', 'model.tl_coupling', 'model.tl_exp', 'model.ct', 'model.ot')
                            for f in fails)
        if struct_ok and switch_named_like_string(M):
            # edges and term lists of the model are those of the implementation: the implementation's own
            # to_TermList() lost an operator
            fails.append(('property', 'termlist.multi.switch_operator_named_like_string',
                          'MultiCouplingTerms.to_TermList() drops the operator on site switchLR because its name equals '
                          'the operator string to its left; ' + detail))
        else:
            fails.append(('correspondence', 'model.graph_paths', detail))
    # Lean's formal sum evaluated with the site matrices vs the oracle
    mb = oc.ManyBody(lat.mps_sites() * (n_cells if infinite else 1))
    if not infinite:
        Hl = eval_canon(mb, lean_out['rep'], N)
        d = oc.maxdiff(Hl, H)
        if not d <= tol:
            fails.append(('correspondence', 'model.rep-vs-oracle', f'formal sum of the model differs from the oracle by {d:.3e}'))
        if lean_out.get('herm') and oc.herm_defect(H) > tol:
            fails.append(('correspondence', 'model.herm-flag', 'model says the formal sum is self-adjoint, the oracle matrix is not'))
        facts['herm_formal'] = bool(lean_out.get('herm'))
        dn = lean_out.get('dense')
        if dn:
            D = dn['D']
            Hd = (np.array([oc.bits_float(x) for x in dn['re']]) + 1j * np.array([oc.bits_float(x) for x in dn['im']])).reshape(D, D)
            d = oc.maxdiff(Hd, H)
            facts['lean_dense'] = True
            if not d <= tol:
                fails.append(('correspondence', 'model.dense-vs-oracle', f'Lean dense evaluation differs by {d:.3e}'))
    # bond operators
    if not infinite and lean_out.get('bonds') is not None and N >= 2:
        try:
            with warnings.catch_warnings():
                warnings.simplefilter('ignore')
                Hb = M.calc_H_bond()
        except ValueError:
            Hb = None
        if Hb is not None:
            sites = lat.mps_sites()
            for jb in range(1, N):
                mb2 = oc.ManyBody([sites[jb - 1], sites[jb]])
                want = eval_canon(mb2, lean_out['bonds'][jb], 2)
                if explicit:
                    want = want + want.conj().T
                got = np.zeros_like(want) if Hb[jb] is None else Hb[jb].transpose(['p0', 'p1', 'p0*', 'p1*']).to_ndarray().reshape(want.shape)
                if oc.maxdiff(want, got) > tol:
                    fails.append(('correspondence', 'model.bonds', f'H_bond[{jb}] differs by {oc.maxdiff(want, got):.3e}'))
                    break
            facts['bonds'] = True
    return fails, facts
