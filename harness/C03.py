"""C03 — operations never corrupt their operands or shared charge data."""
import json

from vlib import core, npcgen, twoconf

from harness import c03_ext

PROP = 'C03'
MODEL_MODULES = ['TenpyModel.Util.J', 'TenpyModel.C03.Calls', 'TenpyModel.C03.ExtNet']
PROPS_MODULES = ['TenpyModel.C03.Props', 'TenpyModel.C03.PropsCalls', 'TenpyModel.C03.PropsExt']
LEVEL = 'proof'
BUDGET = {'quick': 170, 'thorough': 1500}
RULE = ('histories: typed random walk (8-14 steps after set-up) over the public tensor operations — deep/shallow copy, '
        'transpose/itranspose/iswapaxes, conj/iconj, add_trivial_leg, take_slice, (i)scale_axis, astype(copy=…), labels, '
        'unary minus, gauge_total_charge, change/drop/add_charge, tensordot (also tensordot(a, a.conj())), outer, trace, '
        '+ - * with scalars, +=/iadd_prefactor_other, *=, ipurge_zeros, iproject, a[i,j]=v (existing and missing block), '
        'a[slice]=other, combine_legs (with and without transposition), split_legs, sort_legcharge, a[...] slicing, '
        'squeeze, extend, concatenate(copy=…), ibinary_blockwise, isort_qdata, and the leg functions '
        'conj/flip_charges_qconj/sort/bunch/project/extend/copy/LegPipe/to_LegCharge — on tensors built from a shared '
        'pool of 3 legs (0-2 charges, mod 1..5, blocked / duplicated / arbitrary order); EVERY intermediate object stays '
        'alive and is re-observed after each step; after a reshaping/slicing/copying function (split_legs, combine_legs, '
        'add_trivial_leg, take_slice, a[...], squeeze, transpose, sort_legcharge, conj, astype, concatenate, tensordot, ...) '
        'the next step is with probability 0.6 an in-place method that writes into existing containers of the RESULT '
        '(element/slice assignment, *=, +=, itranspose, iproject) while the operands stay alive; combine_legs immediately '
        'followed by split_legs occurs regularly; 27% of the histories have no charge / one sector per leg (single-block '
        'fast paths). In-place steps are judged against the DOCUMENTED sharing (the model heap), and whenever a new result '
        'shares more state with an older tensor than the model documents, an aliasing probe replays the history up to that '
        'step and modifies result and operand in place on the real objects. Each history runs under both kernel configurations (fresh compiled '
        'build, TENPY_NO_CYTHON=1) and through the Lean heap model with the kernel flag. Plus MPS/MPO scenarios. '
        'Factorisations (qr/lq/svd/polar/eigh/eig/...) are called with drawn options (mode reduced/complete, inner_qconj +-1, '
        'qtotal_Q / qtotal_LR None or a charge, pos_diag, cutoff, inner_labels, sort, UPLO), preferably on operands whose legs are '
        'already blocked by charge; every LegCharge/LegPipe object ever reachable from a registered tensor (charges, slices, qconj, '
        'flags, pipe maps) is re-fingerprinted after every step. '
        'A history is non-trivial when it contains an in-place step, a shallow copy or view, and >= 3 live tensors; '
        'distinct by content hash. MPS/MPO level (oracle only): MPOs from a model (virtual legs unsorted), from_grids and '
        'MPO(...) with caller-owned IdL/IdR/W lists, MPOGraph; a second object derived by dagger / copy / + / make_U_I / '
        'make_U_II / extract_segment / plus_identity / the constructor, then sort_legcharges, group_sites, '
        'enlarge_mps_unit_cell, set_W, edits of IdL on the derived object while every other live MPO (IdL, IdR, chi, W '
        'tensors, dense operator selected by IdL/IdR) and the caller-owned arguments are watched; MPS: constructor with '
        'caller-owned Bs/SVs/form lists, psi.copy() + in-place methods, from_full, enlarge_mps_unit_cell, get_B(copy=...); '
        'kind=net: every getter / measurement / derivation / constructor / in-place method of MPS and MPO, environments, and '
        'two-operand functions (overlap, add, MPSEnvironment, MPOEnvironment, TransferMatrix, correlation functions with '
        'bra != ket) on pairs of MPS with differently gauged total charge / different sectors / segments, observing stored '
        'tensors (values, leg charges, qtotal), get_total_charge() and the identities of the _B/_S entries. '
        'Extension (kind=ext, harness/c03_ext.py, Lean model ExtNet): typed walks (10-18 calls) over MPS(...)/copy/get_B/set_B/'
        'get_SL,SR/set_SL,SR/enlarge_mps_unit_cell/roll_mps_unit_cell and MPO(...)/copy/get_W/set_W/get_IdL,IdR/'
        'enlarge_mps_unit_cell/sort_legcharges on caller-owned tensor / singular-value / form / IdL lists that are edited '
        'afterwards, tensor-level in-place methods on stored tensors, ~22% malformed constructor calls (wrong lengths, unknown '
        'bc, missing labels, wrong-size singular values) and out-of-range indices; result (value or exception class) and the '
        'sharing relation of all registered objects compared with the model after every call, both kernels.')
TRUSTED = ['Lean 4.33 kernel; axioms of every C03_* theorem ⊆ {propext, Classical.choice, Quot.sound}',
           'hand-written heap model lean/TenpyModel/C03/{Heap,Ops,Calls}.lean, tied to tenpy/linalg/np_conserved.py, '
           'charges.py and _npc_helper.pyx by this correspondence run: the sharing relation (which list / array / buffer '
           'objects are identical between all live tensors and legs) is compared exactly after every step',
           'object identity via id() with every object ever fingerprinted kept alive; numpy `.base` chain identifies the '
           'buffer a view belongs to',
           'value-dependent hints (keys of _qdata rows, C-contiguity of blocks, surviving blocks) are read from the real '
           'objects by the harness and passed to the model']
ASSUMPTIONS = ['numpy views report their owner through .base', 'integer-valued entries: dense snapshots compare exactly']


def gen_case(rng, idx):
    mods = npcgen.gen_mods(rng, max_q=2)
    u = rng.random()
    max_blocks = 3
    if u < 0.12:
        mods, max_blocks = [], 1          # no conserved charge: every tensor has a single block
    elif u < 0.27:
        max_blocks = 1                    # one charge sector per leg: single-block fast paths (split_legs, combine_legs, tensordot)
    legs = []
    for _ in range(3):
        d = npcgen.gen_leg(rng, mods, max_blocks=max_blocks, max_size=3 if max_blocks == 1 else 2, allow_empty=False)
        legs.append(d)
    return dict(kind='hist', seed=rng.randrange(1 << 30), nsteps=rng.choice([8, 10, 12, 14]), legs=legs, narr=2)


def gen_mps_case(rng, idx):
    if idx % 3 == 1:
        return dict(kind='mpo', seed=rng.randrange(1 << 30), nderive=6)
    if idx % 3 == 2:
        return dict(kind='net', seed=rng.randrange(1 << 30), nderive=5)
    return dict(kind='mps', seed=rng.randrange(1 << 30), L=rng.choice([2, 3, 4]), ntrafo=5)


def load_corpus():
    """minimised past failures / witnesses, replayed first (corpus/C03/*.json)"""
    out = []
    for f in sorted((core.CORPUS_DIR / 'C03').glob('*.json')):
        out.append(json.loads(f.read_text()))
    return out


def canon(fps):
    """canonical renaming of cell ids by first occurrence in a fixed traversal: equal iff the sharing relations agree"""
    table = {}

    def c(x):
        if x not in table:
            table[x] = len(table)
        return table[x]
    out = []
    for st in fps:
        arrs = []
        for a in st['arrs']:
            arrs.append(dict(legs_list=c(('l', a['legs_list'])),
                             legs=[[c(('g', l[0])), c(('lb', l[1])), c(('lb', l[2])), [c(('g', s)) for s in l[3]]] for l in a['legs']],
                             qtotal=c(('b', a['qtotal'])), labels=c(('b', a['labels'])), data=c(('l', a['data'])),
                             blocks=[c(('b', b)) for b in a['blocks']], qdata=c(('b', a['qdata'])), nq=a['nq'],
                             keys=a.get('keys')))
        legs = [[c(('g', l[0])), c(('lb', l[1])), c(('lb', l[2])), [c(('g', s)) for s in l[3]]] for l in st['legs']]
        out.append(dict(arrs=arrs, legs=legs))
    return out


def canon_model(fps):
    """model addresses are tagged 5*ref+store: bufs 0, lbufs 1, lists 2, legs 3 — same traversal"""
    return canon(fps)


KINDS = ('legs_list', 'labels', 'data', 'qdata', 'qtotal')


def mut(x):
    return {x[k] for k in KINDS} | set(x['blocks'])


def excess_sharing(real_step, model_step, n_before):
    """(new tensor j, older tensor i) pairs for which the real objects share mutable state although the model documents
    none, together with the older tensors that ARE documented to share with j"""
    out = []
    ra, ma = real_step['arrs'], model_step['arrs']
    for j in range(n_before, min(len(ra), len(ma))):
        doc = [i for i in range(len(ma)) if i != j and (mut(ma[i]) & mut(ma[j]))]
        exc = [i for i in range(len(ra)) if i != j and i not in doc and (mut(ra[i]) & mut(ra[j]))]
        if exc:
            out.append(dict(new=j, documented=doc, excess=exc))
    return out


def first_diff(a, b, path=''):
    if type(a) != type(b):
        return f'{path}: {a!r} vs {b!r}'[:300]
    if isinstance(a, dict):
        for k in sorted(set(a) | set(b)):
            if a.get(k) != b.get(k):
                return first_diff(a.get(k), b.get(k), path + '.' + k)
    if isinstance(a, list):
        if len(a) != len(b):
            return f'{path}: length {len(a)} vs {len(b)}'
        for i, (x, y) in enumerate(zip(a, b)):
            if x != y:
                return first_diff(x, y, f'{path}[{i}]')
    return f'{path}: {a!r} vs {b!r}'[:300]


INPLACE_OPS = ('iadd_prefactor_other', 'iscale_prefactor', 'itranspose', 'iswapaxes', 'iscale_axis', 'iproject',
               'ipurge_zeros', 'iconj', 'ibinary_blockwise', 'ireplace_label', 'ireplace_labels', 'iset_leg_labels',
               'idrop_labels')


def nontrivial(r):
    ops = r.get('ops', [])
    inplace = any(o in INPLACE_OPS or o.startswith('setitem') for o in ops)
    shallow = any(o in ('copy.shallow', 'add_trivial_leg', 'replace_label', 'astype.nocopy', 'gauge_total_charge',
                        'concatenate.nocopy', 'neg') for o in ops)
    return inplace and shallow and r.get('nobj', 0) >= 3


def safe_run(cases, configs, nproc):
    """twoconf.run, but a worker process that dies (segmentation fault inside the compiled kernels after a tensor was
    corrupted, ...) is narrowed down to the history that kills it instead of aborting the whole check"""
    try:
        return twoconf.run('harness.c03_worker', cases, configs=configs, nproc=nproc)
    except twoconf.WorkerError as e:
        if 'rc=-' not in str(e) and 'rc=1' not in str(e):
            raise
        out = {}
        for cfg in configs:
            out[cfg] = dict(meta={}, results=_bisect(cases, cfg))
        return out


def _bisect(cases, cfg):
    try:
        return twoconf.run('harness.c03_worker', cases, configs=(cfg,), nproc=min(8, max(1, len(cases) // 20)))[cfg]['results']
    except twoconf.WorkerError as e:
        if len(cases) == 1:
            return [{'died': str(e)[:600]}]
        h = len(cases) // 2
        return _bisect(cases[:h], cfg) + _bisect(cases[h:], cfg)


def evaluate(ctx, cases, use_model=True, configs=('cy', 'py')):
    res = core.Result()
    probes = []
    runs = safe_run(cases, configs, 8 if ctx.quick else 14)
    lines, where = [], []
    if use_model:
        for cfg in configs:
            for i, case in enumerate(cases):
                r = runs[cfg]['results'][i]
                if 'crash' not in r and 'died' not in r and r.get('steps'):
                    lines.append(dict(cy=(cfg == 'cy'), steps=r['steps']))
                    where.append((cfg, i))
    models = dict(zip(where, core.run_driver('C03', lines))) if lines else {}
    for i, case in enumerate(cases):
        ref = runs[configs[0]]['results'][i]
        if 'died' in ref or 'crash' in ref:
            ref = runs[configs[-1]]['results'][i]
        res.note_case(case, nontrivial(ref) or case.get('kind') in ('mps', 'mpo', 'net'))
        res.count('kind=' + case.get('kind', 'hist'))
        for o in ref.get('ops', []):
            res.count('op=' + o)
        failed = False
        for cfg in configs:
            r = runs[cfg]['results'][i]
            if 'died' in r:
                res.fail('property', 'c03.interpreter-died', f'[{cfg}] the interpreter running this history of public '
                         'operations was killed (memory corruption): ' + r['died'], case)
                failed = True
                continue
            if 'crash' in r:
                res.fail('correspondence', 'c03.worker-crash', f'[{cfg}] ' + r['crash'], case)
                failed = True
                continue
            seen = set()
            for sig, detail in r['oracle']:
                if sig not in seen:
                    seen.add(sig)
                    res.fail('property', sig, f'[{cfg}] {detail}', shrink_hint(case, detail))
                    failed = True
        if failed or not use_model:
            continue
        # (the two kernels need not walk the same history: after an in-place method on a tensor that has shallow copies
        #  the siblings legitimately differ — the compiled iscale_prefactor/iadd_prefactor_other write the shared blocks,
        #  the Python versions rebind — so later value-dependent choices differ; each walk is checked on its own)
        for cfg in configs:
            r = runs[cfg]['results'][i]
            if not r.get('steps'):
                continue
            m = models.get((cfg, i))
            res.traces_validated += 1
            if m is None or 'error' in m or 'steps' not in m:
                res.fail('correspondence', 'c03.model-error', f'[{cfg}] {m}', case)
                continue
            real_c, model_c = canon(r['fps']), canon_model(m['steps'])
            for st_r, st_m in zip(real_c, model_c):   # keys of a tensor with a broken `_qdata` are not comparable
                for a_r, a_m in zip(st_r['arrs'], st_m['arrs']):
                    if a_r.get('keys') is None:
                        a_m['keys'] = None
            # in-place steps judged with the DOCUMENTED sharing (the model's heap before the step): a tensor that changed
            # although the model shares nothing between it and the target was reached through an undocumented alias
            # (the worker's own oracle uses the sharing of the real objects and would excuse it)
            for st, (tgt, chg) in enumerate(zip(r.get('targets', []), r.get('changed', []))):
                if tgt is None or st == 0 or st - 1 >= len(model_c):
                    continue
                ma = model_c[st - 1]['arrs']
                for k in chg:
                    if k != tgt and k < len(ma) and tgt < len(ma) and not (mut(ma[k]) & mut(ma[tgt])):
                        op = r['ops'][st]
                        res.fail('property', f'c03.{op}.changed-tensor-without-documented-sharing',
                                 f'[{cfg}] step {st}: in-place {op} on tensor #{tgt} changed tensor #{k}; according to the '
                                 'heap model (documented copies/views) the two share no mutable state',
                                 dict(case, stop_after_op=st))
                        break
            if real_c != model_c:
                k = next((s for s, (x, y) in enumerate(zip(real_c, model_c)) if x != y), min(len(real_c), len(model_c)))
                op = r['ops'][k] if k < len(r['ops']) else '?'
                res.fail('correspondence', f'c03.sharing.{op}',
                         f'[{cfg}] step {k} ({op}): real vs model ' + first_diff(real_c[k] if k < len(real_c) else None,
                                                                                   model_c[k] if k < len(model_c) else None),
                         case)
                # more sharing than documented between a new result and an older tensor: aliasing probe on the real objects
                if k < len(real_c) and k < len(model_c) and (r.get('targets') or [None] * (k + 1))[k] is None:
                    n_before = len(real_c[k - 1]['arrs']) if k > 0 else 0
                    for ex in excess_sharing(real_c[k], model_c[k], n_before)[:1]:
                        if len(probes) < 60:
                            probes.append((cfg, dict(case, stop_after_op=k, probe=ex)))
    # second pass: replay the histories with undocumented sharing up to that step and probe the real objects
    for cfg in configs:
        pc = [c for g, c in probes if g == cfg]
        if not pc:
            continue
        pr = safe_run(pc, (cfg,), min(8, len(pc)))[cfg]['results']
        for c, r in zip(pc, pr):
            res.extra['aliasing_probes'] = res.extra.get('aliasing_probes', 0) + 1
            for sig, detail in r.get('oracle', []):
                if 'aliases' in sig:
                    res.fail('property', sig, f'[{cfg}] {detail}', c)
                    break
    return res


def shrink_hint(case, detail):
    """histories are prefixes of one PRNG stream: the shortest failing prefix is the minimal case"""
    c = dict(case)
    if 'step ' in detail:
        try:
            k = int(detail.split('step ')[1].split(':')[0])
            c['nsteps'] = max(1, min(case.get('nsteps', k), k))   # steps counted after set-up (set-up adds 1 + narr)
            c['nsteps'] = max(1, k - case.get('narr', 2))
        except ValueError:
            pass
    return c


def cases_for(ctx, tag, n_hist, n_mps):
    rng = ctx.sub_rng(tag)
    return [gen_case(rng, i) for i in range(n_hist)] + [gen_mps_case(rng, i) for i in range(n_mps)]


def run(ctx):
    res = core.Result()
    if ctx.quick:
        cases = load_corpus() + cases_for(ctx, 'main', 1500, 72)
    else:
        cases = load_corpus() + cases_for(ctx, 'main', 16000, 600)
    res.merge(evaluate(ctx, cases))
    # extension round: network level (MPS / MPO containers) against the Lean model ExtNet, own PRNG stream 'ext'
    res.merge(c03_ext.run_ext(ctx, 320 if ctx.quick else 3200))
    ops = {k[3:]: v for k, v in res.hist.items() if k.startswith('op=')}
    res.extra['operations_exercised'] = len(ops)
    res.extra['inplace_steps'] = sum(v for k, v in ops.items() if k in INPLACE_OPS or k.startswith('setitem'))
    res.extra['rejected_steps'] = sum(v for k, v in ops.items() if k.startswith('rejected'))
    res.extra['kernel_configurations'] = ['cy (fresh compiled build)', 'py (TENPY_NO_CYTHON=1)']
    res.extra['anchor_coverage_note'] = (
        '2026-09-26, quick tier seed 0, pure-Python kernel, line+branch coverage of the anchored files measured outside the check: '
        'np_conserved.py 71% -> 80%, charges.py 65% -> 68%, mpo.py 39% -> 74%, mps.py 30% -> 63%, total 47% -> 71%; unexercised: hdf5 '
        'I/O, DipolarChargeInfo / shift_charges, InitialStateBuilder, algorithm internals (see notes/C03.md, Coverage round)')
    return res


def search(ctx, reasons):
    cases = load_corpus() + cases_for(ctx, 'search', 600, 32)
    res = evaluate(ctx, cases, use_model=False)
    res.merge(c03_ext.search_ext(ctx, 400))
    return res


def replay(ctx, payload):
    if payload['case'].get('kind') == 'ext':
        return c03_ext.evaluate(ctx, [payload['case']])
    return evaluate(ctx, [payload['case']])
