"""Shared helpers of the C12 check: site specs, construction of the real tenpy sites, conversion of model
entries, dense helpers, the explicit Jordan-Wigner oracle (plain numpy kron, no tenpy operator tables)."""
import math
import warnings
from fractions import Fraction

import numpy as np

TOL = 1e-12


# ------------------------------------------------------------------------------------------------
# site specs  (JSON objects understood by lean/drivers/C12.lean, kind "site")

def frac(x):
    return Fraction(x).limit_denominator(1 << 20)


def spec_key(spec):
    return ','.join(f'{k}={spec[k]}' for k in sorted(spec))


def make_site(spec):
    """Build the real tenpy site for a spec."""
    from tenpy.networks import site as S
    cls = spec['cls']
    cons = spec.get('cons')
    with warnings.catch_warnings():
        warnings.simplefilter('ignore')
        if cls == 'spinHalf':
            return S.SpinHalfSite(cons, sort_charge=spec.get('sort', True))
        if cls == 'spin':
            return S.SpinSite(spec['twoS'] / 2., cons, sort_charge=spec.get('sort', True))
        fil = spec.get('filling', [0, 1])
        fil = fil[0] / fil[1]
        if cls == 'fermion':
            return S.FermionSite(cons, fil)
        if cls == 'shFermion':
            return S.SpinHalfFermionSite(spec.get('consN'), spec.get('consSz'), fil)
        if cls == 'shHole':
            return S.SpinHalfHoleSite(spec.get('consN'), spec.get('consSz'), fil)
        if cls == 'boson':
            return S.BosonSite(spec['nmax'], cons, fil)
        if cls == 'clock':
            return S.ClockSite(spec['q'], cons, sort_charge=spec.get('sort', True))
    raise ValueError(cls)


def driver_line(spec):
    d = dict(spec)
    d['k'] = 'site'
    return d


def all_site_specs(rng, quick=True):
    """Every class x parameter range x conservation option (x sort_charge where it is a parameter)."""
    smax, nmax, qmax = (6, 4, 5) if quick else (9, 7, 8)
    fillings = [[1, 2], [1, 1], [0, 1], [1, 4], [3, 4], [1, 8], [2, 1], [3, 2]]

    def fil():
        return list(rng.choice(fillings))

    specs = []
    for cons in ['Sz', 'parity', None]:
        for srt in (True, False):
            specs.append(dict(cls='spinHalf', cons=cons, sort=srt))
    for twoS in range(1, smax + 1):
        for cons in ['dipole', 'Sz', 'parity', None]:
            for srt in (True, False):
                specs.append(dict(cls='spin', twoS=twoS, cons=cons, sort=srt))
    for cons in ['N', 'parity', None]:
        for _ in range(2):
            specs.append(dict(cls='fermion', cons=cons, filling=fil()))
    for cls in ('shFermion', 'shHole'):
        for cN in ['N', 'parity', None]:
            for cS in ['Sz', 'parity', None]:
                specs.append(dict(cls=cls, consN=cN, consSz=cS, filling=fil()))
    for n in range(1, nmax + 1):
        for cons in ['dipole', 'N', 'parity', None]:
            specs.append(dict(cls='boson', nmax=n, cons=cons, filling=fil()))
    for q in range(2, qmax + 1):
        for cons in ['Z', None]:
            for srt in (True, False):
                specs.append(dict(cls='clock', q=q, cons=cons, sort=srt))
    return specs


# ------------------------------------------------------------------------------------------------
# model entries -> numbers

def _exact_sqrt(fr):
    n, d = fr.numerator, fr.denominator
    rn, rd = math.isqrt(n), math.isqrt(d)
    if rn * rn == n and rd * rd == d:
        return Fraction(rn, rd)
    return None


def entry_value(e, q=1):
    """-> (complex value, exact?)   e = 0 | [sgn, num, den, im] | {"w": [exponents]}"""
    if e == 0:
        return 0j, True
    if isinstance(e, dict):
        v = sum(np.exp(2j * np.pi * (k % q) / q) for k in e['w'])
        return complex(v), False
    sgn, num, den, im = e
    fr = Fraction(num, den)
    r = _exact_sqrt(fr)
    if r is not None:
        v, exact = sgn * float(r), (float(r) == r.numerator / r.denominator)
    else:
        v, exact = sgn * math.sqrt(fr.numerator / fr.denominator), False
    return (1j * v if im else complex(v)), exact


def model_matrix(m, q=1):
    d = len(m)
    out = np.zeros((d, d), complex)
    exact = np.ones((d, d), bool)
    for i in range(d):
        for j in range(d):
            out[i, j], exact[i, j] = entry_value(m[i][j], q)
    return out, exact


def mat_equal(impl, mod, exact):
    """exact comparison where the model value is exactly representable, 1e-14-relative otherwise"""
    if impl.shape != mod.shape:
        return False
    diff = np.abs(impl - mod)
    if np.any(diff[exact] != 0):
        return False
    return bool(np.all(diff[~exact] <= 4e-15 * np.maximum(1., np.abs(mod[~exact]))))


# ------------------------------------------------------------------------------------------------
# dense helpers

def unpermuted(site, name):
    """dense operator in the conserve=None basis order: orig[perm[a], perm[b]] = dense[a, b]"""
    dense = site.get_op(name).to_ndarray()
    perm = np.asarray(site.perm)
    out = np.zeros(dense.shape, dense.dtype)
    out[np.ix_(perm, perm)] = dense
    return out


def kron_all(ms):
    r = np.eye(1)
    for m in ms:
        r = np.kron(r, m)
    return r


# explicit Jordan-Wigner oracle -------------------------------------------------------------------
_c = np.array([[0., 1.], [0., 0.]])
_z = np.diag([1., -1.])
_i2 = np.eye(2)


def _spinful_local():
    """two modes (up, down) on one site, mode order up < down, basis reordered to (empty, up, down, full)"""
    cu = np.kron(_c, _i2)
    cd = np.kron(_z, _c)
    order = [0, 2, 1, 3]  # kron index = 2 n_up + n_down
    ix = np.ix_(order, order)
    return cu[ix], cd[ix], np.kron(_z, _z)[ix]


def std_local(site):
    """(dict of odd/even standard operators in the site's *current* basis, local JW sign matrix, dim).
    Built from scratch (mode operators c, parity Z), positioned by the site's state labels."""
    from tenpy.networks import site as S
    d = site.dim
    if isinstance(site, S.FermionSite):
        order = [site.state_labels['empty'], site.state_labels['full']]
        ops0 = {'C': _c, 'Cd': _c.T, 'N': _c.T @ _c, 'Id': _i2}
        jw0 = _z
    elif isinstance(site, (S.SpinHalfFermionSite, S.SpinHalfHoleSite)):
        cu, cd, jw0 = _spinful_local()
        labs = ['empty', 'up', 'down', 'full']
        if isinstance(site, S.SpinHalfHoleSite):
            labs = labs[:3]
            cu, cd, jw0 = cu[:3, :3], cd[:3, :3], jw0[:3, :3]
        order = [site.state_labels[l] for l in labs]
        ops0 = {'Cu': cu, 'Cdu': cu.T, 'Cd': cd, 'Cdd': cd.T, 'Nu': cu.T @ cu, 'Nd': cd.T @ cd,
                'Ntot': cu.T @ cu + cd.T @ cd, 'Id': np.eye(len(labs))}
    else:
        return {'Id': np.eye(d)}, np.eye(d), d
    inv = np.argsort(order)  # current index a holds standard state inv[a]
    ix = np.ix_(inv, inv)
    return {k: v[ix] for k, v in ops0.items()}, jw0[ix], d


class ChainOracle:
    """Dense fermionic operators on a chain by explicit kron: JW image of an odd local operator `o` on site i
    is  JW_0 x ... x JW_{i-1} x o x 1 x ... ;  even operators carry no string."""

    def __init__(self, sites):
        self.sites = sites
        self.L = len(sites)
        self.loc = [std_local(s) for s in sites]
        self.dims = [l[2] for l in self.loc]
        self.D = int(np.prod(self.dims))

    def local(self, i, word):
        ops, jw, d = self.loc[i]
        m = np.eye(d)
        odd = False
        for name in word.split():
            if name == 'JW':
                m = m @ jw
                continue
            m = m @ ops[name]
            if name in ODD_NAMES:
                odd = not odd
        return m, odd

    def image(self, i, word):
        m, odd = self.local(i, word)
        fac = [(self.loc[k][1] if odd else np.eye(self.dims[k])) for k in range(i)] + [m] + \
              [np.eye(self.dims[k]) for k in range(i + 1, self.L)]
        return kron_all(fac), odd

    def term(self, term):
        """ordered product of the images of [(word, i), ...]"""
        r = np.eye(self.D)
        parity = False
        for w, i in term:
            m, odd = self.image(i, w)
            r = r @ m
            parity ^= odd
        return r, parity


ODD_NAMES = {'C', 'Cd', 'Cu', 'Cdu', 'Cdd'}  # 'Cd' is odd on FermionSite and on the spinful sites alike


def fermionic_names(site):
    """(odd atomic names, even names) usable on this site, from the oracle's own table"""
    ops = std_local(site)[0]
    odd = sorted(n for n in ops if n in ODD_NAMES)
    even = sorted(n for n in ops if n not in ODD_NAMES)
    return odd, even


def dense_from_termlist(sites, terms, strengths):
    """TermList -> to_OnsiteTerms_CouplingTerms -> MPOGraph -> MPO -> ExactDiag dense matrix (kron order of the
    sites' current local bases)."""
    from tenpy.networks.terms import TermList
    from tenpy.networks.mpo import MPOGraph
    from tenpy.algorithms.exact_diag import ExactDiag
    with warnings.catch_warnings():
        warnings.simplefilter('ignore')
        tl = TermList([list(t) for t in terms], list(strengths))
        g = MPOGraph.from_term_list(tl, sites, 'finite')
        mpo = g.build_MPO()
        ed = ExactDiag.from_H_mpo(mpo)
        ed.build_full_H_from_mpo()
        H = ed.full_H.split_legs()
        L = len(sites)
        H = H.transpose(['p%d' % i for i in range(L)] + ['p%d*' % i for i in range(L)]).to_ndarray()
    D = int(np.prod([s.dim for s in sites]))
    return H.reshape(D, D)


def norm_name(s):
    return ' '.join(s.split())
