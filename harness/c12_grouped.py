"""C12, part `grouped`: GroupedSite / group_sites / kron / set_common_charges.

* GroupedSite of 2-3 heterogeneous sites x charge policy: every operator compared with the dense Kronecker
  product of the factors the Lean model names (JW of the sites to the left folded into fermionic operators),
  basis identified through the state labels; oracle: Kronecker products chosen by the *matrix* parity of the
  operator, anticommutation inside the group, hc pairs, charge rule, charge_to_JW_signs.
* terms on a chain of grouped sites -> MPO -> dense, compared with the explicit Jordan-Wigner oracle on the
  ungrouped chain.
* set_common_charges: new charges / perms / charge_to_JW_parity compared with the model; oracle: operators are
  physically unchanged, charge rule holds, labels still name the same states.
"""
import itertools
import warnings

import numpy as np

from vlib import core
from harness import c12_common as cc

TOL = 1e-12

POOL = [dict(cls='fermion', cons='N', filling=[1, 2]), dict(cls='fermion', cons='parity', filling=[1, 2]),
        dict(cls='fermion', cons=None, filling=[1, 2]),
        dict(cls='shFermion', consN='N', consSz='Sz', filling=[1, 1]), dict(cls='shFermion', consN=None, consSz=None, filling=[1, 1]),
        dict(cls='shFermion', consN='parity', consSz=None, filling=[1, 1]),
        dict(cls='shHole', consN='N', consSz='Sz', filling=[1, 1]), dict(cls='shHole', consN=None, consSz=None, filling=[1, 1]),
        dict(cls='spinHalf', cons='Sz'), dict(cls='spinHalf', cons='parity'), dict(cls='spinHalf', cons=None),
        dict(cls='spin', twoS=2, cons='Sz'), dict(cls='spin', twoS=3, cons='parity'),
        dict(cls='boson', nmax=1, cons='N', filling=[0, 1]), dict(cls='boson', nmax=2, cons='parity', filling=[1, 2]),
        dict(cls='boson', nmax=2, cons=None, filling=[0, 1]), dict(cls='clock', q=3, cons='Z'), dict(cls='clock', q=2, cons=None)]

DIMS = {'fermion': 2, 'shFermion': 4, 'shHole': 3, 'spinHalf': 2}


def spec_dim(s):
    return DIMS.get(s['cls']) or (s.get('twoS', 0) + 1 if s['cls'] == 'spin' else s.get('nmax', 0) + 1 if s['cls'] == 'boson' else s['q'])


def is_none(s):
    return s.get('cons') is None and s.get('consN') is None and s.get('consSz') is None


def gen_group(rng):
    n = rng.choice([2, 2, 3])
    policy = rng.choice(['same', 'drop', 'independent'])
    while True:
        specs = [dict(rng.choice(POOL)) for _ in range(n)]
        if int(np.prod([spec_dim(s) for s in specs])) <= 48 and any(s['cls'] in ('fermion', 'shFermion', 'shHole') for s in specs):
            break
    prep = None
    if policy == 'same':
        if all(is_none(s) for s in specs):
            prep = None
        else:
            prep = rng.choice(['same', 'same', 'independent'])
    labels = rng.choice([None, None, ['a', 'b', 'c'][:n]])
    return dict(specs=specs, policy=policy, prep=prep, labels=labels)


def primary_labels(site):
    """one label per basis state (the first one defined)"""
    out = [None] * site.dim
    for lab, k in site.state_labels.items():
        if out[k] is None:
            out[k] = lab
    return out


def basis_map(sites, labels, g):
    """P[kron index of (k0, k1, ...)] = index of that product state in the grouped site (through its labels)"""
    labs = [primary_labels(s) for s in sites]
    P = []
    for ks in itertools.product(*[range(s.dim) for s in sites]):
        name = ' '.join(labs[i][k] + '_' + labels[i] for i, k in enumerate(ks))
        P.append(g.state_labels[name])
    return np.array(P)


def to_grouped_basis(K, P):
    G = np.zeros(K.shape, complex)
    G[np.ix_(P, P)] = K
    return G


def build_sites(case):
    from tenpy.networks import site as S
    sites = [cc.make_site(s) for s in case['specs']]
    if case.get('prep'):
        with warnings.catch_warnings():
            warnings.simplefilter('ignore')
            S.set_common_charges(sites, case['prep'])
    return sites


def charge_rule_fails(site, tag):
    out = []
    chinfo = site.leg.chinfo
    q = site.leg.to_qflat() * site.leg.qconj
    for n in sorted(site.opnames):
        op = site.get_op(n)
        m = op.to_ndarray()
        for a, b in np.argwhere(np.abs(m) > 1e-14):
            if not np.array_equal(chinfo.make_valid(q[a] - q[b]), op.qtotal):
                out.append((f'{tag}.opcharge', f'{n}: entry ({a},{b}) connects {q[b]} -> {q[a]}, operator charge {op.qtotal}'))
                break
    return out


def check_group(res, case, lines, pend):
    from tenpy.networks import site as S
    full_case = {'part': 'grouped', **case}
    res.count('grouped.policy=' + case['policy'])
    res.count('grouped.n=%d' % len(case['specs']))
    try:
        sites = build_sites(case)
    except Exception as e:
        res.fail('property', 'grouped.prep.set_common_charges', f'{type(e).__name__}: {e}', full_case)
        return
    labels = case['labels'] or [str(i) for i in range(len(sites))]
    hetero = len({s.dim for s in sites}) > 1
    res.note_case(full_case, hetero)
    try:
        with warnings.catch_warnings():
            warnings.simplefilter('ignore')
            g = S.GroupedSite(sites, case['labels'], case['policy'])
            g.test_sanity()
    except Exception as e:
        res.fail('property', f'grouped.construction.{case["policy"]}',
                 f'GroupedSite({[cc.spec_key(s) for s in case["specs"]]}, charges={case["policy"]!r}) raised '
                 f'{type(e).__name__}: {e}', full_case)
        return
    n = len(sites)
    fails = []
    try:
        P = basis_map(sites, labels, g)
    except KeyError as e:
        res.fail('property', 'grouped.state_labels.missing', f'label {e} missing', full_case)
        return
    if sorted(P.tolist()) != list(range(g.dim)):
        res.fail('property', 'grouped.state_labels.bijection', f'labels map to indices {P.tolist()}', full_case)
        return
    D = {i: {nm: s.get_op(nm).to_ndarray().astype(complex) for nm in s.opnames} for i, s in enumerate(sites)}
    JW = [D[i]['JW'] for i in range(n)]
    Id = [np.eye(s.dim) for s in sites]
    G = {nm: g.get_op(nm).to_ndarray().astype(complex) for nm in g.opnames}

    # --- oracle: Kronecker product with the strings of the sites to the left for fermionic operators
    def is_odd(i, m):
        return np.abs(m).max() > 1e-14 and np.all(np.abs(JW[i] @ m + m @ JW[i]) <= TOL)

    if not np.all(np.abs(G['JW'] - to_grouped_basis(cc.kron_all(JW), P)) <= TOL):
        fails.append(('grouped.JW', 'JW of the grouped site is not the product of the JW of its sites'))
    expected_names = {'Id', 'JW'}
    odd_ops = []
    for i, s in enumerate(sites):
        for nm in sorted(s.opnames):
            if nm == 'Id':
                continue
            gname = nm + labels[i]
            expected_names.add(gname)
            if gname not in G:
                fails.append(('grouped.opnames', f'{gname} missing'))
                continue
            if nm in ('JW', 'JWu', 'JWd'):
                continue   # the sign operators themselves: convention, compared with the model only
            odd = is_odd(i, D[i][nm])
            K = cc.kron_all([JW[k] if odd else Id[k] for k in range(i)] + [D[i][nm]] + Id[i + 1:])
            if not np.all(np.abs(G[gname] - to_grouped_basis(K, P)) <= TOL):
                fails.append((f'grouped.kron.{"fermionic" if odd else "bosonic"}',
                              f'{gname} is not {"JW x ... x " if odd else "1 x ... x "}{nm} x 1 ... in the labelled basis'))
            if odd:
                odd_ops.append((i, nm, gname))
                if gname not in g.need_JW_string:
                    fails.append(('grouped.need_JW', f'{gname} is fermionic but not in need_JW_string'))
                if not np.all(np.abs(G['JW'] @ G[gname] + G[gname] @ G['JW']) <= TOL):
                    fails.append(('grouped.JW-anticommute', f'grouped JW does not anticommute with {gname}'))
            elif gname in g.need_JW_string:
                fails.append(('grouped.need_JW', f'{gname} is bosonic but in need_JW_string'))
    if set(G) != expected_names:
        fails.append(('grouped.opnames', f'operators {sorted(set(G) ^ expected_names)} unexpected/missing'))
    # anticommutation of fermionic operators of different sites inside the group
    for (i, a, ga), (j, b, gb) in itertools.combinations(odd_ops, 2):
        if i != j and not np.all(np.abs(G[ga] @ G[gb] + G[gb] @ G[ga]) <= TOL):
            fails.append(('grouped.CAR', f'{{{ga}, {gb}}} != 0'))
            break
    # hc pairs
    for a, b in sorted(g.hc_ops.items()):
        if a not in G or b not in G or not np.all(np.abs(G[a].conj().T - G[b]) <= TOL):
            fails.append(('grouped.hc', f'hc_ops[{a}] = {b} is not the conjugate transpose'))
            break
    for i, s in enumerate(sites):
        for nm, hc in s.hc_ops.items():
            if nm != 'Id' and g.hc_ops.get(nm + labels[i]) != hc + labels[i]:
                fails.append(('grouped.hc', f'hc of {nm + labels[i]} is {g.hc_ops.get(nm + labels[i])!r}'))
                break
    fails += charge_rule_fails(g, 'grouped')
    if getattr(g, 'charge_to_JW_parity', None) is not None:
        signs = g.charge_to_JW_signs(g.leg.to_qflat())
        if not np.all(np.abs(np.diag(signs) - G['JW']) <= TOL):
            fails.append(('grouped.charge_to_JW_signs', f'signs {signs.tolist()} vs JW {np.real(np.diag(G["JW"])).tolist()}'))
    # kron() of two/three operators
    try:
        if case['policy'] == 'same':
            names = [sorted(s.opnames)[(3 * k + 1) % len(s.opnames)] for k, s in enumerate(sites)]
            ops = [s.get_op(nm) for s, nm in zip(sites, names)]
            with warnings.catch_warnings():
                warnings.simplefilter('ignore')
                k1 = S.kron(*ops, group=False).to_ndarray()
                k2 = S.kron(*ops, group=True).split_legs().to_ndarray()
            ref = D[0][names[0]]
            for i in range(1, n):
                ref = np.multiply.outer(ref, D[i][names[i]])   # axes p0, p0*, p1, p1*, ...
            ref2 = ref.transpose(list(range(0, 2 * n, 2)) + list(range(1, 2 * n, 2)))  # p0, p1, .., p0*, p1*, ..
            if not (k1.shape == ref.shape and np.all(np.abs(k1 - ref) <= TOL)
                    and k2.shape == ref2.shape and np.all(np.abs(k2 - ref2) <= TOL)):
                fails.append(('grouped.kron-function', f'kron{tuple(names)} differs from the outer product'))
    except Exception as e:
        fails.append(('grouped.kron-function', f'{type(e).__name__}: {e}'))
    for sig, detail in fails[:3]:
        res.fail('property', sig, detail, full_case)

    # --- model: which factors
    subs = [[[nm, nm in s.need_JW_string, s.hc_ops.get(nm)] for nm in sorted(s.opnames)] for s in sites]
    lines.append({'k': 'grouped', 'subs': subs, 'labels': labels})
    pend.append(('grouped', full_case, dict(G=G, D=D, P=P, g_njw=sorted(g.need_JW_string), g_hc=dict(g.hc_ops), ok=not fails)))


def diff_grouped(ans, info):
    out = []
    G, D, P = info['G'], info['D'], info['P']
    names = [o[0] for o in ans['ops']]
    if sorted(names) != sorted(G):
        out.append(f'opnames impl {sorted(G)} model {sorted(names)}')
    for name, jw, hc, factors in ans['ops']:
        if name not in G:
            continue
        K = cc.kron_all([D[i][f] for i, f in enumerate(factors)])
        if not np.all(np.abs(G[name] - to_grouped_basis(K, P)) <= TOL):
            out.append(f'{name}: impl differs from kron{tuple(factors)}')
        if jw != (name in info['g_njw']):
            out.append(f'{name}: need_JW impl {name in info["g_njw"]} model {jw}')
        if hc != info['g_hc'].get(name):
            out.append(f'{name}: hc impl {info["g_hc"].get(name)} model {hc}')
    return out


# ------------------------------------------------------------------------------------------------
# terms on grouped chains

def check_grouped_chain(res, rng, quick):
    from tenpy.networks import site as S
    kind = rng.choice(['f-N', 'f-none', 'f-parity', 'mixed'])
    policy = rng.choice(['same', 'same', 'drop', 'independent'])
    n = rng.choice([2, 2, 3])
    if kind == 'mixed':
        specs = [dict(cls='fermion', cons=None, filling=[1, 2]), dict(cls='shFermion', consN=None, consSz=None, filling=[1, 1]),
                 dict(cls='spinHalf', cons=None), dict(cls='fermion', cons=None, filling=[1, 2])]
        rng.shuffle(specs)
        n = 2
    else:
        cons = {'f-N': 'N', 'f-none': None, 'f-parity': 'parity'}[kind]
        specs = [dict(cls='fermion', cons=cons, filling=[1, 2])] * (n * rng.choice([2, 2, 3]) if n == 2 else 6)
    case = {'part': 'grouped-chain', 'specs': specs, 'n': n, 'policy': policy}
    res.count('grouped-chain.policy=' + policy)
    sites = [cc.make_site(s) for s in specs]
    try:
        with warnings.catch_warnings():
            warnings.simplefilter('ignore')
            gs = S.group_sites(sites, n, charges=policy)
    except Exception as e:
        res.fail('property', f'grouped.construction.{policy}', f'group_sites raised {type(e).__name__}: {e}', case)
        return
    labels = [str(i) for i in range(n)]
    Ps = [basis_map(sites[k * n:(k + 1) * n], labels, g) for k, g in enumerate(gs)]
    # overall basis map: kron over groups
    Q = np.zeros(1, int)
    for P, g in zip(Ps, gs):
        Q = (Q[:, None] * g.dim + P[None, :]).reshape(-1)
    orc = cc.ChainOracle(sites)
    L = len(sites)
    ferm = [i for i in range(L) if cc.fermionic_names(sites[i])[0]]
    terms = []
    for _ in range(30 if quick else 300):
        k = rng.choice([2, 2, 4])
        terms.append([[rng.choice(cc.fermionic_names(sites[i])[0]), i] for i in (rng.choice(ferm) for _ in range(k))])
    for term in terms:
        c = dict(case, term=term)
        res.note_case(c, len({i // n for _, i in term}) >= 2)
        gterm = [(w + str(i % n), i // n) for w, i in term]
        ref, parity = orc.term(term)
        try:
            H = cc.dense_from_termlist(gs, [gterm], [1.0])
        except ValueError as e:
            H = None
        if parity:
            continue
        want = np.zeros(ref.shape, complex)
        want[np.ix_(Q, Q)] = ref
        if H is None or not np.all(np.abs(H - want) <= 1e-11):
            res.fail('property', 'grouped.chain.dense-vs-JW',
                     f'term {gterm} on grouped sites ({policy}) differs from the Jordan-Wigner product {term} of the ungrouped chain', c)


# ------------------------------------------------------------------------------------------------
# set_common_charges

def gen_scc(rng):
    n = rng.choice([2, 2, 3])
    specs = [dict(rng.choice(POOL)) for _ in range(n)]
    policy = rng.choice(['same', 'same', 'drop', 'independent', 'list', 'list'])
    case = dict(specs=specs, policy=policy, sort=rng.random() < 0.85, new_mod=None)
    if policy == 'list':
        sites = [cc.make_site(s) for s in specs]
        olds = [(s, i, int(site.leg.chinfo.mod[i])) for s, site in enumerate(sites) for i in range(site.leg.chinfo.qnumber)]
        if not olds:
            case['policy'] = 'drop'
            return case
        newc = []
        for _ in range(rng.randint(1, 3)):
            s0, i0, m0 = rng.choice(olds)
            comp = [o for o in olds if o[2] == m0]
            k = rng.randint(1, min(3, len(comp)))
            picks = rng.sample(comp, k)
            facs = [1, 1, -1, 2] if m0 == 1 else [1, 1, -1]   # negative factors with mod > 1: result must be reduced
            newc.append([[rng.choice(facs), s, i] for s, i, _ in picks])
        case['policy'] = newc
    return case


def check_scc(res, case, lines, pend):
    from tenpy.networks import site as S
    full_case = {'part': 'scc', **case}
    res.count('scc.policy=' + (case['policy'] if isinstance(case['policy'], str) else 'list'))
    res.count('scc.sort=%s' % case['sort'])
    sites = [cc.make_site(s) for s in case['specs']]
    before = [{nm: cc.unpermuted(s, nm) for nm in s.opnames} for s in sites]
    lab_before = [{lab: int(s.perm[k]) for lab, k in s.state_labels.items()} for s in sites]
    names = [list(s.leg.chinfo.names) for s in sites]
    mods = [[int(m) for m in s.leg.chinfo.mod] for s in sites]
    olds = [[[int(x) for x in row] for row in s.leg.to_qflat()] for s in sites]
    c2 = [None if getattr(s, 'charge_to_JW_parity', None) is None else [int(x) for x in s.charge_to_JW_parity] for s in sites]
    pol = case['policy']
    arg = pol if isinstance(pol, str) else [[tuple(t) for t in nc] for nc in pol]
    res.note_case(full_case, len({s['cls'] for s in case['specs']}) > 1)
    try:
        with warnings.catch_warnings():
            warnings.simplefilter('ignore')
            perms = S.set_common_charges(sites, arg, sort_charge=case['sort'])
        err = None
    except ValueError as e:
        perms, err = None, 'ValueError: ' + str(e).splitlines()[0][:120]
    except Exception as e:
        res.fail('property', 'scc.crash.' + ('sort_charge=False' if not case['sort'] else type(e).__name__),
                 f'set_common_charges(..., sort_charge={case["sort"]}) raised {type(e).__name__}: {e}', full_case)
        return
    line = {'k': 'scc', 'names': names, 'mods': mods, 'charges': olds, 'c2jw': c2, 'policy': pol}
    lines.append(line)
    if err:
        # oracle: a specification whose combined charges all have the same `mod` is valid and must be accepted
        if isinstance(pol, str):
            groups = {}
            for s_i, (ns, ms) in enumerate(zip(names, mods)):
                for nm, mm in zip(ns, ms):
                    groups.setdefault(nm if pol == 'same' else (s_i, nm), set()).add(mm)
            valid = all(len(v) == 1 for v in groups.values())
        else:
            valid = all(len({mods[t[1]][t[2]] for t in nc}) == 1 for nc in pol)
        if valid:
            res.fail('property', 'scc.valid-spec-rejected',
                     f'set_common_charges({[cc.spec_key(s) for s in case["specs"]]}, {pol}) raised {err}', full_case)
            lines.pop()
            return
        pend.append(('scc', full_case, dict(err=err)))
        return
    fails = []
    chinfo = sites[0].leg.chinfo
    for k, s in enumerate(sites):
        if s.leg.chinfo != chinfo:
            fails.append(('scc.chinfo', f'site {k} has a different ChargeInfo'))
        try:
            s.test_sanity()
        except Exception as e:
            fails.append(('scc.test_sanity', f'site {k}: {type(e).__name__}: {e}'))
        for nm in before[k]:
            if not np.array_equal(cc.unpermuted(s, nm), before[k][nm]):
                fails.append(('scc.operator-changed', f'site {k} operator {nm} is no longer the same physical operator'))
                break
        now = {lab: int(s.perm[i]) for lab, i in s.state_labels.items()}
        if now != lab_before[k]:
            fails.append(('scc.labels', f'site {k}: labels name other states: {now} before {lab_before[k]}'))
        fails += charge_rule_fails(s, 'scc')
        if case['sort']:
            keys = [tuple(r[::-1]) for r in s.leg.to_qflat().tolist()]
            if keys != sorted(keys):
                fails.append(('scc.sorted', f'site {k} charges not sorted'))
        if getattr(s, 'charge_to_JW_parity', None) is not None:
            signs = s.charge_to_JW_signs(s.leg.to_qflat())
            if not np.all(np.abs(signs - np.real(np.diag(s.JW.to_ndarray()))) <= TOL):
                fails.append(('scc.charge_to_JW_signs', f'site {k}: {signs.tolist()}'))
    for sig, detail in fails[:3]:
        res.fail('property', sig, detail, full_case)
    c2n = [None if getattr(s, 'charge_to_JW_parity', None) is None else [int(x) for x in s.charge_to_JW_parity] for s in sites]
    pend.append(('scc', full_case, dict(err=None, ok=not fails, sort=case['sort'],
                                        perms=None if perms is None else [[int(x) for x in p] for p in perms],
                                        charges=[[[int(x) for x in row] for row in s.leg.to_qflat()] for s in sites],
                                        mod=[int(m) for m in chinfo.mod], c2jw=c2n)))


def diff_scc(ans, info):
    if info.get('err'):
        return [] if 'err' in ans else [f'impl raised {info["err"]}, model {str(ans)[:200]}']
    if 'err' in ans:
        return [f'model {ans["err"]}, impl succeeded']
    out = []
    if ans['mod'] != info['mod']:
        out.append(f'mod impl {info["mod"]} model {ans["mod"]}')
    if info['sort']:
        if ans['perms'] != info['perms']:
            out.append(f'perms impl {info["perms"]} model {ans["perms"]}')
        if ans['charges'] != info['charges']:
            out.append(f'charges impl {info["charges"]} model {ans["charges"]}')
    else:
        # unsorted: the model's sorted charges are a permutation of the implementation's
        for a, b, p in zip(ans['charges'], info['charges'], ans['perms']):
            unsorted = [None] * len(p)
            for pos, src in enumerate(p):
                unsorted[src] = a[pos]
            if unsorted != b:
                out.append(f'charges (unsorted) impl {b} model {unsorted}')
    want = ans['c2jw']
    for x in info['c2jw']:
        if x != want:
            out.append(f'charge_to_JW_parity impl {info["c2jw"]} model {want}')
            break
    return out


# ------------------------------------------------------------------------------------------------
def run(ctx, use_model=True):
    res = core.Result()
    rng = ctx.sub_rng('grouped')
    lines, pend = [], []
    for case in [gen_group(rng) for _ in range(40 if ctx.quick else 600)]:
        check_group(res, case, lines, pend)
    for case in [gen_scc(rng) for _ in range(40 if ctx.quick else 600)]:
        check_scc(res, case, lines, pend)
    for _ in range(6 if ctx.quick else 60):
        check_grouped_chain(res, rng, ctx.quick)
    finish(res, lines, pend, use_model)
    return res


def finish(res, lines, pend, use_model=True):
    """run the model on the collected lines and diff"""
    if use_model and lines:
        answers = core.run_driver('C12', lines)
        for (what, case, info), ans in zip(pend, answers):
            res.traces_validated += 1
            if 'error' in ans:
                res.fail('correspondence', f'{what}.driver', str(ans)[:300], case)
                continue
            d = diff_grouped(ans, info) if what == 'grouped' else diff_scc(ans, info)
            if d and info.get('ok', True):
                res.fail('correspondence', f'{what}.model-vs-impl', '; '.join(d)[:1200], case)


def search(ctx):
    return run(ctx, use_model=False)
