"""C13 — variational ground-state search (DMRG / VUMPS) is sound and converges on small systems."""
import json
import multiprocessing as mp
import subprocess

from vlib import core
from harness import c13_lib as L
from harness import c13_api as API

PROP = 'C13'
MODEL_MODULES = ['TenpyModel.Util.J', 'TenpyModel.C13.PyList', 'TenpyModel.Gen.C13Schedule', 'TenpyModel.C13.Sweep']
PROPS_MODULES = ['TenpyModel.C13.Props', 'TenpyModel.C13.PropsRitz', 'TenpyModel.C13.Props2']
LEAN_MODULES = PROPS_MODULES
LEVEL = 'proof'
BUDGET = {'quick': 150, 'thorough': 2000}
RULE = ('models include genuinely complex Hermitian Hamiltonians (SpinChain with Dzyaloshinskii-Moriya coupling muJ and/or a field '
        'hy, FermionChain with complex hopping e^{i phi}); effh: OneSiteH/TwoSiteH.to_matrix vs matvec on basis vectors for combine '
        'True/False and both move directions on random complex MPS (also checked at every step of every finite run). '
        'dmrg: TFIChain / XXZChain / SpinChain (S=1/2, 1; conserve Sz, parity, None) / FermionChain (conserve N, parity) on '
        '3-8 (thorough 3-10) sites with random couplings from small sets, random product state of the sector, engine in '
        '{TwoSite, SingleSite}, mixer in {None, False, True, SubspaceExpansion, DensityMatrixMixer} with random amplitude / '
        'decay / disable_after, diag_method in {default, lanczos, ED_block, arpack}, chi_max in {1,2,3,4,8,16,100} (optionally a '
        'chi_list), max_sweeps 0-5, combine on/off, N_sweeps_check, lanczos_params. At every update of every run the tensor of mixed_svd that '
        'moves into the environment (U for update_LP, VH for update_RP) is checked to be an isometry. converge: two-site engine, mixer in '
        '{DensityMatrixMixer, SubspaceExpansion}, chi 200, 14 sweeps, half of the cases on a spin-1/2 chain whose flip-flop couplings '
        'have range 2 only (L = 4, 6, 8; start patterns uudd / uddu / duud / udud): the two-site update alone cannot leave the '
        'product state. api/mixer: Mixer.mix_and_decompose_2site (mix_left / mix_right / both) and mix_and_decompose_1site of both '
        'mixer classes at every bond of a random complex MPS, amplitude in {0.5, 0.1, 0.01}. The quick tier runs one case of every '
        'scenario kind first and stops at a wall-clock deadline (0.72 x budget); cases not finished are dropped and counted '
        '(extra.cases_dropped_at_deadline), a case is stopped after 45 s (thorough 400 s) and counted, never judged. '
        'idmrg / vumps: TFIChain on infinite unit cells of 1-4 sites. A run is non-trivial when it performed >= 2 '
        'sweeps on >= 4 sites; distinct by content hash.')
TRUSTED = ['Lean 4.33 kernel; axioms of every C13_* theorem within {propext, Classical.choice, Quot.sound}',
           'tools/gen_C13.py (AST of Sweep.get_sweep_schedule -> lean/TenpyModel/Gen/C13Schedule.lean, regenerated every run)',
           'hand-written model TenpyModel/C13/Sweep.lean tied to mps_common.Sweep / BaseEnvironment by this correspondence run '
           '(stored LP/RP index sets and ages after every step of every sweep)',
           'tenpy.algorithms.exact_diag.ExactDiag (dense eigh in the charge sector) as energy oracle; MPOEnvironment built from '
           'scratch as freshness oracle']
ASSUMPTIONS = ['tensors are abstracted to version counters in the model; that the environments handed to the effective '
               'Hamiltonian equal a contraction of the current tensors is re-checked numerically at every step of every '
               'finite run (tolerance 1e-9 relative)',
               'convergence to the exact ground state is test-level (two-site, mixer, untruncated, gap > 1e-3)']


ANCHOR_COVERAGE_NOTE = ('coverage round 2026-09-26 (quick case set, seed 0, in-process, compiled kernels; line coverage of the anchored '
                        'mechanisms): dmrg.py 72% -> 88%; mps_common.py Sweep/EffectiveH/Mixers (lines 60-2203) 74% -> 85%; '
                        'mpo.py MPOEnvironment + MPOTransferMatrix 59% -> 85%; vumps.py 94% (unchanged). Whole files incl. '
                        'branches: dmrg 69 -> 87%, mps_common 63 -> 73%, vumps 91%, mpo 44 -> 45% (the MPO class itself belongs to '
                        'C10/C11). See notes/C13.md, section Coverage round.')


def gen_cases(rng, n, quick):
    cases = []
    for i in range(n):
        r = rng.random()
        if r < 0.08:
            cases.append(L.gen_effh_case(rng))
        elif r < 0.22:
            cases.append(API.gen_case(rng, quick))
        elif r < 0.80:
            cases.append(L.gen_case(rng, quick=quick))
        elif r < 0.92:
            cases.append(L.gen_infinite_case(rng, 'idmrg'))
        else:
            cases.append(L.gen_infinite_case(rng, 'vumps'))
    return cases


def gen_front_block(rng, quick):
    """one case of every scenario kind; it runs first, so a wall-clock deadline never drops a kind"""
    front = [L.gen_effh_case(rng)]
    front += [API.gen_case(rng, quick, scenario=sc) for sc in sorted(set(API.SCENARIOS))]
    for part in ('dmrg', 'dmrg', 'converge', 'converge', 'long'):
        front.append(L.gen_case(rng, quick=quick, part=part))
    front += [L.gen_infinite_case(rng, 'idmrg'), L.gen_infinite_case(rng, 'idmrg'), L.gen_infinite_case(rng, 'vumps')]
    return front


class CaseTimeout(BaseException):     # (not an Exception: the oracles' own `except Exception` must not swallow it)
    pass


CASE_LIMIT_S = {'quick': 45, 'thorough': 400}
_LIMIT = [45]


def _init_worker(limit):
    """per-process limits: address space (a run whose bond dimension explodes must not take the machine down) and the
    per-case wall-clock limit used by `_eval`"""
    import resource
    _LIMIT[0] = limit
    try:
        resource.setrlimit(resource.RLIMIT_AS, (6 * 2 ** 30, 6 * 2 ** 30))
    except (ValueError, OSError):
        pass


def _alarm(signum, frame):
    raise CaseTimeout()


def _eval(case):
    import signal
    signal.signal(signal.SIGALRM, _alarm)
    signal.setitimer(signal.ITIMER_REAL, _LIMIT[0])
    try:
        if case['part'] in ('idmrg', 'vumps'):
            return L.run_infinite_case(case)
        if case['part'] == 'effh':
            return L.run_effh_case(case)
        if case['part'] == 'api':
            return API.run_api_case(case)
        return L.run_case(case)
    except CaseTimeout:
        return {'resource': f'case exceeded {_LIMIT[0]} s'}
    except MemoryError:
        return {'resource': 'case exceeded the address-space limit'}
    except Exception:  # noqa
        import traceback
        return {'harness_error': traceback.format_exc()[-1500:]}
    finally:
        signal.setitimer(signal.ITIMER_REAL, 0)


def _eval_pool(cases, procs, deadline, limit):
    """evaluate the cases in order on a pool; stop at the wall-clock `deadline` (absolute time, None = no deadline):
    cases that are not finished by then are dropped (None)"""
    import time
    outs = [None] * len(cases)
    if procs <= 1:
        _LIMIT[0] = limit        # (no address-space limit in the main process: the Lean driver is started from it)
        for i, c in enumerate(cases):
            if deadline is not None and time.time() > deadline:
                break
            outs[i] = _eval(c)
        return outs
    pool = mp.Pool(procs, initializer=_init_worker, initargs=(limit,))
    try:
        handles = [pool.apply_async(_eval, (c,)) for c in cases]
        for i, h in enumerate(handles):
            while True:
                left = None if deadline is None else deadline - time.time()
                if left is not None and left <= 0:
                    break
                try:
                    outs[i] = h.get(timeout=1.0 if left is None else max(0.05, min(1.0, left)))
                    break
                except mp.TimeoutError:
                    continue
            if deadline is not None and time.time() > deadline:
                break
        for i, h in enumerate(handles):     # whatever else is finished by now
            if outs[i] is None and h.ready():
                try:
                    outs[i] = h.get(timeout=0)
                except Exception:  # noqa
                    pass
    finally:
        pool.terminate()
        pool.join()
    return outs


def model_line(case, out):
    p = case['model']
    init = out['trace']['sweeps'][0]['start']     # environments at the start of the first sweep
    ageL = init[0][0][1] if init[0] else 0
    ageR = init[1][-1][1] if init[1] else 0
    return {'k': 'sweeps', 'L': p['L'], 'n': out['n'], 'finite': p['bc_MPS'] == 'finite',
            'nsweeps': len(out['trace']['sweeps']), 'ageL': int(ageL or 0), 'ageR': int(ageR or 0)}


def compare_trace(case, out, mod):
    """real bookkeeping (stored index sets + ages after every step) vs model"""
    if 'error' in mod:
        return 'trace.model-error', str(mod)
    steps_m = mod['steps']
    steps_r = [s for sw in out['trace']['sweeps'] for s in sw['steps']]
    if len(steps_m) != len(steps_r):
        return 'trace.number-of-steps', f'model {len(steps_m)} impl {len(steps_r)}'
    for k, (m, r) in enumerate(zip(steps_m, steps_r)):
        if (m['i0'], m['mr']) != (r['i0'], r['mr']):
            return 'trace.schedule', f'step {k}: model {(m["i0"], m["mr"])} impl {(r["i0"], r["mr"])}'
        if [x for x in m['lp']] != r['lp'] or [x for x in m['rp']] != r['rp']:
            return 'trace.stored-environments', (f'step {k} (i0={r["i0"]}, move_right={r["mr"]}, upd={r["upd"]}): model LP {m["lp"]} '
                                                 f'RP {m["rp"]}; impl LP {r["lp"]} RP {r["rp"]}')
    return None, None


def check_dmrg(case, out, res, fail):
    scale = out['scale']
    tolE = 1e-9 * scale
    if out['E'] < out['E0'] - 1e-10 * scale:
        fail('dmrg.E-below-exact-ground-state-energy', f'E={out["E"]!r} E0={out["E0"]!r}')
    canonical = out['norm_test'] < 1e-8
    if not canonical:
        sig = 'dmrg.result-not-canonical' + ('.mixer-active-at-end' if out['mixer_on_at_end'] else '')
        fail(sig, f'norm_test={out["norm_test"]:.2e} sweeps={out["sweeps_done"]} mixer_amp={out["mixer_amp"]:.1e}')
    if not out['S_1d'] or not out['forms_ok']:
        fail('dmrg.result-form-labels', f'S_1d={out["S_1d"]} forms_ok={out["forms_ok"]}')
    if canonical:
        if abs(out['norm'] - 1) > 1e-10 or abs(out['ov_self'] - 1) > 1e-8:
            fail('dmrg.result-not-normalised', f'norm={out["norm"]!r} <psi|psi>={out["ov_self"]!r}')
        if out['EH'] < out['E0'] - 1e-9 * scale:
            fail('dmrg.<H>-below-exact-ground-state-energy', f'<H>={out["EH"]!r} E0={out["E0"]!r}')
        # reported energy = energy before the last truncation; the state differs by at most the reported E_trunc
        # the energy change of a truncation is bounded by the discarded weight: |dE| <= 2 ||H|| sqrt(2 eps); an
        # "E_trunc" larger than that is not a truncation effect and does not excuse a mismatch
        # (a mixer that was active in the measured sweep perturbs the state on purpose: its contribution to
        # `E_trunc` is not a truncation effect and has no discarded weight, so the bound is only claimed without it)
        bound = 4 * scale * (2 * out['last_trunc_err']) ** 0.5
        if (not out.get('cleanup') and not out.get('mixer_amp_last_sweep')
                and out['last_E_trunc'] > bound + 1e-8 * scale):
            fail('dmrg.E_trunc-exceeds-what-the-discarded-weight-allows',
                 f'last max_E_trunc={out["last_E_trunc"]:.3e}, last max_trunc_err={out["last_trunc_err"]:.3e}, bound={bound:.3e}')
        tol = tolE + 1.5 * min(out['max_E_trunc'], max(bound, 0.0) + 1e-9 * scale) + 10 * out['mixer_amp'] * scale
        if abs(out['E'] - out['EH']) > tol:
            sig = 'dmrg.E-differs-from-<psi|H|psi>-beyond-reported-truncation'
            if out.get('cleanup'):
                sig += '.after-mixer_cleanup-with-matrix-S'
            fail(sig, f'E={out["E"]!r} <H>={out["EH"]!r} max_E_trunc={out["max_E_trunc"]:.2e} cleanup={out.get("cleanup")}')
    cl = out.get('cleanup')
    if cl and abs(cl['ov'] - 1) > 1e-8:
        fail('dmrg.mixer_cleanup-changes-the-state',
             f'|<before|after>|={cl["ov"]!r} <H> before={cl["EH_before"]!r} after={cl["EH_after"]!r}')
    if out['q1'] != out['q0'] and case['opts'].get('diag_method') != 'ED_all':
        fail('dmrg.total-charge-changed', f'{out["q0"]} -> {out["q1"]}')
    if out.get('effH_at'):
        fail('effH.to_matrix-differs-from-matvec',
             f'(sweep, i0, move_right, combine, class, relative deviation) = {out["effH_at"]}')
    if out.get('iso_at'):
        fail('dmrg.mixed_svd.tensor-moved-into-the-environment-is-not-an-isometry',
             f'(sweep, i0, move_right, update_LP_RP, tensor, mixer, |T^H T - 1|) = {out["iso_at"]}')
    if out.get('stale_at'):
        fail('dmrg.stale-environment-read', f'(sweep, i0, move_right, dLP, dRP) = {out["stale_at"]}')
    if case['part'] == 'converge':
        # test-level: untruncated two-site DMRG with a mixer ends in an exact eigenstate that is not above the lowest
        # eigenstate its start vector overlaps with
        if abs(out['E'] - out['E_near']) > 1e-8 * scale or out['E_near'] > out['E0_reach'] + 1e-8 * scale:
            fail('converge.energy-not-reached', f'E={out["E"]!r} nearest eigenvalue={out["E_near"]!r} lowest reachable='
                                                f'{out["E0_reach"]!r} sweeps={out["sweeps_done"]}')
        elif out['gap_near'] > 1e-3 and abs(out['ov_gs'] - 1) > 1e-6:
            fail('converge.state-not-reached', f'overlap with the eigenspace of {out["E_near"]!r}: {out["ov_gs"]!r}')


def check_infinite(case, out, fail):
    e0 = out['e0']
    if out.get('iso_at'):
        fail('dmrg.mixed_svd.tensor-moved-into-the-environment-is-not-an-isometry',
             f'(sweep, i0, move_right, update_LP_RP, tensor, mixer, |T^H T - 1|) = {out["iso_at"]}')
    if case['part'] == 'vumps':
        if out['E'] < e0 - 1e-8:
            fail('vumps.E-below-exact-energy-density', f'E={out["E"]!r} e0={e0!r}')
        if abs(out['E'] - e0) > 1e-6:
            fail('vumps.energy-not-reached', f'E={out["E"]!r} e0={e0!r} chi={out["chi"]} sweeps={out["sweeps_done"]}')
        if out['norm_test'] > 1e-6:
            fail('vumps.result-not-canonical', f'norm_test={out["norm_test"]:.2e}')
        tol = max(1e-9, 10 * out['norm_test'])
        if abs(out['E'] - out['E_bond']) > tol or abs(out['E'] - out['E_mpo']) > tol:
            fail('vumps.E-differs-from-expectation-values', f'E={out["E"]!r} bond={out["E_bond"]!r} mpo={out["E_mpo"]!r}')
    else:
        if out['norm_test'] < 1e-6 and out['E_bond'] < e0 - 1e-7:
            fail('idmrg.bond-energy-below-exact-energy-density', f'{out["E_bond"]!r} < {e0!r}')


def run_cases(ctx, cases, use_model=True, procs=8, deadline=None):
    res = core.Result()
    res.extra['anchor_coverage_note'] = ANCHOR_COVERAGE_NOTE
    outs = _eval_pool(cases, procs, deadline, CASE_LIMIT_S['quick' if ctx.quick else 'thorough'])
    dropped = sum(o is None for o in outs)
    res.extra['cases_generated'] = len(cases)
    res.extra['cases_dropped_at_deadline'] = dropped
    kept = [(c, o) for c, o in zip(cases, outs) if o is not None]
    cases, outs = [c for c, _ in kept], [o for _, o in kept]
    lines, owners = [], []
    for ci, (case, out) in enumerate(zip(cases, outs)):
        if 'trace' in out and 'raise' not in out and out['trace']['sweeps']:
            Lc = case['model']['L']
            st = out['trace']['sweeps'][0]['start']
            if [x[0] for x in st[0]] == [0] and [x[0] for x in st[1]] == [Lc - 1]:
                lines.append(model_line(case, out))
                owners.append(ci)
            else:
                res.count('trace.skipped-unexpected-initial-environments')
    mods = core.run_driver('C13', lines) if (use_model and lines) else []
    mod_of = dict(zip(owners, mods))
    for ci, (case, out) in enumerate(zip(cases, outs)):
        p = case['model']
        nontrivial = p['L'] >= 4 and out.get('sweeps_done', 0) >= 2
        res.note_case(case, nontrivial)
        res.count(f'part={case["part"]}')
        res.count(f'model={case["kind"]}.conserve={p.get("conserve", "Sz" if case["kind"] == "XXZ" else None)}')
        res.count(f'L={p["L"]}')
        res.count(f'engine={case["engine"]}')
        res.count(f'mixer={case["opts"].get("mixer")}')
        res.count('hamiltonian=' + ('complex' if any(k in p for k in ('muJ', 'hy')) or isinstance(p.get('J'), list) else 'real'))
        res.count(f'combine={bool(case["opts"].get("combine"))}')
        res.count(f'diag={case["opts"].get("diag_method")}')
        res.count(f'explicit_plus_hc={bool(p.get("explicit_plus_hc"))}')
        fails = []

        def fail(sig, detail):
            fails.append((sig, detail))
        if 'harness_error' in out:
            res.fail('correspondence', 'harness-exception', out['harness_error'], case)
            continue
        if 'resource' in out:      # not a verdict on the case
            res.count('case-stopped.' + out['resource'].replace(' ', '-'))
            continue
        if 'raise' in out:
            sig = f'{case["part"]}.run-raises'
            chi = case['opts'].get('trunc_params', {}).get('chi_max')
            chis = [chi] + list((case['opts'].get('chi_list') or {}).values())
            if out['raise'].startswith('ZeroDivisionError') and 1 in chis and case['opts'].get('mixer'):
                sig += '.ZeroDivisionError.mixer-with-chi_max=1'
            if out['raise'].startswith('AssertionError') and case['opts'].get('diag_method') == 'arpack' \
                    and 'npc_to_flat' in out.get('tb', ''):
                sig += '.arpack.zero-matvec-result'
            if out['raise'].startswith('AttributeError') and ('RHeff' in out['raise'] or 'LHeff' in out['raise']) \
                    and case['model'].get('explicit_plus_hc') and case['engine'] == 'SingleSiteDMRGEngine':
                sig = 'effH.adjoint-raises.OneSiteH.combine'
            if case['model'].get('explicit_plus_hc') and 'mix_and_decompose_1site' in out.get('tb', ''):
                sig = 'dmrg.run-raises.SubspaceExpansion-with-explicit_plus_hc'
            if out['raise'].startswith('ValueError: qtotal_LR must add up') and case['opts'].get('diag_method') == 'ED_all' \
                    and case['engine'] == 'SingleSiteDMRGEngine':
                sig = 'dmrg.run-raises.ED_all.single-site-with-two-site-mixer'
            if out['raise'].startswith('ArpackError') and case['opts'].get('diag_method') == 'arpack' \
                    and 'Starting vector is zero' in out['raise']:
                sig += '.arpack.starting-vector-zero'
            res.fail('property', sig, out['raise'] + '\n' + out.get('tb', ''), case)
            continue
        if case['part'] == 'api':
            res.count(f'api.{case["scenario"]}')
            for sig, detail in out.get('fails', []):
                fail(sig, detail)
        elif case['part'] in ('dmrg', 'converge'):
            check_dmrg(case, out, res, fail)
        elif case['part'] == 'effh':
            if out.get('effH_at'):
                fail('effH.to_matrix-differs-from-matvec', f'(class, i0, combine, move_right, |to_matrix - matvec|, '
                                                            f'|M - M^H|) = {out["effH_at"]}')
            res.count(f'effh.complex-environments={out.get("complex_env")}')
        else:
            check_infinite(case, out, fail)
        seen = set()
        for sig, detail in fails:
            if sig not in seen:
                seen.add(sig)
                res.fail('property', sig, detail, case)
        if ci in mod_of:
            res.traces_validated += 1
            sig, detail = compare_trace(case, out, mod_of[ci])
            if sig and not fails:
                res.fail('correspondence', sig, detail, case)
            # the model's own freshness verdict on the finite runs it mirrors
            if not sig and p['bc_MPS'] == 'finite':
                for m in mod_of[ci]['steps']:
                    if m['freshL'] != m['lenL'] or m['freshR'] != m['lenR']:
                        res.fail('correspondence', 'trace.model-reads-stale-environment', str(m), case)
                        break
    return res


def regenerate(ctx):
    p = subprocess.run(['/venv/bin/python', str(core.ROOT / 'tools' / 'gen_C13.py'), str(core.REPO)],
                       capture_output=True, text=True)
    if p.returncode != 0:
        return [f'get_sweep_schedule has a shape the translator does not know: {p.stdout.strip()[:300]} {p.stderr.strip()[-300:]}']
    return []


def load_corpus():
    cases = []
    d = core.CORPUS_DIR / 'C13'
    if d.exists():
        for f in sorted(d.glob('*.json')):
            c = json.loads(f.read_text())
            cases.append(c.get('case', c))
    return cases


def run(ctx):
    import time
    rng = ctx.sub_rng('cases')
    n = 170 if ctx.quick else 2400
    front = gen_front_block(ctx.sub_rng('front'), ctx.quick)
    cases = front + load_corpus() + gen_cases(rng, n - len(front), ctx.quick)
    # wall-clock deadline: the build/audit before and the model driver + evidence after need the rest of the budget
    deadline = ctx.t0 + ctx.budget_s * (0.72 if ctx.quick else 0.85)
    return run_cases(ctx, cases, use_model=True, procs=12 if ctx.quick else 16, deadline=max(deadline, time.time() + 20))


def search(ctx, reasons):
    import time
    rng = ctx.sub_rng('search')
    cases = gen_front_block(ctx.sub_rng('search-front'), ctx.quick) + load_corpus() + gen_cases(rng, 80 if ctx.quick else 3000, ctx.quick)
    return run_cases(ctx, cases, use_model=False, procs=16, deadline=time.time() + (60 if ctx.quick else 900))


def replay(ctx, payload):
    case = payload.get('case')
    if not case:
        return core.Result()
    return run_cases(ctx, [case], use_model=True, procs=1)
