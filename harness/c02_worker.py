"""Runs random HISTORIES of public Array operations on the real code (child process; kernel configuration from
the environment).  usage: python -m harness.c02_worker <cases.json> <out.json>

case = {seed, nsteps, [init, steps]}  (init/steps given = verbatim replay; otherwise generated adaptively and recorded)
result = {init, steps, trace: [{line, outs, status}], fails: [{what, detail, step, op, tag}], stats}
After EVERY step the model-free oracle (harness/c02_oracle.py) is applied to every live tensor; the history is then
re-run at optimisation level 3 (argument checks skipped) and the final dense tensors must be identical.
"""
import json
import random
import sys
import traceback
import warnings

import numpy as np

warnings.simplefilter('ignore')

from harness import c02_gen, c02_ops, c02_stepgen  # noqa: E402
from harness.c02_oracle import dump_arr, struct_of, oracle_arr, valid, classify  # noqa: E402

T = {}


def load_tenpy():
    import tenpy
    from tenpy.tools import optimization
    from tenpy.linalg import charges as ch
    from tenpy.linalg import np_conserved as npc
    from vlib import npcio
    optimization.set_level(0)
    T.update(tenpy=tenpy, opt=optimization, ch=ch, npc=npc, io=npcio)


def dense_of(a):
    try:
        if int(np.prod(a.shape, dtype=np.int64)) > 20000:
            return None
        return a.to_ndarray()
    except Exception:
        return None


SINGLE = (np.dtype('float32'), np.dtype('complex64'))


def same_dense(x, y, exact=True):
    """exact: entries are small integers / dyadic numbers (every history before its first factorization); after a
    factorization (LAPACK output) the comparison is relative to the largest entry"""
    if x is None or y is None:
        return True
    if x.shape != y.shape:
        return False
    X, Y = np.asarray(x, dtype=np.complex128), np.asarray(y, dtype=np.complex128)
    if exact:
        return np.array_equal(X, Y)
    if X.size == 0:
        return True
    if not (np.all(np.isfinite(X)) and np.all(np.isfinite(Y))):
        return True   # overflow (expm of a large matrix, ...): NaN/inf spread differently block-wise and densely
    eps = 1.e-3 if (x.dtype in SINGLE or y.dtype in SINGLE) else 1.e-8
    return bool(np.max(np.abs(X - Y)) <= eps * max(1.0, float(np.max(np.abs(X))), float(np.max(np.abs(Y)))))


def run_history(case, level=0, steps=None, record=True):
    """returns dict(init, steps, trace, fails, final={name: dense})"""
    io, npc, ch, opt = T['io'], T['npc'], T['ch'], T['opt']
    rng = random.Random(f"c02:{case['seed']}")
    init = case.get('init') or c02_gen.gen_init(rng)
    opt.set_level(0)
    env, pool = c02_gen.build_init(init, io, npc)
    Hh = c02_ops.H(env, pool, list(init['mods']), io, npc, ch, bool(opt.have_cython_functions))
    explicit = steps if steps is not None else case.get('steps')
    nsteps = len(explicit) if explicit is not None else case['nsteps']
    out_steps, trace, fails = [], [], []

    def fail(what, detail, k, st):
        fails.append(dict(what=what, detail=str(detail)[:600], step=k, op=st.get('op') if st else 'init',
                          tag=st.get('tag') if st else None))

    if level == 0:
        for n, t in env.items():
            o = oracle_arr(t)
            if o:
                fail('generator-invalid', f'{n}: {o}', -1, None)
                return dict(init=init, steps=[], trace=[], fails=fails, final={})
    opt.set_level(level)
    for k in range(nsteps):
        if explicit is not None:
            st = dict(explicit[k])
            if any(st.get(key) is not None and st[key] not in env for key in ('a', 'b')) or \
                    any(n not in env for n in st.get('arrs', [])):
                return dict(init=init, steps=out_steps, trace=trace, fails=fails, final={}, invalid=True)
            Hh.n = max(Hh.n, max([int(n[1:]) for n in env if n[0] == 't'] + [0]))
        else:
            st = c02_stepgen.gen_step(Hh, rng)
        if level != 0:
            if st.get('_status') != 'ok':
                # only the steps that succeeded with argument checks are repeated without them
                if st.get('drop') in env and len(env) > 1:
                    del env[st['drop']]
                continue
            try:
                line, run = c02_ops.prep(Hh, st)
                run()
            except Exception as e:
                opt.set_level(0)
                fail('level3-raised', f'{type(e).__name__}: {e}', k, st)
                break
            if st.get('drop') in env and len(env) > 1:
                del env[st['drop']]
            continue
        before = {n: struct_of(dump_arr(t, io)) for n, t in env.items()}
        before_ids = {n: id(t) for n, t in env.items()}
        rec = dict(line=None, outs={}, status='ok')
        info = None
        try:
            line, run = c02_ops.prep(Hh, st)
            late = getattr(line, 'resolve', None)
            rec['line'] = None if late else line
            info = run()
            if late:
                rec['line'] = late()   # model line that needs an object produced by the call itself
            if info.get('scalar'):
                rec['status'] = 'scalar'
            if info.get('cov'):
                rec['cov'] = info['cov']
        except Exception as e:
            rec['status'] = 'error'
            rec['err'] = io.err_class(e)
            rec['msg'] = f'{type(e).__name__}: {str(e)[:200]}'
            if st.get('out') in env and before_ids.get(st.get('out')) is None:
                del env[st['out']]
        st['_status'] = rec['status']
        out_steps.append(st)
        trace.append(rec)
        # ------------------------------------------------ oracle on EVERY live tensor
        touched = info['touched'] if info else set()
        bad = False
        for n, t in env.items():
            o = oracle_arr(t)
            if o:
                bad = True
                if rec['status'] == 'error':
                    fail('error-left-inconsistent', f'{rec.get("msg")}; {n}: {o}', k, st)
                elif n in touched:
                    fail('insane.' + classify(o), f'{n}: {o}', k, st)
                else:
                    fail('sibling-insane.' + classify(o), f'{n} (not an operand that is modified): {o}', k, st)
        if not bad:
            for n, t in env.items():
                if n in before and (n not in touched or rec['status'] == 'error'):
                    if struct_of(dump_arr(t, io)) != before[n]:
                        bad = True
                        fail('error-left-inconsistent' if rec['status'] == 'error' else 'frame',
                             f'{n} changed although it is not modified by this call', k, st)
        if rec['status'] == 'error' and st.get('valid') and not bad:
            fail('raised', f'{rec.get("msg")} although the operands are compatible (checked independently)', k, st)
            bad = True
        if st.get('expect') == 'error' and rec['status'] != 'error' and not bad:
            fail('accepted-invalid-argument', f'{st}', k, st)
            bad = True
        if info and not bad:
            for n, q in info['qt'].items():
                if q is not None and [int(x) for x in env[n].qtotal] != list(q):
                    bad = True
                    fail('qtotal', f'{n}: qtotal {[int(x) for x in env[n].qtotal]}, documented function gives {q}', k, st)
            for n, d in info['dense'].items():
                if d is not None and not same_dense(dense_of(env[n]), d, exact=not Hh.inexact):
                    bad = True
                    fail('dense', f'{n}: dense result differs from the numpy result', k, st)
            if info.get('contract') and not bad:
                bad = True
                fail('contract', '; '.join(info['contract']), k, st)
            if info.get('recon') and not bad and not info['recon'][0] <= info['recon'][1]:
                bad = True
                fail('recon', f'product of the factors differs from the matrix: max abs error {info["recon"][0]:.3e} '
                              f'(tolerance {info["recon"][1]:.1e})', k, st)
            for key, n in info['outs'].items():
                rec['outs'][key] = struct_of(dump_arr(env[n], io))
        if bad:
            break
        if st.get('drop') in env and len(env) > 1:
            del env[st['drop']]
    opt.set_level(0)
    final = {}
    if not fails:
        for n, t in env.items():
            if level != 0:
                o = oracle_arr(t)
                if o:
                    fail('level3-insane', f'{n}: {o}', len(out_steps), None)
            final[n] = dense_of(t)
    return dict(init=init, steps=out_steps, trace=trace, fails=fails, final=final, inexact=Hh.inexact)


def classify_unexpected_raise(case, res):
    """a step the generator meant to be valid raised: repeat it without argument checks (level 3) and, for the steps
    that have no model line (factorizations, ...), also at the default level 1, where the sanity checks of the result's
    own legs are skipped: an INCONSISTENT result there means the exception at level 0 came from the result failing its
    own sanity check (e.g. a stale `sorted` flag of a new leg) -> property failure. Steps with a model line are judged
    by the parent (model says valid + inconsistent result at level 3)."""
    for k, (st, rec) in enumerate(zip(res['steps'], res['trace'])):
        if rec['status'] != 'error' or st.get('expect') == 'error':
            continue
        steps = [dict(s) for s in res['steps'][:k + 1]]
        steps[-1]['_status'] = 'ok'
        c = dict(case, init=res['init'])
        r3 = run_history(c, level=3, steps=steps)
        rec['lvl3'] = [f['what'] + ': ' + f['detail'] for f in r3['fails']][:2]
        if rec.get('line') is not None or res['fails']:
            continue
        bad = [x for x in rec['lvl3'] if x.startswith('level3-insane')]
        if not bad:
            r1 = run_history(c, level=1, steps=steps)
            bad = [f['what'] + ': ' + f['detail'] for f in r1['fails'] if f['what'] == 'level3-insane']
        if bad:
            detail = bad[0].split(': ', 1)[1]
            res['fails'].append(dict(what='result-fails-own-sanity.' + classify([detail]), step=k, op=st.get('op'), tag=st.get('tag'),
                                     detail=f'raised {rec.get("msg")} at optimisation level 0; with the sanity checks '
                                            f'switched off the call returns: {detail}'))
            break


def run_case(case):
    res = run_history(case, level=0)
    if res.get('invalid'):
        return dict(invalid=True, init=res['init'], steps=res['steps'], trace=[], fails=[], stats={})
    classify_unexpected_raise(case, res)
    if not res['fails']:
        c = dict(case, init=res['init'])
        r3 = run_history(c, level=3, steps=res['steps'])
        for f in r3['fails']:
            res['fails'].append(f)
        if not r3['fails']:
            for n, d in res['final'].items():
                if n in r3['final'] and not same_dense(d, r3['final'][n], exact=not res.get('inexact')):
                    res['fails'].append(dict(what='level3-differs', step=len(res['steps']), op='history', tag=None,
                                             detail=f'{n}: dense result at optimisation level 3 differs from level 0'))
                    break
            if set(res['final']) != set(r3['final']):
                res['fails'].append(dict(what='level3-differs', step=len(res['steps']), op='history', tag=None,
                                         detail=f'live tensors {sorted(res["final"])} vs {sorted(r3["final"])}'))
    stats = dict(ops=[s['op'] for s in res['steps']], status=[r['status'] for r in res['trace']])
    if res['fails'] and case.get('shrink', True):
        res = shrink(case, res)
    return dict(init=res['init'], steps=res['steps'], trace=res['trace'], fails=res['fails'], stats=stats)


def sig_of(res):
    f = res['fails'][0]
    return (f['what'], f['op'], f.get('tag'))


def shrink(case, res):
    """cut the history after the failing step, then greedily drop earlier steps / initial tensors while the same
    failure (what, op) is still observed"""
    target = sig_of(res)
    kfail = res['fails'][0]['step']
    steps = [dict(s) for s in res['steps'][:kfail + 1]] if 0 <= kfail < len(res['steps']) else [dict(s) for s in res['steps']]
    best = res
    tries = 0
    i = len(steps) - 2
    while i >= 0 and tries < 40:
        trial = steps[:i] + steps[i + 1:]
        tries += 1
        c = dict(case, init=res['init'], steps=trial, shrink=False)
        try:
            r = run_case(c)
        except Exception:
            r = None
        if r and not r.get('invalid') and r['fails'] and sig_of(r) == target:
            steps = [dict(s) for s in r['steps'][:r['fails'][0]['step'] + 1]] if r['fails'][0]['step'] < len(r['steps']) else trial
            best = r
            i = min(i, len(steps) - 1)
        i -= 1
    return best


def main(inp, outp):
    load_tenpy()
    cases = json.load(open(inp))
    results = []
    for case in cases:
        try:
            results.append(run_case(case))
        except Exception:
            results.append({'crash': traceback.format_exc()[-2500:]})
    meta = dict(have_cython=bool(T['opt'].have_cython_functions), tenpy_file=T['tenpy'].__file__)
    json.dump(dict(meta=meta, results=results), open(outp, 'w'))


if __name__ == '__main__':
    main(sys.argv[1], sys.argv[2])
