"""C02 — charge rule and storage invariants are closed under every operation."""
import json

from vlib import core, twoconf

PROP = 'C02'
MODEL_MODULES = ['TenpyModel.Util.J', 'TenpyModel.Core.Codec', 'TenpyModel.C02.Struct']
PROPS_MODULES = ['TenpyModel.C02.Props', 'TenpyModel.C02.PropsSlice', 'TenpyModel.C02.PropsMerge',
                 'TenpyModel.C02.PropsCtor', 'TenpyModel.C02.PropsHistory', 'TenpyModel.C02.PropsPartial',
                 'TenpyModel.C02.Props2']
LEVEL = 'proof'
BUDGET = {'quick': 175, 'thorough': 1700}
RULE = ('random HISTORIES of public Array operations (<=10 steps quick, <=25 thorough; ~50 operations incl. in-place '
        'methods, shallow copies followed by in-place calls, element assignment, label-transposed additions, pipes, '
        'contractions, argument errors; plus FACTORIZATIONS svd (cutoff / qtotal_LR / inner_qconj) / qr / lq / pinv / eigh / '
        'eig / expm as oracle-only steps whose factors stay in the history, most of them inside multi-step plans '
        '[combine_legs to a matrix] -> itranspose/iswapaxes/transpose/permute (block list left unsorted) -> factorization '
        '-> isort_qdata / addition with a full tensor / contraction of the factors / split_legs on a factor) on 1-3 '
        'generated tensors sharing a pool of legs: 0-3 charges with mod 1..5, both '
        'qconj, blocked / sorted-with-duplicates / arbitrary legs, zero-size blocks (8%), missing blocks, stored all-zero '
        'blocks, rows in arbitrary order, qtotal != 0, dtypes float64/complex128/int64/float32/complex64, integer '
        'entries. After EVERY step a model-free oracle inspects every live tensor (test_sanity at level 0, recomputed '
        'lexsort / is_sorted / is_bunched / is_blocked vs flags, distinct rows, block shapes, dtypes, charge rule and '
        'documented qtotal function with python ints, dense result for additions/contractions; for factorizations the documented '
        'contract: legs of the factors, contractible inner legs, qtotals add up to qtotal, product of the factors); each history is re-run '
        'at optimisation level 3 and must give identical dense tensors (exact before the first factorization of a '
        'history, relative 1e-8 after it). Every step except factorizations / inner / advanced indexing is also evaluated by the Lean '
        'structure model on the real input structure and the stored rows (in stored order), flags, legs, pipes and '
        'qtotal are compared exactly; both kernel configurations. Non-trivial: >=3 successful steps and a tensor with '
        '>=2 stored blocks; distinct by content hash of (init, steps).')
TRUSTED = ['Lean 4.33 kernel; axioms of every C02_* theorem ⊆ {propext, Classical.choice, Quot.sound}',
           'hand-written structure model lean/TenpyModel/C02/Struct.lean (on top of Core/{Charge,Leg,Pipe}.lean) tied to '
           'np_conserved.py / _npc_helper.pyx by this run: exact comparison after every step, both kernels',
           'serialiser harness/c02_oracle.py:dump_arr, vlib/npcio.py; JSON codec lean/drivers/C02.lean',
           'numpy lexsort is stable (modelled by a stable insertion sort)']
ASSUMPTIONS = ['leg-level operations (sort, bunch, project, extend, LegPipe construction) produce sane legs / valid pipes: '
               'proved or checked under C06; the C02 theorems take `LegS.ok` of newly created legs as hypothesis and the '
               'run re-checks it (model WF of every observed state)',
               'int64 arithmetic does not overflow for the generated sizes']

ADD_OPS = {'iadd', 'add', 'sub', 'iadd_op', 'isub_op'}
FACT_OPS = {'svd', 'qr', 'lq', 'eigh', 'eig', 'expm', 'pinv', 'fact2', 'detect_leg', 'from_ndarray_opts', 'add_charge_gen', 'grid_outer'}
CORPUS = []


def load_corpus():
    out = []
    d = core.CORPUS_DIR / 'C02'
    if d.exists():
        for f in sorted(d.glob('*.json')):
            out.append(json.loads(f.read_text()))
    return out


def gen_cases(ctx, tag, n, nsteps):
    rng = ctx.sub_rng(tag)
    return [dict(seed=f'{ctx.seed}:{tag}:{i}:{rng.randrange(10 ** 9)}', nsteps=rng.randint(max(3, nsteps // 2), nsteps))
            for i in range(n)]


def sig_op(op):
    return 'iadd_prefactor_other' if op in ADD_OPS else op


def signature(f, suffix=''):
    s = f'c02.{sig_op(f["op"])}.{f["what"]}'
    if f.get('tag'):
        s += '.' + f['tag']
    return s + suffix


def minimal_case(case, r):
    return dict(seed=case['seed'], nsteps=case['nsteps'], init=r.get('init'), steps=r.get('steps'))


def first_diff(a, b, path=''):
    if type(a) != type(b):
        return f'{path}: {a!r} vs {b!r}'[:400]
    if isinstance(a, dict):
        for k in sorted(set(a) | set(b)):
            if a.get(k) != b.get(k):
                return first_diff(a.get(k), b.get(k), path + '.' + k)
    if isinstance(a, list):
        if len(a) != len(b):
            return f'{path}: len {len(a)} vs {len(b)}: {a!r} vs {b!r}'[:400]
        for i, (x, y) in enumerate(zip(a, b)):
            if x != y:
                return first_diff(x, y, f'{path}[{i}]')
    return f'{path}: {a!r} vs {b!r}'[:400]


def evaluate(ctx, cases, use_model=True, configs=('cy', 'py'), nproc=None):
    res = core.Result()
    nproc = nproc or (8 if ctx.quick else 15)
    runs = twoconf.run('harness.c02_worker', cases, configs=configs, nproc=min(nproc, max(1, len(cases))))
    # ---- model: one driver call for all steps of all cases and configurations
    lines, where = [], []
    if use_model:
        for cfg in configs:
            for ci, r in enumerate(runs[cfg]['results']):
                if not r or 'crash' in r:
                    continue
                nf = r['fails'][0]['step'] if r['fails'] else 10 ** 9
                for k, (st, rec) in enumerate(zip(r['steps'], r['trace'])):
                    if rec.get('line') is not None and st.get('expect') != 'error' and k < nf:
                        lines.append(rec['line'])
                        where.append((cfg, ci, k))
    models = core.run_driver('C02', lines) if lines else []
    mod_at = {w: m for w, m in zip(where, models)}
    for ci, case in enumerate(cases):
        per_cfg = {cfg: runs[cfg]['results'][ci] for cfg in configs}
        r0 = per_cfg[configs[0]]
        ok_steps = 0 if not r0 or 'crash' in r0 else sum(1 for t in r0['trace'] if t['status'] == 'ok')
        big = bool(r0 and 'crash' not in r0 and any(len(o.get('qdata', [])) >= 2 for t in r0['trace'] for o in t['outs'].values()))
        shown = dict(seed=case['seed'], nsteps=case['nsteps'],
                     ops=[s['op'] for s in r0['steps']] if r0 and 'crash' not in r0 else [])
        res.note_case(shown, nontrivial=ok_steps >= 3 and big)
        fsets = {}
        for cfg, r in per_cfg.items():
            if not r or 'crash' in r:
                res.fail('correspondence', 'c02.worker-crash', f'[{cfg}] {(r or {}).get("crash")}', case)
                continue
            if r.get('invalid'):
                res.fail('correspondence', 'c02.replay-invalid', f'[{cfg}] recorded steps do not apply', case)
                continue
            fsets[cfg] = {(f['op'], f['what'], f.get('tag')) for f in r['fails'][:1]}
        for cfg, r in per_cfg.items():
            if not r or 'crash' in r or r.get('invalid'):
                continue
            if cfg == configs[0]:
                for st, tr in zip(r['steps'], r['trace']):
                    res.count('op=' + st['op'])
                    res.count('status=' + tr['status'])
                    if tr.get('cov'):
                        res.count(f'{"svd" if st["op"] in ("svd", "pinv") else "other-factorization"}-input=' + tr['cov'])
                    if st.get('expect') == 'error':
                        res.count('malformed-step')
                res.count('steps=%d' % len(r['steps']))
                res.count('ncharges=%d' % len(r['init']['mods']))
                for t in r['init']['tensors']:
                    res.count('dtype=' + t['dtype'])
                    res.count('init-rank=%d' % len(t['legs']))
            for f in r['fails'][:1]:
                key = (f['op'], f['what'], f.get('tag'))
                suffix = ''   # (kernel-specific defect sites are told apart by the step tag, not by a suffix)
                if f['what'] == 'generator-invalid':
                    res.fail('correspondence', 'c02.generator-invalid', f['detail'], case)
                else:
                    res.fail('property', signature(f, suffix), f'[{cfg}] step {f["step"]}: {f["detail"]}',
                             minimal_case(case, r))
            if not use_model:
                continue
            nf = r['fails'][0]['step'] if r['fails'] else 10 ** 9
            for k, (st, rec) in enumerate(zip(r['steps'], r['trace'])):
                m = mod_at.get((cfg, ci, k))
                if m is None:
                    continue
                res.traces_validated += 1
                d = diff_step(st, rec, m)
                if d is None:
                    continue
                kind, sig, detail = d
                res.fail(kind, sig,
                         f'[{cfg}] step {k} {st["op"]}: {detail}',
                         minimal_case(case, dict(init=r['init'], steps=r['steps'][:k + 1])))
                break
        # the two runs must have produced the same history
        rs = [per_cfg[c] for c in configs if per_cfg[c] and 'crash' not in per_cfg[c]]
        if len(rs) == 2 and not rs[0]['fails'] and not rs[1]['fails']:
            s0 = [{k: v for k, v in s.items() if k != 'tag'} for s in rs[0]['steps']]
            s1 = [{k: v for k, v in s.items() if k != 'tag'} for s in rs[1]['steps']]
            # after the first factorization (LAPACK output, then kernel-specific summation order) value-dependent
            # structure (rank above a cutoff, purged blocks) may differ in the last bit: compare up to that step
            kf = [k for k, s in enumerate(s0) if s['op'] in FACT_OPS]
            # (the outcome of that factorization itself depends on the VALUES, which C02 does not compare between the
            # kernels: aliased blocks of shallow copies are zeroed in place by one kernel only - C03/C04's subject)
            if kf:
                s0, s1 = s0[:kf[0] + 1], s1[:kf[0] + 1]
                if len(s1) == len(s0):
                    s0[-1] = {k: v for k, v in s0[-1].items() if k != '_status'}
                    s1[-1] = {k: v for k, v in s1[-1].items() if k != '_status'}
            if s0 != s1:
                res.fail('correspondence', 'c02.kernels-diverge', first_diff(s0, s1, 'steps'), case)
    return res


def diff_step(st, rec, m):
    """model answer vs observed outcome of one step -> None | (kind, signature, detail)"""
    op = sig_op(st['op'])
    if 'error' in m or '_raw' in m:
        return ('correspondence', f'c02.model-vs-impl.{op}.driver-error', str(m)[:300])
    if not all(m.get('wf_in', [])):
        return ('correspondence', f'c02.model-vs-impl.{op}.model-WF-rejects-sane-input', str(m.get('wf_in')))
    mres = m.get('res')
    if rec['status'] == 'error':
        if mres is None:
            return None
        lv = rec.get('lvl3') or []
        if any(x.startswith('level3-insane') for x in lv):
            tag = ('.' + st['tag']) if st.get('tag') else ''
            return ('property', f'c02.{op}.raised{tag}',
                    f'raised {rec.get("msg")} on arguments the model accepts; without argument checks: {lv[:1]}')
        return ('correspondence', f'c02.model-vs-impl.{op}.impl-raised', f'impl raised {rec.get("msg")}, model returns a value')
    if mres is None:
        return ('correspondence', f'c02.model-vs-impl.{op}.model-error', 'model says the call raises, impl returned')
    if rec['status'] == 'scalar':
        return None if mres == 'scalar' else ('correspondence', f'c02.model-vs-impl.{op}.scalar', 'impl returned a scalar')
    if mres == 'scalar':
        return ('correspondence', f'c02.model-vs-impl.{op}.scalar', 'model returns a scalar')
    for key, obs in rec['outs'].items():
        exp = m.get(key)
        if key == 'b' and st.get('tag') == 'permuted-labels' and exp and obs:
            # `other` of a label-transposed addition: whether the ORIGINAL object gets lexsorted in place before the
            # transposed copy is made is not part of the repaired behaviour -> compare its rows as a set
            exp = dict(exp, qdata=sorted(exp['qdata']), sorted=None)
            obs = dict(obs, qdata=sorted(obs['qdata']), sorted=None)
        if st['op'] == 'split' and exp and obs:
            # legs of a nested pipe stay LegPipe objects in the code; the model's pipes hold plain legs
            exp = dict(exp, legs=[dict(l, pipe=None) for l in exp['legs']])
            obs = dict(obs, legs=[dict(l, pipe=None) for l in obs['legs']])
        if exp != obs:
            return ('correspondence', f'c02.model-vs-impl.{op}.{key}', first_diff(exp, obs, key))
    if rec['outs'] and not m.get('wf_res', True):
        return ('correspondence', f'c02.model-vs-impl.{op}.model-WF-rejects-sane-result', '')
    return None


def run(ctx):
    res = core.Result()
    corpus = load_corpus()
    if ctx.quick:
        cases = corpus + gen_cases(ctx, 'main', 1300, 10)
    else:
        cases = corpus + gen_cases(ctx, 'main', 7000, 10) + gen_cases(ctx, 'long', 4000, 25)
    done = 0
    for i in range(0, len(cases), 1500):   # batches keep the driver input (structure dumps of every step) small
        if not ctx.quick and ctx.elapsed() > ctx.budget_s:
            break
        batch = cases[i:i + 1500]
        res.merge(evaluate(ctx, batch))
        done += len(batch)
    res.extra['histories'] = done
    res.extra['anchor_coverage_note'] = (
        'coverage round 2026-09-26 (worker under coverage.py, TENPY_NO_CYTHON=1, the 1321 quick-tier histories of seed 0): '
        'line+branch coverage of tenpy/linalg/np_conserved.py 70% -> 90%, charges.py 61% -> 76%, together 68% -> 86%; '
        'unexercised remainder: hdf5 import/export and legacy __setstate__ (C17), LegPipe.map_incoming_flat (C06), dead '
        'code Array._bunch/_perm_qind, raise-branches of test_sanity, DipolarChargeInfo argument errors')
    res.extra['histories_planned'] = len(cases)
    return res


def search(ctx, reasons):
    cases = load_corpus() + gen_cases(ctx, 'search', 350 if ctx.quick else 6000, 12)
    return evaluate(ctx, cases, use_model=False)


def replay(ctx, payload):
    case = payload['case']
    case = dict(case, shrink=False)
    return evaluate(ctx, [case], nproc=1)
