"""C04 extension part: the paired low-level helpers called directly under both kernel configurations, and the
selection logic of tools/optimization.py, each against
  * the other configuration                      (the property itself: observational equivalence),
  * an independent oracle written here from the documented semantics (numpy / plain Python),
  * the Lean model of lean/TenpyModel/C04/Ext*.lean (drivers/C04.lean): the `cy` form for the compiled twin, the `py`
    form for the Python fallback.

Case = one JSON object {"op": ..., arguments}; generated from `ctx.sub_rng('ext')`; `(seed, index)` replays.
"""
import json

import numpy as np

from vlib import core, twoconf

WORKER = 'harness.c04_ext_worker'
QUICK_CASES = 900
THOROUGH_CASES = 9000

PAIRS = [['ChargeInfo', 'make_valid', 'ChargeInfo_make_valid'], ['ChargeInfo', 'check_valid', 'ChargeInfo_check_valid'],
         ['LegPipe', '_init_from_legs', 'LegPipe__init_from_legs'], ['charges', '_find_row_differences', '_find_row_differences'],
         ['charges', '_map_blocks', '_map_blocks'], ['charges', '_sliced_copy', '_sliced_copy'],
         ['charges', '_make_stride', '_make_stride'], ['Array', 'itranspose', 'Array_itranspose'],
         ['Array', 'iadd_prefactor_other', 'Array_iadd_prefactor_other'], ['Array', 'iscale_prefactor', 'Array_iscale_prefactor'],
         ['Array', '_imake_contiguous', 'Array__imake_contiguous'], ['np_conserved', '_combine_legs_worker', '_combine_legs_worker'],
         ['np_conserved', '_split_legs_worker', '_split_legs_worker'], ['np_conserved', '_inner_worker', '_inner_worker'],
         ['np_conserved', '_tensordot_transpose_axes', '_tensordot_transpose_axes'],
         ['np_conserved', '_tensordot_worker', '_tensordot_worker']]

I64MAX = 2 ** 63 - 1
I64MIN = -2 ** 63


# ------------------------------------------------------------------------------------------------------------------
# generators


def g_mods(rng):
    return [rng.choice([1, 1, 2, 3, 4, 5]) for _ in range(rng.choice([0, 1, 1, 2, 2, 3]))]


def g_charge(rng):
    r = rng.random()
    if r < 0.06:
        return rng.choice([I64MAX, I64MIN, I64MAX - 1, I64MIN + 1, 2 ** 62, -2 ** 62 - 1])
    if r < 0.5:
        return rng.randint(-12, -1)
    return rng.randint(0, 12)


def g_make_valid(rng):
    mods = g_mods(rng)
    q = len(mods)
    r = rng.random()
    via = 'direct' if rng.random() < 0.7 else 'array'
    if r < 0.05:
        arg = {'k': 'none'}
    elif r < 0.40:
        arg = {'k': 'd1', 'row': [g_charge(rng) for _ in range(q)], 'as': rng.choice(['list', 'ndarray'])}
    elif r < 0.75:
        L = rng.choice([0, 1, 2, 3, 4])
        arg = {'k': 'd2', 'ncols': q, 'rows': [[g_charge(rng) for _ in range(q)] for _ in range(L)],
               'as': rng.choice(['list', 'ndarray']) if L > 0 else 'ndarray'}
    else:  # malformed
        m = rng.random()
        if m < 0.35:
            n = rng.choice([k for k in range(0, 5) if k != q])
            arg = {'k': 'd1', 'row': [g_charge(rng) for _ in range(n)], 'as': rng.choice(['list', 'ndarray'])}
        elif m < 0.65:
            n = rng.choice([k for k in range(0, 5) if k != q])
            L = rng.choice([0, 1, 2])
            arg = {'k': 'd2', 'ncols': n, 'rows': [[g_charge(rng) for _ in range(n)] for _ in range(L)], 'as': 'ndarray'}
        elif m < 0.82:
            arg = {'k': 'd0', 'x': rng.randint(-3, 3)}
        else:
            arg = {'k': 'dn', 'ndim': rng.choice([3, 4])}
    if arg['k'] == 'd2' and arg['ncols'] == q:
        via = 'direct'          # a 2-d total charge is not an argument of the constructor
    return {'op': 'make_valid', 'mods': mods, 'arg': arg, 'via': via}


def g_check_valid(rng):
    mods = g_mods(rng)
    L = rng.choice([0, 1, 2, 3, 5])
    rows = []
    for _ in range(L):
        row = [rng.randint(-9, 9) if m == 1 else rng.randint(0, m - 1) for m in mods]
        if mods and rng.random() < 0.35:
            j = rng.randrange(len(mods))
            row[j] = rng.choice([-1, mods[j], mods[j] + 1, -mods[j], I64MIN, I64MAX])
        rows.append(row)
    return {'op': 'check_valid', 'mods': mods, 'rows': rows, 'layout': rng.choice(['C', 'C', 'F', 'strided'])}


def g_find_row_differences(rng):
    M = rng.choice([0, 1, 1, 2, 3])
    L = rng.choice([0, 1, 2, 3, 5, 8, 12])
    rows = []
    for _ in range(L):
        if rows and rng.random() < 0.5:
            rows.append(list(rows[-1]))
        elif rows and rng.random() < 0.4:   # differs in the LAST column only (the `break` of the compiled loop comes late)
            r = list(rows[-1])
            if M:
                r[-1] += 1
            rows.append(r)
        else:
            rows.append([rng.randint(-2, 2) for _ in range(M)])
    return {'op': 'find_row_differences', 'M': M, 'rows': rows, 'layout': rng.choice(['C', 'C', 'F', 'strided'])}


def g_map_blocks(rng):
    return {'op': 'map_blocks', 'sizes': [rng.choice([0, 1, 1, 2, 3, 5]) for _ in range(rng.choice([0, 1, 2, 3, 5, 8]))]}


def g_make_stride(rng):
    n = rng.choice([0] + [1, 2, 3, 4, 5, 6, 7] * 5)
    shape = [rng.choice([0, 1, 1, 2, 3, 4, 5, 7]) for _ in range(n)]
    return {'op': 'make_stride', 'shape': shape, 'cstyle': rng.choice([True, False, None]),
            'as': rng.choice(['list', 'tuple', 'ndarray']) if n else 'list'}


def g_sliced_copy(rng, max_size=360):
    if rng.random() < 0.03:
        # 0-dimensional arrays: OUTSIDE the helper's contract (tensors have rank >= 1). The twins are known to differ
        # there (compiled: `if ndim < 1: return`, Python: copies the scalar) and so do the two forms of the model
        # (theorem C04_slicedCopy_zero_dim_counterexample): only the tie of each twin to its own form is checked.
        return {'op': 'sliced_copy', 'dshape': [], 'dvals': [-1], 'sshape': [], 'svals': [rng.randint(1, 9)],
                'dbeg': rng.choice([None, []]), 'sbeg': rng.choice([None, []]), 'sl': [], 'dtype': rng.choice(['f8', 'c16', 'i8']),
                'offcontract': True}
    ndim = rng.choice([1, 2, 2, 3, 3, 4, 4, 5, 5, 6, 7])
    while True:
        sl = [rng.choice([0, 1, 1, 2, 2, 3]) if rng.random() < 0.97 else 4 for _ in range(ndim)]
        db = [rng.choice([0, 0, 1, 2]) for _ in range(ndim)]
        sb = [rng.choice([0, 0, 1, 2]) for _ in range(ndim)]
        use_db, use_sb = rng.random() < 0.7, rng.random() < 0.7
        if not use_db:
            db = [0] * ndim
        if not use_sb:
            sb = [0] * ndim
        dshape = [b + s + rng.choice([0, 0, 1]) for b, s in zip(db, sl)]
        sshape = [b + s + rng.choice([0, 0, 1]) for b, s in zip(sb, sl)]
        dshape = [max(1, x) if rng.random() < 0.9 else x for x in dshape]
        sshape = [max(1, x) if rng.random() < 0.9 else x for x in sshape]
        if int(np.prod(dshape)) <= max_size and int(np.prod(sshape)) <= max_size:
            break
    nd, ns = int(np.prod(dshape)), int(np.prod(sshape))
    return {'op': 'sliced_copy', 'dshape': dshape, 'dvals': [-(k + 1) for k in range(nd)],
            'sshape': sshape, 'svals': [k + 1 for k in range(ns)],
            'dbeg': db if use_db else None, 'sbeg': sb if use_sb else None, 'sl': sl,
            'dtype': rng.choice(['f8', 'c16', 'i8', 'f4', 'c8'])}


LEVEL_ARGS = [None, None, 0, 1, 2, 3, 4, -1, 7, '0', '1', '2', '3', ' 2 ', '+3', '0_1', '1_', '_1', 'safe', 'none', 'default',
              'skip_arg_checks', 'Safe', 'x', '', ' ', '4', '-1', '00', '1\n', '-0', '1__0', '\t3', '2.0', 'skip']


def g_prog(rng, depth):
    r = rng.random()
    if depth <= 0 or r < 0.15:
        return rng.choice([{'k': 'skip'}, {'k': 'probe', 'cmp': rng.randint(0, 3)}, {'k': 'set', 'a': rng.choice(LEVEL_ARGS)},
                           {'k': 'probe', 'cmp': rng.randint(0, 3)}, {'k': 'raise'} if rng.random() < 0.3 else {'k': 'probe', 'cmp': 1}])
    if r < 0.55:
        return {'k': 'seq', 'p': g_prog(rng, depth - 1), 'q': g_prog(rng, depth - 1)}
    if r < 0.85:
        return {'k': 'with', 'a': rng.choice(LEVEL_ARGS), 'body': g_prog(rng, depth - 1)}
    return {'k': 'set', 'a': rng.choice(LEVEL_ARGS)}


def g_level_prog(rng):
    return {'op': 'level_prog', 'level0': rng.randint(0, 3), 'prog': g_prog(rng, rng.choice([2, 3, 4, 5]))}


DOC_LINES = ['Create the strides.', 'Equivalent to numpy.', 'Parameters', 'shape : tuple', 'Returns', 'x', 'Take charges modulo mod.']
NAMES = ['f', 'g', 'Array_f', 'helper']
NO_CYTHON = ['', '', '', '0', '1', 'true', 'TRUE', 'Yes', 'y', 'Y', 'no', 'false', '2', 'yes ', 't', 'True', 'yEs', 'on']


def g_doc(rng):
    if rng.random() < 0.12:
        return None
    return [rng.choice(DOC_LINES) for _ in range(rng.choice([1, 2, 3]))]


def g_select(rng):
    calls = []
    n = rng.choice([1, 2, 3, 4, 6])
    if rng.random() < 0.3:
        calls.append({'set_level': rng.choice([0, 0, 'none', 1, 2, 5, 'bad'])})
    session_env = {'no_cython': rng.choice(NO_CYTHON), 'import_ok': rng.random() < 0.75}
    for _ in range(n):
        if rng.random() < 0.15:
            calls.append({'set_level': rng.choice([0, 1, 2, 3, None, 'safe', 9])})
            continue
        name = rng.choice(NAMES)
        doc = g_doc(rng)
        repl = None if rng.random() < 0.5 else rng.choice(NAMES)
        env = dict(session_env) if rng.random() < 0.7 else {'no_cython': rng.choice(NO_CYTHON), 'import_ok': rng.random() < 0.6}
        table = []
        for nm in rng.sample(NAMES, rng.choice([0, 1, 2, 3, 4])):
            r = rng.random()
            target = name if nm == (repl or name) else None
            if target is not None and doc is not None and r < 0.35:
                cdoc = list(doc)
            elif target is not None and doc is not None and r < 0.65:
                cdoc = [nm + '(a, b)'] + list(doc)        # embedsignature: first line = signature
            elif r < 0.75:
                cdoc = g_doc(rng)
            elif r < 0.85:
                cdoc = None
            else:
                cdoc = [rng.choice(DOC_LINES)]
            table.append([nm, cdoc])
        env['table'] = table
        calls.append({'env': env, 'name': name, 'doc': doc, 'replacement': repl, 'check_doc': rng.random() < 0.7,
                      'style': rng.choice(['plain', 'decorator-factory'])})
    return {'op': 'select', 'level0': rng.choice([0, 1, 1, 1, 2, 3]), 'calls': calls}


GENS = [(g_sliced_copy, 30), (g_make_valid, 18), (g_check_valid, 8), (g_find_row_differences, 10), (g_map_blocks, 5),
        (g_make_stride, 9), (g_level_prog, 9), (g_select, 11)]


def gen_cases(ctx, n, tag='ext'):
    rng = ctx.sub_rng(tag)
    fns = [g for g, w in GENS for _ in range(w)]
    cases = [{'op': 'real_selection', 'pairs': PAIRS}]
    for i in range(n):
        c = rng.choice(fns)(rng)
        c['id'] = f'{tag}-{i}'
        cases.append(c)
    return cases


# ------------------------------------------------------------------------------------------------------------------
# independent oracle (documented semantics, no tenpy, no model)


def pymod(x, m):
    return x if m == 1 else x % m            # Python's `%` = numpy's `np.mod` for a positive modulus


def oracle(case):
    """expected observation of `case` per the documentation, or None if the documentation does not fix it"""
    op = case['op']
    if op == 'make_valid':
        mods, arg = case['mods'], case['arg']
        q = len(mods)
        k = arg['k']
        if k == 'none':
            return {'d1': [0] * q}
        if k in ('d0', 'dn'):
            return {'err': 'ValueError'}       # "1D or 2D array of charges": as the compiled twin reports it
        if k == 'd1':
            if len(arg['row']) != q:
                return {'err': 'Assertion'}
            return {'d1': [pymod(x, m) for x, m in zip(arg['row'], mods)]}
        if arg['ncols'] != q:
            return {'err': 'Assertion'}
        return {'d2': [[pymod(x, m) for x, m in zip(r, mods)] for r in arg['rows']], 'ncols': q}
    if op == 'check_valid':
        return {'bool': all(m == 1 or 0 <= x < m for r in case['rows'] for x, m in zip(r, case['mods']))}
    if op == 'find_row_differences':
        rows = case['rows']
        return {'list': [0] + [i for i in range(1, len(rows)) if rows[i - 1] != rows[i]] + ([len(rows)] if rows else [])}
    if op == 'map_blocks':
        return {'list': [i for i, s in enumerate(case['sizes']) for _ in range(s)]}
    if op == 'make_stride':
        shape = case['shape']
        c = case.get('cstyle')
        c = True if c is None else c
        if c:
            return {'list': [int(np.prod(shape[a + 1:], dtype=object)) if a + 1 < len(shape) else 1 for a in range(len(shape))]}
        return {'list': [int(np.prod(shape[:a], dtype=object)) if a else 1 for a in range(len(shape))]}
    if op == 'sliced_copy':
        dest = np.array(case['dvals'], dtype=np.int64).reshape(case['dshape'])
        src = np.array(case['svals'], dtype=np.int64).reshape(case['sshape'])
        db = case['dbeg'] or [0] * dest.ndim
        sb = case['sbeg'] or [0] * dest.ndim
        dest[tuple(slice(i, i + d) for i, d in zip(db, case['sl']))] = src[tuple(slice(i, i + d) for i, d in zip(sb, case['sl']))]
        return {'vals': [int(x) for x in dest.reshape(-1)]}
    return None


def check_level_prog(case, r):
    """property-level facts about the real run of a level program"""
    bad = []
    for before, after, entered in r.get('withs', []):
        if before != after:
            bad.append(('temporary-level-not-restored', f'level {before} before the with block, {after} after it'))
    if not r.get('is_flag', True) or not 0 <= r.get('level', 0) <= 3:
        bad.append(('level-not-a-flag', f'level {r.get("level")}'))
    return bad


def check_select(case, r):
    bad = []
    res = r.get('results', [])
    kinds = {x['sel'] for x in res if 'sel' in x}
    if len(kinds) > 1:
        bad.append(('mixed-configuration', f'one session returned {sorted(kinds)}'))
    haves = [x.get('have_after') for x in res]
    if any(h is None for h in haves) or len(set(haves)) > 1:
        bad.append(('decision-changed', f'have_cython_functions over the session: {haves}'))
    decos = [c for c in case['calls'] if 'env' in c]
    if decos and decos[0]['env']['no_cython'].lower() in ('true', 'yes', 'y', '1'):
        if any(x.get('sel') != 'py' for x in res):
            bad.append(('no-cython-ignored', 'TENPY_NO_CYTHON set at the first decoration but a compiled object / an error came back'))
    if sum(1 for x in res if x.get('warned')) > 1:
        bad.append(('warned-twice', ''))
    return bad


# ------------------------------------------------------------------------------------------------------------------
# judge


def view(op, r):
    """the part of a real observation that is compared (dtype etc. are recorded only)"""
    if 'crash' in r:
        return {'crash': r['crash']}
    if op == 'level_prog' and 'log' in r:
        return {k: r[k] for k in ('level', 'err', 'log')}
    if 'err' in r:
        return {'err': r['err']}
    if op == 'make_valid':
        return {k: r[k] for k in ('d1', 'd2', 'ncols', 'other_ndim') if k in r}
    if op == 'sliced_copy':
        return {k: r[k] for k in ('vals', 'garbage') if k in r}
    if op == 'select':
        return {'level': r['level'], 'have': r['have'],
                'results': [{k: x[k] for k in ('sel', 'name', 'err', 'warned') if k in x} for x in r['results']]}
    return {k: r[k] for k in ('bool', 'list') if k in r}


def arg_kind(case):
    a = case['arg']
    q = len(case['mods'])
    if a['k'] == 'd0':
        return 'ndim0'
    if a['k'] == 'dn':
        return 'ndim3plus'
    if a['k'] == 'd1' and len(a['row']) != q:
        return 'wrong-qnumber'
    if a['k'] == 'd2' and a['ncols'] != q:
        return 'wrong-qnumber'
    return 'ok'


def short(v):
    return v['err'] if v.get('err') else 'crash' if 'crash' in v else 'value'


def family(case):
    """input families with a known argument-handling divergence (pending fixes): one signature per family AND observed
    pair of outcomes, so that any other behaviour on the same inputs is still reported as new"""
    op = case['op']
    if op == 'make_valid':
        k = arg_kind(case)
        if k != 'ok':
            return f'c04ext.make_valid.argcheck.{k}'
    if op == 'make_stride' and not case['shape']:
        return 'c04ext.make_stride.empty-shape'
    return None


def signature(case, what):
    return f'c04ext.{case["op"]}.{what}'


def slim(case):
    c = {k: v for k, v in case.items() if k != 'id'}
    return c


def judge(res, cases, runs, models):
    for i, case in enumerate(cases):
        op = case['op']
        rc, rp = runs['cy']['results'][i]['res'], runs['py']['results'][i]['res']
        if op == 'real_selection':
            res.note_case({'op': op}, nontrivial=True)
            ok_cy = rc.get('have') is True and all(p[2] for p in rc.get('pairs', [[0, 0, False]]))
            ok_py = rp.get('have') is False and not any(p[2] for p in rp.get('pairs', [[0, 0, True]]))
            if not (ok_cy and ok_py):
                res.fail('property', 'c04ext.real-selection', f'cy: {rc}  py: {rp}', slim(case))
            res.count('ext_real_selection_pairs=%d' % len(rc.get('pairs', [])))
            continue
        vc, vp = view(op, rc), view(op, rp)
        exp = oracle(case)
        nontrivial = ('err' not in vc or op == 'level_prog') and vc not in ({'list': []}, {'d1': []})
        res.note_case(slim(case) if len(json.dumps(case)) < 600 else {'op': op, 'id': case.get('id')}, nontrivial=nontrivial)
        res.count(f'ext_op={op}')
        res.count(f'ext_outcome={op}:' + ('error' if vc.get('err') else 'crash' if 'crash' in vc else 'value'))
        failed = False
        fam = family(case)
        if case.get('offcontract'):
            res.count(f'ext_offcontract={op}:' + ('kernels-differ' if vc != vp else 'kernels-agree'))
            exp = None
        elif fam is not None and (vc != vp or (exp is not None and (vc != exp or vp != exp))):
            res.fail('property', f'{fam}:cy={short(vc)},py={short(vp)}',
                     f'cy {json.dumps(vc)[:200]} vs py {json.dumps(vp)[:200]}; documented: {json.dumps(exp)[:200]}', slim(case))
            failed = True
        else:
            if vc != vp:
                res.fail('property', signature(case, 'kernels-differ'), f'cy {json.dumps(vc)[:300]} vs py {json.dumps(vp)[:300]}', slim(case))
                failed = True
            if exp is not None:
                for cfg, v in (('cy', vc), ('py', vp)):
                    if v != exp:
                        res.fail('property', signature(case, f'{cfg}-vs-documented'),
                                 f'[{cfg}] {json.dumps(v)[:300]} documented: {json.dumps(exp)[:300]}', slim(case))
                        failed = True
        for cfg, r in (('cy', rc), ('py', rp)):
            if op == 'make_valid' and (r.get('mutated') or r.get('aliased')):
                res.fail('property', f'c04ext.make_valid.{"mutates" if r.get("mutated") else "aliases"}-argument-in-{cfg}',
                         f'[{cfg}] make_valid wrote into / returned its argument', slim(case))
                failed = True
            if op == 'sliced_copy' and (r.get('src_changed') or r.get('returned_none') is False):
                res.fail('property', f'c04ext.sliced_copy.side-effect-in-{cfg}', str(r)[:200], slim(case))
                failed = True
            if op == 'level_prog' and 'err' in r and 'log' in r:
                for sig, detail in check_level_prog(case, r):
                    res.fail('property', f'c04ext.level_prog.{sig}', f'[{cfg}] {detail}', slim(case))
                    failed = True
            if op == 'select' and 'results' in r:
                for sig, detail in check_select(case, r):
                    res.fail('property', f'c04ext.select.{sig}', f'[{cfg}] {detail}', slim(case))
                    failed = True
            if r.get('dtype') and op in ('find_row_differences', 'map_blocks', 'make_stride', 'make_valid'):
                res.count(f'ext_dtype={op}:{r["dtype"]}')
        if failed or models is None:
            continue
        m = models[i]
        if m is None or 'error' in m:
            res.fail('correspondence', f'c04ext.model-error.{op}', str(m)[:300], slim(case))
            continue
        for cfg, v in (('cy', vc), ('py', vp)):
            mv = model_of(op, m, cfg)
            if mv != v:
                res.fail('correspondence', f'c04ext.model-vs-impl.{op}.{cfg}',
                         f'[{cfg}] impl {json.dumps(v)[:300]} model {json.dumps(mv)[:300]}', slim(case))
                break
        else:
            if 'core' in m and model_of(op, {'cy': m['core']}, 'cy') != vc:
                res.fail('correspondence', f'c04ext.core-vs-impl.{op}', f'impl {json.dumps(vc)[:300]} core {json.dumps(m["core"])[:300]}', slim(case))
            res.traces_validated += 1


def model_of(op, m, cfg):
    x = m[cfg]
    if op == 'make_valid':
        return x
    if op == 'check_valid':
        return {'bool': x}
    if op in ('find_row_differences', 'map_blocks', 'make_stride'):
        return {'list': x}
    if op == 'sliced_copy':
        return {'vals': x} if x is not None else {'outside-contract': True}
    if op == 'level_prog':
        return {'level': x['level'], 'err': x['err'], 'log': x['log']}
    if op == 'select':
        return {'level': x['level'], 'have': x['have'], 'results': x['results']}
    return x


def driver_line(case):
    c = {k: v for k, v in case.items() if k not in ('id', 'via', 'layout', 'dtype', 'as', 'offcontract')}
    if case['op'] == 'make_valid':
        c['arg'] = {k: v for k, v in case['arg'].items() if k != 'as'}
    if case['op'] == 'make_stride':
        c['cstyle'] = True if case.get('cstyle') is None else case['cstyle']
    if case['op'] == 'select':
        c['calls'] = [{k: v for k, v in call.items() if k != 'style'} for call in case['calls']]
    return c


def evaluate(ctx, cases, res=None, use_model=True):
    res = res if res is not None else core.Result()
    if not cases:
        return res
    nproc = 2 if ctx.quick else 6
    runs = twoconf.run(WORKER, cases, nproc=min(nproc, max(1, len(cases) // 40 + 1)))
    models = None
    if use_model:
        idx = [i for i, c in enumerate(cases) if c['op'] != 'real_selection']
        outs = core.run_driver('C04', [driver_line(cases[i]) for i in idx])
        models = [None] * len(cases)
        for i, o in zip(idx, outs):
            models[i] = o
    judge(res, cases, runs, models)
    return res


def corpus_cases():
    d = core.CORPUS_DIR / 'C04' / 'ext'
    out = []
    if d.exists():
        for f in sorted(d.glob('*.json')):
            c = json.loads(f.read_text())
            out.append(c.get('case', c))
    return out


def run_ext(ctx, use_model=True, tag='ext', n=None):
    n = n if n is not None else (QUICK_CASES if ctx.quick else THOROUGH_CASES)
    cases = corpus_cases() + gen_cases(ctx, n, tag)
    res = core.Result()
    chunk = 3000
    for k in range(0, len(cases), chunk):
        evaluate(ctx, cases[k:k + chunk], res=res, use_model=use_model)
    res.extra['ext_cases'] = len(cases)
    return res


def is_ext_case(case):
    return isinstance(case, dict) and 'op' in case and 'steps' not in case
