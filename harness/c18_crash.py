"""C18 part 1: crash safety of the real `Simulation.save_results` under fault injection, compared with the
Lean file-system model (`TenpyModel.C18.FS`) and judged by the independent oracle
"after every crash a loadable complete results file exists (once one save has completed)".

Phases per (format, parameters):
  reference   uninterrupted run with the recording injector: FS trace, one snapshot copy per save
              (fingerprints = what "complete with content c" means)
  first crash kill before FS step k for every k (hdf5 quick tier: every non-write step + a sample of the
              write steps), and inside write steps (byte prefixes / hdf5 flush / truncated file)
  second crash for one representative directory of every distinct first-crash state: resume from the newest
              loadable complete file and kill during start-up + first save of the resumed run
"""
import json
import multiprocessing
import os
import shutil
import tempfile

from vlib import core
from harness import c18_inject

STUB_PREFIX = b'simulation initialized'
FS_KINDS = ('exists', 'unlink', 'rename', 'create', 'write', 'close', 'stub')

SIG_SECOND = 'save_results.first-save-after-resume.unlinks-only-complete-file'
SIG_FIRST = 'save_results.crash-leaves-no-complete-file'
SIG_SECOND_OTHER = 'save_results.second-crash.no-complete-file'


def sim_params(n_steps, Jz, safe_write=True, L=4, chi=4):
    return dict(
        simulation_class='RealTimeEvolution',
        model_class='XXZChain',
        model_params=dict(L=L, bc_MPS='finite', Jxx=1.0, Jz=Jz, hz=0.0, sort_charge=True),
        initial_state_params=dict(method='lat_product_state', product_state=[['up'], ['down']]),
        algorithm_class='TEBDEngine',
        algorithm_params=dict(dt=0.0625, N_steps=1, order=2, trunc_params=dict(chi_max=chi, svd_min=1.0e-12)),
        final_time=0.0625 * n_steps,
        save_every_x_seconds=0.0,
        safe_write=safe_write,
        log_params=dict(to_stdout=None, to_file=None),
    )


# ------------------------------------------------------------------------------------------------
# observation


def fingerprint(res):
    if not isinstance(res, dict):
        return None
    m = res.get('measurements', {})
    try:
        ml = sorted((k, len(v)) for k, v in m.items())
        et = [round(float(x), 9) for x in m.get('evolved_time', [])]
    except Exception:
        return None
    rd = res.get('resume_data')
    return json.dumps([bool(res.get('finished_run')), sorted(map(str, res.keys())), ml, et,
                       sorted(rd.keys()) if isinstance(rd, dict) else None,
                       getattr(res.get('psi'), 'L', None)])


def _classify_file(path, refs):
    import warnings
    from tenpy.tools import hdf5_io
    if not os.path.exists(path):
        return None
    size = os.path.getsize(path)
    with open(path, 'rb') as f:
        head = f.read(len(STUB_PREFIX))
    if head == STUB_PREFIX:
        return ['other']
    try:
        with warnings.catch_warnings():
            warnings.simplefilter('ignore')
            res = hdf5_io.load(path)
        fp = fingerprint(res)
    except BaseException:
        return ['partial', size]
    if fp is not None and fp in refs:
        return ['complete', refs.index(fp) + 1]
    return ['partial', size]


def classify_file(path, refs):
    """None | ['complete', c] | ['partial', size] | ['other'].  HDF5 files are opened in a forked child: a
    damaged file must not be able to take the worker down."""
    if not (path.endswith('.h5') or path.endswith('.hdf5')) or not os.path.exists(path):
        return _classify_file(path, refs)
    r, w = os.pipe()
    pid = os.fork()
    if pid == 0:
        code = 1
        try:
            os.close(r)
            os.write(w, json.dumps(_classify_file(path, refs)).encode())
            code = 0
        finally:
            os._exit(code)
    os.close(w)
    data = b''
    while True:
        b = os.read(r, 65536)
        if not b:
            break
        data += b
    os.close(r)
    os.waitpid(pid, 0)
    try:
        return json.loads(data.decode())
    except Exception:
        return ['partial', os.path.getsize(path)]


def classify_dir(d, out, refs):
    bk = c18_inject.backup_name(out)
    st = {'out': classify_file(os.path.join(d, out), refs), 'backup': classify_file(os.path.join(d, bk), refs)}
    extra = sorted(x for x in os.listdir(d) if x not in (out, bk) and not x.endswith('.log'))
    return st, extra


def fs_ops(trace):
    return [e for e in trace if e[0] in FS_KINDS]


def split_trace(trace):
    """-> (start-up ops, [ops of save 1, ops of save 2, ...])"""
    startup, saves, cur = [], [], None
    for e in trace:
        if e[0] == 'save_begin':
            cur = []
            saves.append(cur)
        elif e[0] == 'save_end':
            cur = None
        elif e[0] in FS_KINDS:
            if cur is not None:
                cur.append(e)
            elif not saves:
                startup.append(e)
            else:
                saves[-1].append(e)
    return startup, saves


def chunks_of(save_ops):
    return [e[2] for e in save_ops if e[0] == 'write' and len(e) == 3]


def state_sig(st, ids=True):
    def s(v):
        if v is None:
            return 'absent'
        return v[0] + (str(v[1]) if (ids and v[0] == 'complete') else '')
    return s(st['out']) + '|' + s(st['backup'])


# ------------------------------------------------------------------------------------------------
# one case in a worker


def run_case(job):
    """Fresh run (crash1) in a new directory, or — with `seed_dir` — a resumed run (crash2) in a copy of a
    crashed directory.  Returns traces, exit codes and the classified directory."""
    base = job['base']
    d = tempfile.mkdtemp(prefix='case-', dir=base)
    res = {'job': {k: job.get(k) for k in ('fmt', 'crash1', 'crash2', 'tag')}, 'dir': d}
    keep = job.get('keep', False)
    try:
        out = job['out']
        if job.get('seed_dir') is None:
            if job.get('prefill_dir') is not None:
                shutil.rmtree(d)
                shutil.copytree(job['prefill_dir'], d)
            spec = dict(mode='fresh', dir=d, out=out, params=job['params'], trace=d + '.trace', crash=job['crash1'],
                        snapshot_dir=job.get('snapshot_dir'))
            code, trace = c18_inject.run_scenario(spec)
            res['code1'], res['trace1'] = code, trace
            if job.get('refs') is not None:
                res['state1'], res['extra1'] = classify_dir(d, out, job['refs'])
                res['logs1'] = sorted((x, open(os.path.join(d, x)).read()) for x in os.listdir(d) if x.endswith('.log'))
            return res
        shutil.rmtree(d)
        shutil.copytree(job['seed_dir'], d)
        which, c = job['resume_from']
        fname = out if which == 'out' else c18_inject.backup_name(out)
        spec2 = dict(mode='resume', dir=d, out=out, trace=d + '.trace2', crash=job['crash2'], resume_from=fname)
        code2, trace2 = c18_inject.run_scenario(spec2)
        res['code2'], res['trace2'] = code2, trace2
        res['state2'], res['extra2'] = classify_dir(d, out, job['refs'])
        return res
    finally:
        if not keep:
            shutil.rmtree(d, ignore_errors=True)
        for suf in ('.trace', '.trace2'):
            if os.path.exists(d + suf):
                os.unlink(d + suf)


# ------------------------------------------------------------------------------------------------
# model side


def model_file(v):
    """observed classification -> model file JSON (content of a partial file unknown: 0)"""
    if v is None:
        return None
    if v[0] == 'complete':
        return ['complete', v[1]]
    if v[0] == 'other':
        return ['other']
    return ['partial', 0, v[1]]


def canon_ev(e):
    if e[0] == 'exists':
        return ['exists', e[1], bool(e[2])]
    if e[0] == 'rename':
        return ['rename', e[1], e[2]]
    if e[0] == 'write':
        return ['write', e[1], e[2]]
    return [e[0], e[1]]


def model_saves(ref_chunks, ops, cp, first_content=1):
    """Chunk lists for the model.  Sizes of writes that happened are the observed ones (pickle sizes vary by a
    few bytes between processes), the others are those of the reference run.  If the crash is inside a write
    step (the trace then ends with ['write', name, n, 'partial', ...]) the chunk that was cut is what reached
    the disk and counts as one more (the last) step."""
    saves = [[first_content + i, list(ch)] for i, ch in enumerate(ref_chunks)]
    s, j = -1, 0
    for e in ops:
        if e[0] == 'create':
            s, j = s + 1, 0
        elif e[0] == 'write' and 0 <= s < len(saves):
            ch = saves[s][1]
            if len(e) > 3:
                saves[s][1] = ch[:j] + [e[2]] + ch[j:]
            elif j < len(ch):
                ch[j] = e[2]
            else:
                ch.append(e[2])
            j += 1
    return saves, (None if cp is None else len(ops))


def same_class(obs, mod, fmt, last_ev):
    if obs is None or mod is None:
        return obs is None and mod is None
    if obs[0] == 'complete' and mod[0] == 'partial':
        # all bytes are on disk, the file was just not closed yet: it loads.  Only at the last write.
        return last_ev is not None and last_ev[0] == 'write' and len(last_ev) == 3
    if obs[0] != mod[0]:
        return False
    if obs[0] == 'complete':
        return obs[1] == mod[1]
    if obs[0] == 'partial' and fmt == 'pkl':
        return obs[1] == mod[2]
    return True


def compare_model(res, case, fmt, ops, st, mo):
    if 'error' in mo or '_raw' in mo:
        res.fail('correspondence', 'crash.model-error', repr(mo)[:300], case)
        return
    obs_tr = [canon_ev(e) for e in ops]
    mod_tr = mo['trace']
    if obs_tr != mod_tr:
        i = next((j for j, (a, b) in enumerate(zip(obs_tr, mod_tr)) if a != b), min(len(obs_tr), len(mod_tr)))
        res.fail('correspondence', 'crash.trace-differs',
                 'step %d: real %r model %r (real %d steps, model %d)' %
                 (i, obs_tr[i:i + 2], mod_tr[i:i + 2], len(obs_tr), len(mod_tr)), case)
        return
    mfs = mo['fs']
    last = ops[-1] if ops else None
    for n in ('out', 'backup'):
        if not same_class(st[n], mfs.get(n), fmt, last if (last is not None and last[1] == n) else None):
            res.fail('correspondence', 'crash.final-state-differs',
                     '%s: real %r model %r (all: real %r model %r)' % (n, st[n], mfs.get(n), st, mfs), case)
            return


# ------------------------------------------------------------------------------------------------


def rand_frac(rng):
    return rng.choice([0.0, 0.999999, rng.randrange(1, 64) / 64.0, rng.randrange(1, 1024) / 1024.0])


def plan_crash_points(ref_ops, fmt, rng, n_inside, n_wsteps):
    """Step indices k (= kill before step k) and crashes inside write steps."""
    N = len(ref_ops)
    w_idx = [i for i, e in enumerate(ref_ops) if e[0] == 'write']
    c_idx = [i for i, e in enumerate(ref_ops) if e[0] == 'close']
    steps = list(range(N))
    if n_wsteps is not None and len(w_idx) > n_wsteps:
        # keep every step that is not in the interior of a write loop, sample the interior
        interior = [i for i in w_idx if i - 1 in w_idx]
        keep = set(steps) - set(interior)
        keep |= set(rng.sample(interior, min(len(interior), n_wsteps)))
        steps = sorted(keep)
    pts = [[k, None] for k in steps]
    inside = []
    for _ in range(n_inside):
        if fmt == 'pkl':
            inside.append([rng.choice(w_idx), rand_frac(rng)])
        elif rng.random() < 0.5:
            inside.append([rng.choice(w_idx), 'flush'])
        else:
            inside.append([rng.choice(c_idx), rand_frac(rng)])
    return pts, inside


def check_part(ctx, res, pool, base, fmt, n_steps, Jz, rng, n_inside, n_wsteps, n_second, second_classes=None,
               use_model=True, safe_write=True, only=None):
    """`only` = {'crash1': .., 'crash2': ..}: replay of exactly that case."""
    out = 'a.pkl' if fmt == 'pkl' else 'a.h5'
    params = sim_params(n_steps, Jz, safe_write)
    tagbase = dict(fmt=fmt, n_steps=n_steps, Jz=Jz, safe_write=safe_write)
    # ---- reference run (no crash): trace + snapshots of every save
    snapdir = tempfile.mkdtemp(prefix='snap-', dir=base)
    ref = run_case(dict(base=base, fmt=fmt, params=params, out=out, refs=None, crash1=None, crash2=None,
                        tag='ref', snapshot_dir=snapdir))
    if ref['code1'] != 0:
        raise RuntimeError('reference run failed: %r' % (ref['trace1'][-3:],))
    from tenpy.tools import hdf5_io
    ext = os.path.splitext(out)[1]
    n_saves = sum(1 for e in ref['trace1'] if e[0] == 'save_end')
    refs = [fingerprint(hdf5_io.load(os.path.join(snapdir, 'snap%d%s' % (i + 1, ext)))) for i in range(n_saves)]
    if len(set(refs)) != len(refs) or None in refs:
        raise RuntimeError('reference snapshots are not distinguishable: %r' % (refs,))
    ref_ops = fs_ops(ref['trace1'])
    _, save_ops = split_trace(ref['trace1'])
    ref_chunks = [chunks_of(s) for s in save_ops]
    res.extra.setdefault('fs_steps', {})['%s/%d/safe=%s' % (fmt, n_steps, safe_write)] = len(ref_ops)

    pts, inside = plan_crash_points(ref_ops, fmt, rng, n_inside, n_wsteps)
    if only is not None:
        pts, inside = ([only['crash1']] if only.get('crash1') is not None else []), []
    jobs = [dict(base=base, fmt=fmt, params=params, out=out, refs=refs, crash1=cp, crash2=None, tag='first',
                 keep=True) for cp in pts + inside + [None]]
    results = pool.map(run_case, jobs)

    model_in, model_meta = [], []
    first_states = {}
    for r in results:
        cp = r['job']['crash1']
        case = dict(part='crash', **tagbase, crash1=cp)
        ops = fs_ops(r['trace1'])
        st = r['state1']
        n_closed = sum(1 for e in ops if e[0] == 'close')
        err = [e for e in r['trace1'] if e[0] == 'error']
        expected_code = 0 if cp is None else c18_inject.EXIT_CRASH
        inside_write = cp is not None and cp[1] is not None
        res.note_case(case, nontrivial=(n_closed >= 1 and cp is not None))
        res.count('crash.fmt=' + fmt)
        res.count('crash.kind=' + ('none' if cp is None else ('inside-write' if inside_write else 'step')))
        res.count('crash.state=' + state_sig(st, ids=False))
        if err or r['code1'] != expected_code:
            res.fail('correspondence', 'crash.child-failed', 'exit %s trace tail %r' % (r['code1'], r['trace1'][-2:]), case)
            continue
        if r['extra1']:
            res.fail('correspondence', 'crash.unexpected-files', repr(r['extra1']), case)
        # ---- independent oracle: once a save has completed, a complete file of the last completed or of the
        #      current save must exist
        if safe_write and n_closed >= 1:
            have = [v[1] for v in st.values() if v is not None and v[0] == 'complete']
            if not any(c >= n_closed for c in have):
                res.fail('property', SIG_FIRST,
                         'after crash %r: files %r; %d saves had completed' % (cp, st, n_closed), case)
        first_states.setdefault(state_sig(st, ids=False), (cp, st, r['dir']))
        if use_model:
            saves, budget = model_saves(ref_chunks, ops, cp)
            model_in.append({'k': 'fs', 'fs': {'out': None, 'backup': None}, 'startup': True, 'safe': safe_write,
                             'saves': saves, 'budget': budget})
            model_meta.append((case, ops, st))
    if use_model and model_in:
        outs = core.run_driver('C18', model_in)
        for (case, ops, st), mo in zip(model_meta, outs):
            res.traces_validated += 1
            compare_model(res, case, fmt, ops, st, mo)

    # ---- second crash: resume from one directory per distinct first-crash state, crash in the first save
    if not safe_write or n_second <= 0 or (only is not None and only.get('crash2') is None):
        return
    reps = []
    for sig, (cp, st, d) in sorted(first_states.items()):
        if second_classes is not None and sig not in second_classes:
            continue
        cands = [(v[1], k) for k, v in st.items() if v is not None and v[0] == 'complete']
        if not cands or max(cands)[0] >= n_saves:
            continue  # nothing to resume from / run already finished
        c, which = max(cands)
        reps.append((sig, cp, st, d, [which, c]))
    refs2 = pool.map(run_case, [dict(base=base, fmt=fmt, params=params, out=out, refs=refs, crash1=cp, crash2=None,
                                     tag='second-ref', seed_dir=d, resume_from=rf) for (_, cp, _, d, rf) in reps])
    jobs3 = []
    for (sig, cp, st, d, rf), r2 in zip(reps, refs2):
        case = dict(part='second-crash', **tagbase, crash1=cp, crash2=None)
        if r2.get('code2') != 0:
            res.fail('correspondence', 'second.resume-reference-failed',
                     'state %s: exit %r %r' % (sig, r2.get('code2'), (r2.get('trace2') or [])[-2:]), case)
            continue
        st_ops, sv_ops = split_trace(r2['trace2'])
        if not sv_ops:
            continue
        K2 = len(st_ops) + len(sv_ops[0])
        ops2 = fs_ops(r2['trace2'])
        w_idx = [i for i, e in enumerate(ops2[:K2]) if e[0] == 'write']
        interior = set(i for i in w_idx if i - 1 in w_idx and i + 1 in w_idx)
        ks = [k for k in range(K2 + 1) if k not in interior]
        if len(interior) > 0:
            ks += rng.sample(sorted(interior), min(len(interior), 2))
        if len(ks) > n_second:
            head = [k for k in ks if k <= len(st_ops) + 5]   # the destructive prefix is always kept
            rest = [k for k in ks if k > len(st_ops) + 5]
            ks = head + rng.sample(rest, max(0, min(len(rest), n_second - len(head))))
        crashes = [[k, None] for k in sorted(ks)]
        if w_idx:
            i = rng.choice(w_idx)
            crashes.append([i, rng.randrange(1, 64) / 64.0] if fmt == 'pkl' else [i, 'flush'])
        if only is not None:
            crashes = [only['crash2']] if only.get('crash2') is not None else []
        _, sv = split_trace(r2['trace2'])
        chunks2 = [chunks_of(s) for s in sv]
        for c2 in crashes:
            jobs3.append((dict(base=base, fmt=fmt, params=params, out=out, refs=refs, crash1=cp, crash2=c2,
                               tag='second', seed_dir=d, resume_from=rf), st, chunks2, rf))
    results3 = pool.map(run_case, [j[0] for j in jobs3])
    model_in, model_meta = [], []
    for (job, st1, chunks2, rf), r in zip(jobs3, results3):
        cp, c2 = job['crash1'], job['crash2']
        case = dict(part='second-crash', **tagbase, crash1=cp, crash2=c2)
        res.note_case(case, nontrivial=True)
        res.count('second.fmt=' + fmt)
        res.count('second.entry=' + state_sig(st1, ids=False))
        err = [e for e in r['trace2'] if e[0] == 'error']
        if err or r['code2'] not in (0, c18_inject.EXIT_CRASH):
            res.fail('correspondence', 'second.child-failed', 'exit %s %r' % (r['code2'], r['trace2'][-2:]), case)
            continue
        st2 = r['state2']
        res.count('second.state=' + state_sig(st2, ids=False))
        have = [v[1] for v in st2.values() if v is not None and v[0] == 'complete']
        if not have:
            entry_bad = (st1['out'] is not None and st1['out'][0] == 'partial'
                         and st1['backup'] is not None and st1['backup'][0] == 'complete')
            res.fail('property', SIG_SECOND if entry_bad else SIG_SECOND_OTHER,
                     'first crash %r left %r; resumed from %r; second crash %r left %r: no complete file'
                     % (cp, st1, rf, c2, st2), case)
        if use_model:
            ops2 = fs_ops(r['trace2'])
            saves, budget = model_saves(chunks2, ops2, c2, first_content=rf[1] + 1)
            entry = {'out': model_file(st1['out']), 'backup': model_file(st1['backup'])}
            model_in.append({'k': 'fs', 'fs': entry, 'startup': True, 'safe': True, 'saves': saves,
                             'budget': budget if r['code2'] != 0 else None})
            model_meta.append((case, ops2, st2))
    if use_model and model_in:
        outs = core.run_driver('C18', model_in)
        for (case, ops, st), mo in zip(model_meta, outs):
            res.traces_validated += 1
            compare_model(res, case, fmt, ops, st, mo)


def check_prefilled(ctx, res, pool, base, fmt, rng, use_model=True):
    """`overwrite_output=True` in a directory that already holds results: the output file is a complete file of an
    older run, the backup name holds a stale complete file / nothing / the stub.  Kill at every step of start-up +
    first save (and a few later ones); oracle: a complete file exists at every crash point."""
    out = 'a.pkl' if fmt == 'pkl' else 'a.h5'
    ext = os.path.splitext(out)[1]
    Jz = rng.randrange(1, 9) / 4.0
    params = sim_params(2, Jz)
    snapdir = tempfile.mkdtemp(prefix='snap-', dir=base)
    ref = run_case(dict(base=base, fmt=fmt, params=params, out=out, refs=None, crash1=None, crash2=None,
                        tag='ref', snapshot_dir=snapdir))
    if ref['code1'] != 0:
        raise RuntimeError('reference run failed: %r' % (ref['trace1'][-3:],))
    from tenpy.tools import hdf5_io
    n_saves = sum(1 for e in ref['trace1'] if e[0] == 'save_end')
    refs = [fingerprint(hdf5_io.load(os.path.join(snapdir, 'snap%d%s' % (i + 1, ext)))) for i in range(n_saves)]
    params = dict(params, overwrite_output=True)
    for bk in ('complete', None, 'other'):
        pre = tempfile.mkdtemp(prefix='pre-', dir=base)
        shutil.copy(os.path.join(snapdir, 'snap1' + ext), os.path.join(pre, out))
        entry = {'out': ['complete', 1], 'backup': None}
        if bk == 'complete':
            shutil.copy(os.path.join(snapdir, 'snap2' + ext), os.path.join(pre, c18_inject.backup_name(out)))
            entry['backup'] = ['complete', 2]
        elif bk == 'other':
            with open(os.path.join(pre, c18_inject.backup_name(out)), 'w') as f:
                f.write(STUB_PREFIX.decode() + ' on somewhere\n')
            entry['backup'] = ['other']
        with open(os.path.join(pre, 'a.log'), 'w') as f:
            f.write('old log\n')
        tagbase = dict(fmt=fmt, n_steps=2, Jz=Jz, safe_write=True, prefilled=bk)
        full = run_case(dict(base=base, fmt=fmt, params=params, out=out, refs=refs, crash1=None, crash2=None,
                             tag='pre-ref', prefill_dir=pre))
        if full['code1'] != 0:
            res.fail('correspondence', 'prefilled.reference-failed', repr(full['trace1'][-2:]), dict(part='prefilled', **tagbase))
            continue
        st_ops, sv_ops = split_trace(full['trace1'])
        ops_all = fs_ops(full['trace1'])
        K = len(st_ops) + len(sv_ops[0])
        w_idx = [i for i in range(K) if ops_all[i][0] == 'write']
        interior = set(i for i in w_idx if i - 1 in w_idx and i + 1 in w_idx)
        ks = [k for k in range(K + 1) if k not in interior] + rng.sample(sorted(interior), min(len(interior), 3))
        ks += rng.sample(range(K + 1, len(ops_all)), min(3, max(0, len(ops_all) - K - 1)))
        crashes = [[k, None] for k in sorted(set(ks))]
        if w_idx:
            crashes.append([rng.choice(w_idx), rand_frac(rng) if fmt == 'pkl' else 'flush'])
        chunks = [chunks_of(sv) for sv in sv_ops]
        results = pool.map(run_case, [dict(base=base, fmt=fmt, params=params, out=out, refs=refs, crash1=cp,
                                           crash2=None, tag='pre', prefill_dir=pre) for cp in crashes])
        model_in, model_meta = [], []
        for r in results + [full]:
            cp = r['job']['crash1']
            case = dict(part='prefilled', **tagbase, crash1=cp)
            ops, st = fs_ops(r['trace1']), r['state1']
            res.note_case(case, nontrivial=cp is not None)
            res.count('prefilled.fmt=' + fmt)
            res.count('prefilled.backup=%s' % bk)
            res.count('prefilled.state=' + state_sig(st, ids=False))
            if [e for e in r['trace1'] if e[0] == 'error'] or r['code1'] != (0 if cp is None else c18_inject.EXIT_CRASH):
                res.fail('correspondence', 'prefilled.child-failed', 'exit %s %r' % (r['code1'], r['trace1'][-2:]), case)
                continue
            if not any(v is not None and v[0] == 'complete' for v in st.values()):
                res.fail('property', 'save_results.overwrite_output.crash-leaves-no-complete-file',
                         'entry %r, crash %r left %r' % (entry, cp, st), case)
            logs = [list(x) for x in r.get('logs1', [])]
            if logs not in ([['a.log', 'old log\n']], [['a.backup.log', 'old log\n']]):
                res.fail('property', 'fix_output_filenames.log-rotation-loses-old-log', repr(logs), case)
            if use_model:
                saves, budget = model_saves(chunks, ops, cp)
                model_in.append({'k': 'fs', 'fs': entry, 'startup': True, 'safe': True, 'saves': saves, 'budget': budget})
                model_meta.append((case, ops, st))
        if use_model and model_in:
            outs = core.run_driver('C18', model_in)
            for (case, ops, st), mo in zip(model_meta, outs):
                res.traces_validated += 1
                compare_model(res, case, fmt, ops, st, mo)


def run(ctx, res, use_model=True, pool=None):
    rng = ctx.sub_rng('crash')
    base = tempfile.mkdtemp(prefix='verif-c18-')
    own = pool is None
    if own:
        pool = multiprocessing.get_context('fork').Pool(min(16, os.cpu_count() or 4))
    try:
        if ctx.quick:
            # (fmt, n_steps, n_inside, n_wsteps, n_second, classes resumed)
            plan = [('pkl', 2, 8, None, 14, None),
                    ('h5', 2, 8, 12, 12, ('partial|complete', 'complete|absent'))]
        else:
            plan = [('pkl', 3, 300, None, 40, None), ('h5', 3, 120, None, 40, None), ('pkl', 2, 100, None, 40, None),
                    ('h5', 1, 60, None, 40, None)]
        for fmt, n_steps, n_inside, n_wsteps, n_second, classes in plan:
            Jz = rng.randrange(1, 9) / 4.0
            check_part(ctx, res, pool, base, fmt, n_steps, Jz, rng, n_inside, n_wsteps, n_second, classes,
                       use_model=use_model)
        for fmt in (('pkl',) if ctx.quick else ('pkl', 'h5')):
            check_prefilled(ctx, res, pool, base, fmt, rng, use_model=use_model)
        # model fidelity without safe_write (no property is claimed there)
        check_part(ctx, res, pool, base, 'pkl', 1, 1.0, rng, 2, None, 0, use_model=use_model, safe_write=False)
    finally:
        if own:
            pool.close()
            pool.join()
        shutil.rmtree(base, ignore_errors=True)
    return res


def replay_case(ctx, res, case, use_model=True):
    """Re-run one recorded case (`part` = 'crash' or 'second-crash')."""
    rng = ctx.sub_rng('crash-replay')
    base = tempfile.mkdtemp(prefix='verif-c18-')
    pool = multiprocessing.get_context('fork').Pool(2)
    try:
        check_part(ctx, res, pool, base, case['fmt'], case['n_steps'], case['Jz'], rng, 0, None, 10 ** 6,
                   use_model=use_model, safe_write=case.get('safe_write', True),
                   only={'crash1': case.get('crash1'), 'crash2': case.get('crash2')})
    finally:
        pool.close()
        pool.join()
        shutil.rmtree(base, ignore_errors=True)
    return res
