"""Runs the REAL LegCharge/LegPipe/Array code on generated cases (child process; kernel configuration from the env).

usage: python -m harness.c06_worker <cases.json> <out.json>
For each case: {"in":   inputs as actually constructed (flags included) = the input of the Lean model (absent for
                        kinds without a Lean model),
                "out":  observed results that the Lean model must reproduce exactly,
                "obs":  further observations (compared between the two kernel configurations only),
                "oracle": [[signature, detail, tainted out-key or None], ...] violations found by the model-free oracle}

kinds: leg   one leg: sort/bunch/project/extend/conj/flip/get_qindex
       pipe  LegPipe of 1-4 legs (incoming legs may be pipes themselves): structure, index map, conversions,
             charge mapping, combine/split placement on a random tensor
       conv  constructors and conversions of LegCharge / ChargeInfo / DipolarChargeInfo
       arr   Array.combine_legs / split_legs / sort_legcharge / as_completely_blocked / make_pipe programs
             (no Lean model: dense reshape/transposition oracle built from the documented contract)
"""
import itertools
import json
import sys
import warnings

import numpy as np

warnings.simplefilter('ignore')


def main(inp, outp):
    import tenpy
    from tenpy.tools import optimization
    from tenpy.linalg import charges as ch
    from tenpy.linalg import np_conserved as npc
    from vlib import npcio
    optimization.set_level(0)
    cases = json.load(open(inp))
    results = []
    for case in cases:
        try:
            fn = {'leg': do_leg, 'pipe': do_pipe, 'conv': do_conv, 'arr': do_arr}[case['k']]
            r = fn(case, ch, npc, npcio)
            r['oracle'] = [list(o) + [None] * (3 - len(o)) for o in r['oracle']]
            results.append(r)
        except Exception as e:  # infrastructure problem of this case: report, don't die
            import traceback
            results.append({'crash': traceback.format_exc()[-1500:]})
    meta = dict(have_cython=bool(optimization.have_cython_functions), tenpy_file=tenpy.__file__)
    json.dump(dict(meta=meta, results=results), open(outp, 'w'))


def sane(obj):
    try:
        obj.test_sanity()
        return True
    except Exception:
        return False


def sane_leg(p):
    from tenpy.linalg.charges import LegCharge
    try:
        LegCharge.test_sanity(p)
        return True
    except Exception:
        return False


def ints(a):
    return [int(x) for x in a]


def rows(a):
    return [[int(x) for x in r] for r in a]


class Build:
    """Real objects from the data descriptions of one case (one shared ChargeInfo object per `mods`)."""

    def __init__(self, case, ch):
        self.ch = ch
        self.dip = case.get('dip')
        self.names = case.get('names')
        self.cache = {}

    def chinfo(self, mods, main=True):
        key = (tuple(mods), main)
        if key not in self.cache:
            names = self.names if (main and self.names and len(self.names) == len(mods)) else None
            if main and self.dip:
                d = self.dip
                self.cache[key] = self.ch.DipolarChargeInfo(list(mods), names, list(d['c']), list(d['d']), list(d['dims']))
            else:
                self.cache[key] = self.ch.ChargeInfo(list(mods), names)
        return self.cache[key]

    def leg(self, d, main=True):
        ch = self.ch
        if 'pipe' in d:
            p = d['pipe']
            return ch.LegPipe([self.leg(x, main) for x in p['legs']], qconj=p['qconj'], sort=p['sort'], bunch=p['bunch'])
        ci = self.chinfo(d['mods'], main)
        c = np.array(d['charges'], dtype=ch.QTYPE).reshape(len(d['charges']), len(d['mods']))
        if d.get('ctor', 'init') == 'qind':
            leg = ch.LegCharge.from_qind(ci, d['slices'], c, d['qconj'])
        else:
            leg = ch.LegCharge(ci, d['slices'], c, d['qconj'])
        if 'sorted' in d:
            leg.sorted, leg.bunched = bool(d['sorted']), bool(d['bunched'])
        return leg


def dip_cd(case):
    d = case.get('dip')
    return None if not d else [[int(c), int(x), int(m)] for c, x, m in zip(d['c'], d['d'], d['dims'])]


def shift_ref(ci, case, q):
    """independent numpy statement of the dipole shift on rows `q` (p_i -> p_i + dx[dim] * q_i, then modulo)"""
    if ci.qnumber == 0:
        return [[] for _ in q]
    q = np.array(q, dtype=np.int64).reshape(-1, ci.qnumber).copy()
    d = case.get('dip')
    if d:
        add = np.zeros_like(q)
        for c, x, m in zip(d['c'], d['d'], d['dims']):
            add[:, x] += case['dx'][m] * q[:, c]
        q = q + add
    return rows(ci.make_valid(q)) if ci.qnumber else rows(q)


# ------------------------------------------------------------------------------------------------ kind 'leg'

def do_leg(case, ch, npc, io):
    leg = io.make_leg(case['leg'])
    extra = io.make_leg(case['extra'])
    mask = np.array(case['mask'], dtype=bool)
    inp = dict(k='leg', leg=io.dump_leg(leg), extra=io.dump_leg(extra), mask=[bool(m) for m in mask], gq=case['gq'])
    orc = []
    before = io.dump_leg(leg)
    phys = io.phys_qflat(leg)
    out = {}
    out['qflat'] = rows(leg.to_qflat())
    out['is_sorted'] = bool(leg.is_sorted())
    out['is_bunched'] = bool(leg.is_bunched())
    out['is_blocked'] = bool(leg.is_blocked())
    out['sane'] = sane(leg)
    for key, bunch in [('sort1', True), ('sort0', False)]:
        perm, s = leg.sort(bunch=bunch)
        d = dict(perm=ints(perm), leg=io.dump_leg(s))
        pflat = ints(leg.perm_flat_from_perm_qind(perm))
        if bunch:
            d['pflat'] = pflat
        out[key] = d
        # oracle: charge attached to every surviving index unchanged (through the flat permutation)
        if not sane(s):
            orc.append(('leg.sort.insane', f'bunch={bunch}'))
        if sorted(pflat) != list(range(leg.ind_len)):
            orc.append(('leg.sort.perm-not-permutation', str(pflat)))
        elif [phys[i] for i in pflat] != io.phys_qflat(s):
            orc.append(('leg.sort.charge-moved', f'bunch={bunch}'))
        if not s.is_sorted() or (bunch and not s.is_bunched()):
            orc.append(('leg.sort.not-sorted', f'bunch={bunch}'))
    idx, b = leg.bunch()
    out['bunch'] = dict(idx=ints(idx), leg=io.dump_leg(b))
    if io.phys_qflat(b) != phys or not sane(b) or not b.is_bunched():
        orc.append(('leg.bunch.charge-moved-or-insane', ''))
    mq, bms, pr = leg.project(mask)
    out['project'] = dict(map=ints(mq), masks=[[bool(x) for x in bm] for bm in bms], leg=io.dump_leg(pr))
    if io.phys_qflat(pr) != [p for p, m in zip(phys, mask) if m] or not sane(pr):
        orc.append(('leg.project.charge-moved-or-insane', ''))
    ex = leg.extend(extra)
    out['extend'] = io.dump_leg(ex)
    if io.phys_qflat(ex) != phys + io.phys_qflat(extra) or not sane(ex):
        orc.append(('leg.extend.charge-moved-or-insane', ''))
    cj = leg.conj()
    out['conj'] = io.dump_leg(cj)
    fl = leg.flip_charges_qconj()
    out['flip'] = io.dump_leg(fl)
    if io.phys_qflat(fl) != phys or not sane(fl):
        orc.append(('leg.flip.charge-changed-or-insane', ''))
    neg = [ints(leg.chinfo.make_valid(-np.array(p))) for p in phys] if leg.chinfo.qnumber else phys
    if io.phys_qflat(cj) != neg:
        orc.append(('leg.conj.charge-not-negated', ''))
    try:
        leg.test_contractible(cj)
        out['contractible'] = True
    except ValueError:
        out['contractible'] = False
        orc.append(('leg.conj.not-contractible', ''))
    try:
        leg.test_equal(fl)
        out['flip_equal'] = True
    except ValueError:
        out['flip_equal'] = False
        orc.append(('leg.flip.not-equal', ''))
    gq = []
    for i in case['gq']:
        try:
            q, w = leg.get_qindex(i)
            gq.append([int(q), int(w)])
            ii = i + leg.ind_len if i < 0 else i
            if not (0 <= ii < leg.ind_len and 0 <= q < leg.block_number
                    and leg.slices[q] + w == ii and 0 <= w < leg.slices[q + 1] - leg.slices[q]):
                orc.append(('leg.get_qindex.out-of-range-accepted', f'ind_len={leg.ind_len} i={i} -> {(int(q), int(w))}'))
        except IndexError:
            gq.append(None)
            ii = i + leg.ind_len if i < 0 else i
            if 0 <= ii < leg.ind_len:
                orc.append(('leg.get_qindex.valid-index-rejected', f'i={i}'))
    out['gq'] = gq
    if io.dump_leg(leg) != before:
        orc.append(('leg.mutated-by-operation', ''))
    return {'in': inp, 'out': out, 'oracle': orc}


# ------------------------------------------------------------------------------------------------ kind 'pipe'

def do_pipe(case, ch, npc, io):
    B = Build(case, ch)
    legs = [B.leg(l) for l in case['legs']]
    qconj, sort, bunch = case['qconj'], case['sort'], case['bunch']
    inp = dict(k='pipe', legs=[io.dump_leg(l) for l in legs], qconj=qconj, sort=sort, bunch=bunch, idx=case['idx'])
    for key in ('psb', 'pmask', 'dx'):
        if key in case:
            inp[key] = case[key]
    if 'dx' in case:
        inp['cd'] = dip_cd(case)
    orc = []
    try:
        p = ch.LegPipe(legs, qconj=qconj, sort=sort, bunch=bunch)
    except Exception as e:
        return {'in': inp, 'out': {'error': io.err_class(e)}, 'oracle': []}
    out = {'pipe': io.dump_pipe(p)}
    flat = []
    for idx in case['idx']:
        try:
            flat.append(int(p.map_incoming_flat(idx)))
        except (IndexError, ValueError):
            flat.append(None)
    out['flat'] = flat
    out['qflat'] = rows(p.to_qflat())
    out['sane'] = sane(p)
    if not out['sane']:
        orc.append(('pipe.init.insane', ''))
    cj = p.conj()
    out['conj'] = io.dump_pipe(cj)
    oc = p.outer_conj()
    out['outer_conj'] = io.dump_pipe(oc)
    # ---- model-free oracle
    shape = [l.ind_len for l in legs]
    n = int(np.prod(shape))
    if p.ind_len != n:
        orc.append(('pipe.ind_len', f'{p.ind_len} vs {n}'))
    physp = io.phys_qflat(p)
    physl = [io.phys_qflat(l) for l in legs]
    ci = p.chinfo
    seen = {}
    if n <= 4000:
        for idx in itertools.product(*[range(s) for s in shape]):
            f = int(p.map_incoming_flat(list(idx)))
            if f in seen or not (0 <= f < n):
                orc.append(('pipe.map_incoming_flat.not-bijective', f'{idx} and {seen.get(f)} -> {f}'))
                break
            seen[f] = idx
            want = ints(ci.make_valid(np.sum([physl[k][i] for k, i in enumerate(idx)], axis=0))) if ci.qnumber else []
            if physp[f] != want:
                orc.append(('pipe.fusion-rule', f'idx {idx} -> {f}: pipe charge {physp[f]} expected {want}'))
                break
        # data placement: combine_legs puts entry idx at map_incoming_flat(idx); split restores
        if n > 0 and not orc:
            rs = np.random.RandomState(case.get('seed', 0))
            pc = p.conj()
            try:
                a = npc.Array.from_func(lambda size: rs.randint(-3, 4, size).astype(float), legs + [pc], dtype=float)
            except Exception as e:
                a = None
            if a is not None:
                try:
                    check_placement(a, p, legs, seen, orc, sane)
                except Exception as e:  # valid input: an exception means "not restored"
                    orc.append(('pipe.combine-split.raises.' + io.err_class(e), str(e)[:200]))
    # conj: contractible with the original; outer_conj: same physical charges, still a valid pipe of the same legs
    try:
        p.test_contractible(cj)
    except ValueError:
        orc.append(('pipe.conj.not-contractible', ''))
    if not sane(cj) or not sane_leg(cj):
        orc.append(('pipe.conj.insane', ''))
    if not conj_deep(p, cj, ch):
        orc.append(('pipe.conj.incoming-legs-not-conjugated', 'conj() must conjugate the incoming legs at every nesting level'))
    if not sane_leg(oc):
        orc.append(('pipe.outer_conj.insane', f'qconj={p.qconj} sorted flag {oc.sorted}'))
    # outer_conj: the pipe over the SAME incoming legs with the outgoing direction reversed: the fusion rule
    # (charge*qconj of the pipe = sum over incoming) must keep holding, i.e. physical charges unchanged
    if io.phys_qflat(oc) != physp or oc.qconj != -p.qconj:
        orc.append(('pipe.outer_conj.breaks-fusion-rule', f'qconj {p.qconj} -> {oc.qconj}'))
    # ---- conversions to LegCharge (to_LegCharge, and sort/bunch/project which convert first)
    if 'psb' in case:
        lc = p.to_LegCharge()
        out['to_leg'] = io.dump_leg(lc)
        if type(lc) is not ch.LegCharge or io.dump_leg(lc) != io.dump_leg(p) or not sane(lc):
            orc.append(('pipe.to_LegCharge.differs', ''))
        perm, s = p.sort(bunch=case['psb'])
        out['psort'] = dict(perm=ints(perm), leg=io.dump_leg(s))
        pflat = ints(p.perm_flat_from_perm_qind(perm))
        if isinstance(s, ch.LegPipe) and ints(perm) != list(range(p.block_number)):
            orc.append(('pipe.sort.still-a-pipe-after-permutation', ''))
        if sorted(pflat) != list(range(p.ind_len)) or [physp[i] for i in pflat] != io.phys_qflat(s) or not sane_leg(s) \
                or not s.is_sorted() or (case['psb'] and not s.is_bunched()):
            orc.append(('pipe.sort.charge-moved-or-insane', f'bunch={case["psb"]}'))
        idx_b, b = p.bunch()
        out['pbunch'] = dict(idx=ints(idx_b), leg=io.dump_leg(b))
        if io.phys_qflat(b) != physp or not sane_leg(b) or not b.is_bunched():
            orc.append(('pipe.bunch.charge-moved-or-insane', ''))
        mask = np.array(case['pmask'], dtype=bool)
        mq, bms, pr = p.project(mask)
        out['pproject'] = dict(map=ints(mq), masks=[[bool(x) for x in bm] for bm in bms], leg=io.dump_leg(pr))
        if isinstance(pr, ch.LegPipe) or io.phys_qflat(pr) != [q for q, m in zip(physp, mask) if m] or not sane(pr):
            orc.append(('pipe.project.charge-moved-or-insane', ''))
    # ---- charge mapping (DipolarChargeInfo.shift_charges / trivial ChargeInfo.shift_charges)
    if 'dx' in case:
        try:
            mp = p.apply_charge_mapping(ci.shift_charges, func_kwargs=dict(dx=case['dx']))
        except NotImplementedError:
            mp = None
            if case['dx'][-1] == 0 or not case.get('dip'):
                orc.append(('pipe.apply_charge_mapping.raises', str(case['dx'])))
        out['map'] = None if mp is None else io.dump_pipe(mp)
        if mp is not None:
            if case.get('dip') and case['dx'][-1] != 0:
                orc.append(('pipe.apply_charge_mapping.sublattice-shift-accepted', str(case['dx'])))
            # the mapped pipe still obeys the fusion rule with its mapped legs on every index, and the map is the
            # documented shift on the charge attached to every index
            mphys = io.phys_qflat(mp)
            ml = [io.phys_qflat(l) for l in mp.legs]
            if mphys != shift_ref(ci, case, physp) or any(a != shift_ref(ci, case, b) for a, b in zip(ml, physl)):
                orc.append(('pipe.apply_charge_mapping.charge-not-shifted', ''))
            for f, idx in seen.items():
                want = ints(ci.make_valid(np.sum([ml[k][i] for k, i in enumerate(idx)], axis=0))) if ci.qnumber else []
                if mphys[f] != want or int(mp.map_incoming_flat(list(idx))) != f:
                    orc.append(('pipe.apply_charge_mapping.breaks-fusion-rule', f'idx {idx}'))
                    break
            if not sane_leg(mp) or not sane(mp) or mp.sorted or mp.bunched:
                orc.append(('pipe.apply_charge_mapping.insane', ''))
            try:
                mp.test_contractible(cj.apply_charge_mapping(ci.shift_charges, func_kwargs=dict(dx=case['dx'])))
            except ValueError:
                orc.append(('pipe.apply_charge_mapping.conj-not-contractible', ''))
    return {'in': inp, 'out': out, 'oracle': orc}


def conj_deep(p, c, ch):
    if c.qconj != -p.qconj or type(c) is not type(p) or rows(c.charges) != rows(p.charges) or ints(c.slices) != ints(p.slices):
        return False
    if isinstance(p, ch.LegPipe):
        return len(c.legs) == len(p.legs) and all(conj_deep(a, b, ch) for a, b in zip(p.legs, c.legs))
    return True


def check_placement(a, p, legs, seen, orc, sane):
    dense = a.to_ndarray()
    comb = a.combine_legs(list(range(len(legs))), pipes=p)
    cd = comb.to_ndarray()
    for f, idx in seen.items():
        if not np.array_equal(cd[f], dense[idx]):
            orc.append(('pipe.combine.placement-differs-from-map', f'idx {idx} flat {f}'))
            break
    back = comb.split_legs(0)
    if not np.array_equal(back.to_ndarray(), dense):
        orc.append(('pipe.split-combine-not-identity', ''))
    for l0, l1 in zip(a.legs, back.legs):
        try:
            l0.test_equal(l1)
        except ValueError:
            orc.append(('pipe.split-combine-legs-differ', ''))
            break
    if not sane(comb) or not sane(back):
        orc.append(('pipe.combine-split.insane', ''))
    # a second tensor with the pipe on the other side: contraction over the pipe = contraction over the legs
    if any(0 in l.get_block_sizes() for l in a.legs):
        return  # contraction of zero-size blocks is C01/C04's business (BLAS on empty arrays)
    b = a.conj()
    full = npc_tensordot(a, b, len(legs) + 1)
    combb = b.combine_legs(list(range(len(legs))), pipes=p.conj())
    via = npc_tensordot(comb, combb, 2)
    if abs(complex(full) - complex(via)) > 1e-9 * (1 + abs(complex(full))):
        orc.append(('pipe.contract-over-pipe-differs', f'{full} vs {via}'))


def npc_tensordot(a, b, n):
    from tenpy.linalg import np_conserved as npc
    return npc.tensordot(a, b, axes=[list(range(n)), list(range(n))])


# ------------------------------------------------------------------------------------------------ kind 'conv'

def attempt(f, *exc):
    """(value, None) or (None, exception)"""
    try:
        return f(), None
    except (exc or (Exception,)) as e:
        return None, e


def lexkey(c):
    return tuple(reversed(c))


def do_conv(case, ch, npc, io):
    B = Build(case, ch)
    leg = B.leg(case['leg'])
    ci = leg.chinfo
    LC = ch.LegCharge
    qn = ci.qnumber
    names = list(ci.names)
    other = B.leg(case['other'])
    other2 = B.leg(case['other2'], main=case['other2']['mods'] == case['leg']['mods'])
    adds = [B.leg(d, main=False) for d in case['adds']]
    before = io.dump_leg(leg)
    qflat = rows(leg.to_qflat())
    phys = io.phys_qflat(leg)
    orc = []
    out = {}
    obs = {}
    inp = dict(k='conv', leg=before, cd=dip_cd(case), dx=case['dx'], trivial=case['trivial'], qflat=case['qflat'],
               adds=[io.dump_leg(l) for l in adds], drop=case['drop'], change=case['change'], goc=case['goc'],
               ext_n=case['ext_n'], other=io.dump_leg(other), other2=io.dump_leg(other2), raw=case['raw'])

    # --- from_trivial
    t = case['trivial']
    tl = LC.from_trivial(t['n'], ci if t['ci'] else None, t['qconj'])
    out['trivial'] = io.dump_leg(tl)
    if tl.ind_len != t['n'] or not sane(tl) or np.any(tl.to_qflat() != 0) or tl.to_qflat().shape != (t['n'], qn if t['ci'] else 0):
        orc.append(('conv.from_trivial.wrong', ''))

    # --- from_qflat (2D; 1D accepted for one charge; wrong width rejected)
    qf = case['qflat']
    arg = [r[0] for r in qf['rows']] if qf['flat1d'] else qf['rows']
    if not qf['flat1d'] and len(arg) == 0:
        arg = np.zeros((0, qn), dtype=int)
    ql, e = attempt(lambda: LC.from_qflat(ci, arg, qf['qconj']))
    out['qflat'] = None if ql is None else io.dump_leg(ql)
    width_ok = all(len(r) == qn for r in qf['rows'])
    if ql is None:
        if width_ok:
            orc.append(('conv.from_qflat.raises.' + io.err_class(e), str(e)[:100], 'qflat'))
    elif not width_ok:
        orc.append(('conv.from_qflat.wrong-width-accepted', '', 'qflat'))
    elif rows(ql.to_qflat()) != qf['rows'] or not sane(ql) or ql.qconj != qf['qconj']:
        orc.append(('conv.from_qflat.charges-differ-or-insane', '', 'qflat'))

    # --- to_qdict / from_qdict
    qd, e = attempt(leg.to_qdict)
    uniq = len({tuple(r) for r in before['charges']}) == leg.block_number
    out['to_qdict'] = None if qd is None else [[ints(k), int(v.start), int(v.stop)] for k, v in qd.items()]
    if (qd is None) == uniq or (qd is None and not isinstance(e, ValueError)):
        orc.append(('conv.to_qdict.blocked-iff-succeeds', f'unique charges {uniq}', 'to_qdict'))
    if qd is not None and any(qflat[i] != list(k) for k, v in qd.items() for i in range(v.start, v.stop)):
        orc.append(('conv.to_qdict.wrong-slice', '', 'to_qdict'))
    inp['qd_entries'] = None
    out['from_qdict'] = None
    if qd is not None and leg.block_number > 0 and 0 not in leg.get_block_sizes():
        ent = out['to_qdict']
        ent = [ent[i] for i in case['qd_perm'] if i < len(ent)] + [x for i, x in enumerate(ent) if i not in case['qd_perm']]
        if case['qd_gap'] and len(ent) >= 2:
            j = max(range(len(ent)), key=lambda i: ent[i][1])
            ent[j] = [ent[j][0], ent[j][1] + 1, ent[j][2] + 1]
        inp['qd_entries'] = ent
        fq, e = attempt(lambda: LC.from_qdict(ci, {tuple(k): slice(b, s) for k, b, s in ent}, leg.qconj))
        out['from_qdict'] = None if fq is None else io.dump_leg(fq)
        gap = case['qd_gap'] and len(ent) >= 2
        if fq is None:
            if not gap or not isinstance(e, ValueError):
                orc.append(('conv.from_qdict.' + ('no-charges.' if qn == 0 else '') + 'raises.' + io.err_class(e), str(e)[:100],
                            'from_qdict'))
        elif gap:
            orc.append(('conv.from_qdict.non-contiguous-accepted', '', 'from_qdict'))
        else:
            if rows(fq.to_qflat()) != qflat or ints(fq.slices) != before['slices'] or fq.qconj != leg.qconj:
                orc.append(('conv.from_qdict.charges-differ', '', 'from_qdict'))
            if not sane(fq):
                orc.append(('conv.from_qdict.insane', f'sorted flag {fq.sorted} on charges {rows(fq.charges)}', 'from_qdict'))

    # --- ChargeInfo.add / drop / change
    drop, chg = case['drop'], case['change']
    cia = ch.ChargeInfo.add([ci] + [l.chinfo for l in adds])
    obs['ci_add'] = [ints(cia.mod), list(cia.names)]
    if ints(cia.mod) != sum([ints(l.chinfo.mod) for l in [leg] + adds], []) or \
            list(cia.names) != sum([list(l.chinfo.names) for l in [leg] + adds], []):
        orc.append(('conv.ChargeInfo.add.wrong', ''))
    drop_arg = None if drop is None else (names[drop] if case['by_name'] and drop < qn else drop)
    cid, e = attempt(lambda: ch.ChargeInfo.drop(ci, drop_arg))
    obs['ci_drop'] = None if cid is None else [ints(cid.mod), list(cid.names)]
    if drop is None or drop < qn:
        want = [[], []] if drop is None else [[m for i, m in enumerate(ints(ci.mod)) if i != drop],
                                               [m for i, m in enumerate(names) if i != drop]]
        if obs['ci_drop'] != want:
            orc.append(('conv.ChargeInfo.drop.wrong', f'{obs["ci_drop"]} expected {want}'))
    chg_arg = names[chg[0]] if case['by_name'] and chg[0] < qn else chg[0]
    cic, e = attempt(lambda: ch.ChargeInfo.change(ci, chg_arg, chg[1], 'new'))
    obs['ci_change'] = None if cic is None else [ints(cic.mod), list(cic.names)]
    if chg[0] < qn:
        want = [[chg[1] if i == chg[0] else m for i, m in enumerate(ints(ci.mod))],
                ['new' if i == chg[0] else m for i, m in enumerate(names)]]
        if obs['ci_change'] != want or ints(ci.mod) != before['mods']:
            orc.append(('conv.ChargeInfo.change.wrong', f'{obs["ci_change"]} expected {want}'))

    # --- from_add_charge
    al, e = attempt(lambda: LC.from_add_charge([leg] + adds, cia if case['pass_ci'] else None))
    out['add'] = None if al is None else io.dump_leg(al)
    add_ok = all(l.ind_len == leg.ind_len and l.qconj == leg.qconj for l in adds)
    if al is None:
        if add_ok and all(l.block_number > 0 for l in [leg] + adds):
            orc.append(('conv.from_add_charge.raises.' + io.err_class(e), str(e)[:100], 'add'))
        elif not add_ok and not isinstance(e, ValueError):
            orc.append(('conv.from_add_charge.wrong-exception.' + io.err_class(e), '', 'add'))
    elif not add_ok:
        orc.append(('conv.from_add_charge.incompatible-legs-accepted', '', 'add'))
    else:
        want = [sum(rs_, []) for rs_ in zip(qflat, *[rows(l.to_qflat()) for l in adds])] if leg.ind_len else []
        if rows(al.to_qflat()) != want or not sane(al) or al.qconj != leg.qconj or al.ind_len != leg.ind_len:
            orc.append(('conv.from_add_charge.charges-differ-or-insane', '', 'add'))

    # --- from_drop_charge (by index or by name; with or without the target ChargeInfo)
    dl, e = attempt(lambda: LC.from_drop_charge(leg, drop_arg, (cid if drop is not None else ch.ChargeInfo()) if case['pass_ci'] else None))
    out['drop'] = None if dl is None else io.dump_leg(dl)
    if drop is None or drop < qn:
        if dl is None:
            how = 'by-name' if isinstance(drop_arg, str) else 'by-index'
            orc.append((f'conv.from_drop_charge.{how}.raises.' + io.err_class(e), str(e)[:100], 'drop'))
        else:
            want = [[x for i, x in enumerate(r) if drop is not None and i != drop] for r in qflat]
            if rows(dl.to_qflat()) != want or not sane(dl) or dl.qconj != leg.qconj or \
                    (drop is not None and ints(dl.slices) != before['slices']):
                orc.append(('conv.from_drop_charge.charges-differ-or-insane', '', 'drop'))
    elif dl is not None:
        orc.append(('conv.from_drop_charge.bad-index-accepted', '', 'drop'))

    # --- from_change_charge
    cl, e = attempt(lambda: LC.from_change_charge(leg, chg_arg, chg[1], 'new', cic if case['pass_ci'] else None))
    out['change'] = None if cl is None else io.dump_leg(cl)
    if chg[0] < qn:
        if cl is None:
            orc.append(('conv.from_change_charge.raises.' + io.err_class(e), str(e)[:100], 'change'))
        else:
            want = rows(cic.make_valid(np.array(qflat, dtype=np.int64).reshape(-1, qn)))
            if rows(cl.to_qflat()) != want or not sane(cl) or ints(cl.slices) != before['slices'] or cl.qconj != leg.qconj:
                orc.append(('conv.from_change_charge.charges-differ-or-insane', '', 'change'))
    elif cl is not None:
        orc.append(('conv.from_change_charge.bad-index-accepted', '', 'change'))

    # --- apply_charge_mapping with (Dipolar)ChargeInfo.shift_charges
    dx = case['dx']
    ml, e = attempt(lambda: leg.apply_charge_mapping(ci.shift_charges, func_kwargs=dict(dx=dx)), NotImplementedError)
    out['map'] = None if ml is None else io.dump_leg(ml)
    if ml is None:
        if not case.get('dip') or dx[-1] == 0:
            orc.append(('conv.apply_charge_mapping.raises', str(dx), 'map'))
    else:
        if case.get('dip') and dx[-1] != 0:
            orc.append(('conv.apply_charge_mapping.sublattice-shift-accepted', str(dx), 'map'))
        if io.phys_qflat(ml) != shift_ref(ci, case, phys) or ints(ml.slices) != before['slices'] or ml.sorted or ml.bunched \
                or not sane(ml):
            orc.append(('conv.apply_charge_mapping.charge-not-shifted', '', 'map'))
        try:  # conjugate legs stay contractible, flipped legs stay equal
            ml.test_contractible(leg.conj().apply_charge_mapping(ci.shift_charges, func_kwargs=dict(dx=dx)))
            ml.test_equal(leg.flip_charges_qconj().apply_charge_mapping(ci.shift_charges, func_kwargs=dict(dx=dx)))
        except ValueError:
            orc.append(('conv.apply_charge_mapping.conj-not-contractible', '', 'map'))

    # --- charge_sectors
    cs, e = attempt(leg.charge_sectors)
    out['sectors'] = None if cs is None else rows(cs)
    want = [list(c) for c in sorted({tuple(r) for r in before['charges']}, key=lexkey)]
    if cs is None:
        orc.append(('conv.charge_sectors.raises.' + io.err_class(e), f'qnumber={qn} sorted flag {leg.sorted}: {str(e)[:80]}', 'sectors'))
    elif out['sectors'] != want and sane(leg):
        orc.append(('conv.charge_sectors.not-the-sorted-unique-charges', f'{out["sectors"]} expected {want}', 'sectors'))

    # --- get_qindex_of_charges / get_charge / get_slice / get_block_sizes
    goc = []
    physb = rows(ci.make_valid(leg.charges * leg.qconj)) if qn else [[] for _ in range(leg.block_number)]
    for c in case['goc']:
        qi, e = attempt(lambda: leg.get_qindex_of_charges(c), ValueError)
        goc.append(None if qi is None else int(qi))
        hits = [i for i, r in enumerate(physb) if r == (ints(ci.make_valid(np.array(c))) if qn else [])]
        if (qi is None and len(hits) == 1) or (qi is not None and hits != [int(qi)]):
            orc.append(('conv.get_qindex_of_charges.wrong', f'{c} -> {qi}, blocks with that charge {hits}', 'goc'))
    out['goc'] = goc
    out['get_charge'] = [ints(leg.get_charge(i)) for i in range(leg.block_number)]
    out['block_sizes'] = ints(leg.get_block_sizes())
    out['get_slice'] = [[int(leg.get_slice(i).start), int(leg.get_slice(i).stop)] for i in range(leg.block_number)]
    if out['get_charge'] != [[x * leg.qconj for x in r] for r in before['charges']] or sum(out['block_sizes']) != leg.ind_len \
            or any(qflat[j] != before['charges'][i] for i, (b, s) in enumerate(out['get_slice']) for j in range(b, s)):
        orc.append(('conv.get_charge-get_slice.wrong', ''))

    # --- extend by an int
    ex = leg.extend(case['ext_n'])
    out['ext_int'] = io.dump_leg(ex)
    if io.phys_qflat(ex) != phys + [[0] * qn] * case['ext_n'] or not sane(ex):
        orc.append(('conv.extend-int.charge-moved-or-insane', ''))

    # --- __eq__ / __ne__ / test_equal / test_contractible, all outcomes
    def cmp(f):
        try:
            return bool(f())
        except ValueError:
            return None
    same = ints(other.slices) == before['slices']
    if qn:  # zero-size blocks carry a charge too: compare per block, not per index
        same = same and rows(ci.make_valid(other.charges * other.qconj)) == physb
    eq = dict(eq=cmp(lambda: leg == other), ne=cmp(lambda: leg != other), eq_copy=cmp(lambda: leg == leg.copy()),
              eq_conj=cmp(lambda: leg == leg.conj()), eq2=cmp(lambda: leg == other2),
              test_equal=cmp(lambda: leg.test_equal(other) is None),
              test_contractible=cmp(lambda: leg.test_contractible(other.conj()) is None),
              test_contractible_self=cmp(lambda: leg.test_contractible(leg) is None))
    out['eq'] = eq
    if eq['eq'] != same or eq['ne'] != (not same) or eq['eq_copy'] is not True or eq['test_equal'] != (True if same else None) \
            or eq['test_contractible'] != eq['test_equal']:
        orc.append(('conv.eq.wrong', f'{eq}; same charges on every index: {same}', 'eq'))
    if (eq['eq2'] is None) != (before['mods'] != ints(other2.chinfo.mod)):
        orc.append(('conv.eq.chinfo-mismatch-not-reported', str(eq), 'eq'))

    # --- constructor sanity check on raw (possibly invalid) data
    raw = case['raw']
    rc = np.array(raw['charges'], dtype=ch.QTYPE)
    if len(raw['charges']) == 0:
        rc = rc.reshape(0, qn)
    rl, e = attempt(lambda: LC(ci, raw['slices'], rc, raw['qconj']))
    out['raw_ok'] = rl is not None
    valid = (len(raw['slices']) == len(raw['charges']) + 1 and raw['slices'][0] == 0 and raw['qconj'] in (1, -1)
             and all(len(r) == qn and all(m == 1 or 0 <= x < m for x, m in zip(r, before['mods'])) for r in raw['charges']))
    if out['raw_ok'] != valid or (rl is None and not isinstance(e, ValueError)):
        orc.append(('conv.ctor.sanity-check', f'accepted={out["raw_ok"]} valid={valid}', 'raw_ok'))

    # --- perm_qind_from_perm_flat (no Lean model: contract only)
    pq = []
    sizes = out['block_sizes']
    for pf in case['pflat']:
        r, e = attempt(lambda: leg.perm_qind_from_perm_flat(np.array(pf, dtype=np.intp)))
        pq.append(None if r is None else ints(r))
        # is pf a block permutation?  walk it independently
        pos, want, okp = 0, [], len(pf) == leg.ind_len
        while okp and pos < len(pf):
            cand = [i for i in range(leg.block_number) if sizes[i] > 0 and before['slices'][i] == pf[pos]]
            if not cand or pf[pos:pos + sizes[cand[0]]] != list(range(pf[pos], pf[pos] + sizes[cand[0]])):
                okp = False
                break
            want.append(cand[0])
            pos += sizes[cand[0]]
        okp = okp and len(set(want)) == len(want)
        if okp:
            if r is None:
                orc.append(('conv.perm_qind_from_perm_flat.block-permutation-not-recovered',
                            f'slices {before["slices"]} perm_flat {pf}: raises {io.err_class(e)}', 'pq'))
            elif ints(leg.perm_flat_from_perm_qind(r)) != pf or (0 not in sizes and ints(r) != want):
                orc.append(('conv.perm_qind_from_perm_flat.block-permutation-not-recovered',
                            f'slices {before["slices"]} perm_flat {pf} -> {ints(r)}', 'pq'))
        elif r is not None and ints(leg.perm_flat_from_perm_qind(r)) != pf:
            orc.append(('conv.perm_qind_from_perm_flat.mixing-accepted', f'slices {before["slices"]} perm_flat {pf} -> {ints(r)}', 'pq'))
    obs['pq'] = pq

    # --- optimisation levels: 'skip_arg_checks' skips test_sanity / test_equal / test_contractible altogether,
    #     'default' keeps the checks but does not re-derive the sorted/bunched flags
    from tenpy.tools import optimization
    forced = leg.copy()
    forced.sorted = forced.bunched = True
    with optimization.temporary_level(3):
        skipped = [attempt(f)[1] is None for f in (leg.test_sanity, lambda: leg.test_equal(other), lambda: leg.test_contractible(other),
                                                   forced.test_sanity, ch.LegPipe([leg, other]).test_sanity)]
    with optimization.temporary_level(1):
        lvl1 = [attempt(forced.test_sanity)[1] is None, attempt(lambda: leg.test_equal(other))[1] is None]
    obs['opt'] = [skipped, lvl1]
    if not all(skipped) or lvl1 != [sane(leg), eq['test_equal'] is True]:
        orc.append(('conv.optimization-level.checks', f'skip_arg_checks: {skipped}; default: {lvl1}'))
    if io.dump_leg(leg) != before:
        orc.append(('conv.leg-mutated-by-operation', ''))
    return {'in': inp, 'out': out, 'obs': obs, 'oracle': orc}


# ------------------------------------------------------------------------------------------------ kind 'arr'

class Node:
    """One axis of the current tensor, as a function of the ORIGINAL index tuple."""

    def __init__(self, kind, label, ax=None, pipe=None, ch=None, inv=None, size=None):
        self.kind, self.label, self.ax, self.pipe, self.ch, self.inv = kind, label, ax, pipe, ch, inv
        self.size = size if size is not None else (pipe.ind_len if pipe is not None else len(inv))
        self.memo = {}

    def pos(self, I):
        if self.kind == 'leaf':
            return I[self.ax]
        if self.kind == 'perm':
            return self.inv[self.ch[0].pos(I)]
        key = tuple(c.pos(I) for c in self.ch)
        if key not in self.memo:
            self.memo[key] = int(self.pipe.map_incoming_flat(list(key)))
        return self.memo[key]


def expected_dense(dense, layout, shape):
    E = np.zeros(shape, dtype=dense.dtype)
    hit = np.zeros(shape, dtype=bool)
    for I in np.ndindex(*dense.shape):
        J = tuple(n.pos(I) for n in layout)
        if hit[J]:
            return None
        hit[J] = True
        E[J] = dense[I]
    return E


def resolve(layout, ref):
    if isinstance(ref, str):
        return [n.label for n in layout].index(ref)
    return ref if ref >= 0 else ref + len(layout)


def do_arr(case, ch, npc, io):
    B = Build(case, ch)
    legs = [B.leg(l) for l in case['legs']]
    ci = legs[0].chinfo
    rs = np.random.RandomState(case['seed'])
    dt = {'f': float, 'c': complex, 'i': np.int64}[case['dtype']]

    def func(size):
        x = rs.randint(-3, 4, size)
        if case['dtype'] == 'c':
            return x + 1j * rs.randint(-3, 4, size)
        return x.astype(dt)
    qt = None
    if ci.qnumber and case['qt'] is not None:
        qt = ci.make_valid(np.sum([l.get_charge(l.get_qindex(i)[0]) for l, i in zip(legs, case['qt'])], axis=0))
    a = npc.Array.from_func(func, legs, dtype=dt, qtotal=qt, labels=list(case['labels']))
    a.isort_qdata()
    keep = [i for i in range(a.stored_blocks) if case['keep'][i % len(case['keep'])]]
    a._data = [a._data[i] for i in keep]
    a._qdata = np.array(a._qdata[keep], dtype=np.intp).reshape(len(keep), a.rank)
    dense = a.to_ndarray()
    orc = []
    obs = dict(stored_blocks=int(a.stored_blocks), steps=[])
    if not sane(a):
        return {'obs': obs, 'out': {}, 'oracle': [('arr.harness.initial-tensor-insane', '')]}
    layout = [Node('leaf', lab, ax=i, size=legs[i].ind_len) for i, lab in enumerate(case['labels'])]
    cur = a
    for step, op in enumerate(case['prog']):
        tag = f'step {step} {op["op"]}'
        pre_dense = cur.to_ndarray()
        pre_labels = list(cur.get_leg_labels())
        try:
            fn = {'combine': op_combine, 'split': op_split, 'sortleg': op_sortleg, 'blocked': op_blocked,
                  'make_pipe': op_make_pipe, 'bad': op_bad}[op['op']]
            new, layout2, info = fn(cur, layout, op, orc, ch, npc, io, tag)
        except Exception as e:
            import traceback
            if isinstance(e, ValueError) and 'Duplicate label entry' in str(e) and op['op'] in ('combine', 'blocked', 'sortleg') \
                    and any(n.label is None for n in layout) and any(n.label and '?' in n.label for n in layout):
                # the '?#' placeholder of an unlabelled leg repeats the label of an earlier pipe of unlabelled legs
                orc.append(('arr.combine_legs.anonymous-label-collision', f'{tag}: labels {[n.label for n in layout]}: {str(e)[:80]}'))
                break
            orc.append((f'arr.{op["op"]}.raises.' + io.err_class(e), f'{tag}: {str(e)[:150]} {traceback.format_exc()[-300:]}'))
            break
        obs['steps'].append(info)
        if not np.array_equal(cur.to_ndarray(), pre_dense) or list(cur.get_leg_labels()) != pre_labels or not sane(cur):
            orc.append((f'arr.{op["op"]}.operand-changed', tag))
        if new is None:
            continue
        n_orc = len(orc)
        if not sane(new):
            orc.append((f'arr.{op["op"]}.insane', tag))
        elif np.any(new.qtotal != cur.qtotal) or new.dtype != cur.dtype:
            orc.append((f'arr.{op["op"]}.qtotal-or-dtype-changed', tag))
        else:
            got = new.to_ndarray()
            shape = tuple(n.size for n in layout2)
            if got.shape != shape:
                orc.append((f'arr.{op["op"]}.shape', f'{tag}: {got.shape} expected {shape}'))
            else:
                E = expected_dense(dense, layout2, shape)
                if E is None:
                    orc.append((f'arr.{op["op"]}.index-map-not-injective', tag))
                elif not np.array_equal(got, E):
                    cut = op.get('cutoff', 0.)
                    if not (cut > 0 and dropped_only(got, E, cut)):
                        bad = np.argwhere(got != E)[0]
                        orc.append((f'arr.{op["op"]}.data-misplaced', f'{tag}: at {tuple(int(x) for x in bad)} got {got[tuple(bad)]} expected {E[tuple(bad)]}'))
            want_labels = [n.label for n in layout2]
            if list(new.get_leg_labels()) != want_labels:
                orc.append((f'arr.{op["op"]}.labels', f'{tag}: {new.get_leg_labels()} expected {want_labels}'))
            for ax, n in enumerate(layout2):
                want = legs[n.ax] if n.kind == 'leaf' else n.pipe if n.kind == 'pipe' else None
                if want is not None:
                    try:
                        new.legs[ax].test_equal(want)
                        if n.kind == 'pipe' and io.dump_pipe(new.legs[ax]) != io.dump_pipe(want):
                            raise ValueError('pipe structure')
                    except ValueError as e:
                        orc.append((f'arr.{op["op"]}.leg-differs', f'{tag}: axis {ax} {str(e)[:60]}'))
                        break
        if len(orc) > n_orc:
            break
        cur, layout = new, layout2
    obs['final'] = dict(labels=list(cur.get_leg_labels()), shape=ints(cur.shape), blocks=int(cur.stored_blocks),
                        legs=[io.dump_pipe(l) if isinstance(l, ch.LegPipe) else io.dump_leg(l) for l in cur.legs])
    return {'obs': obs, 'out': {}, 'oracle': orc}


def dropped_only(got, E, cut):
    """split_legs(cutoff): entries may only differ by having been dropped (set to 0) where |entry| <= cutoff"""
    diff = got != E
    return bool(np.all(got[diff] == 0) and np.all(np.abs(E[diff]) <= cut))


def node_leg(n, legs):
    return legs[n.ax] if n.kind == 'leaf' else n.pipe


def op_combine(cur, layout, op, orc, ch, npc, io, tag):
    groups = [[resolve(layout, r) for r in g] for g in op['groups']]
    rank = len(layout)
    npipes = len(groups)
    first_q = [cur.legs[g[0]].qconj for g in groups]
    qc = op['qconj']
    qlist = [None] * npipes if qc is None else ([qc] * npipes if not isinstance(qc, list) else qc)
    want_pipes, arg_pipes = [], []
    for g, mode, q, fq in zip(groups, op['pipes'], qlist, first_q):
        gl = [cur.legs[x] for x in g]
        if mode is None:
            want_pipes.append(ch.LegPipe(gl, qconj=fq if q is None else q))
            arg_pipes.append(None)
        else:
            p = ch.LegPipe(gl, qconj=mode['qconj'], sort=mode['sort'], bunch=mode['bunch'])
            want_pipes.append(p)
            arg_pipes.append(p.conj() if mode['conj'] else p)
    spect = [x for x in range(rank) if not any(x in g for g in groups)]
    new_rank = len(spect) + npipes
    if op['new_axes'] is None:
        firsts = [g[0] for g in groups]
        na = [sum(s < f for s in spect) + sum(f2 < f for f2 in firsts) for f in firsts]
    else:
        na = [x + new_rank if x < 0 else x for x in (op['new_axes'] if isinstance(op['new_axes'], list) else [op['new_axes']])]
    # labels of the pipes: '?#' with # the axis in the tensor being combined
    labs = [n.label if n.label is not None else '?' + str(i) for i, n in enumerate(layout)]
    nodes = [layout[x] for x in spect]
    for j in sorted(range(npipes), key=lambda j: na[j]):
        g = groups[j]
        nodes.insert(na[j], Node('pipe', '(' + '.'.join(labs[x] for x in g) + ')', pipe=want_pipes[j], ch=[layout[x] for x in g]))
    # ---- the call, in the requested argument form
    refs = op['groups']
    kw = {}
    if op['single']:
        refs = refs[0]
        if op['new_axes'] is not None:
            kw['new_axes'] = op['new_axes']
        if any(p is not None for p in arg_pipes):
            kw['pipes'] = arg_pipes[0]
        if qc is not None:
            kw['qconj'] = qc
    else:
        if op['new_axes'] is not None:
            kw['new_axes'] = tuple(op['new_axes']) if op.get('axes_tuple') else list(op['new_axes'])
        if any(p is not None for p in arg_pipes):
            kw['pipes'] = arg_pipes
        if qc is not None:
            kw['qconj'] = qc
    given_axes = kw.get('new_axes')
    snapshot = list(given_axes) if isinstance(given_axes, list) else None
    try:
        res = cur.combine_legs(refs, **kw)
    except TypeError as e:
        if isinstance(given_axes, tuple) and any(x < 0 for x in given_axes):
            orc.append(('arr.combine_legs.new_axes.tuple-negative.TypeError', f'{tag}: new_axes={given_axes}: {str(e)[:80]}'))
            return None, layout, dict(op='combine', error='TypeError')
        raise
    if snapshot is not None and list(given_axes) != snapshot:
        orc.append(('arr.combine_legs.new_axes.list-mutated', f'{tag}: {snapshot} became {list(given_axes)}'))
    return res, nodes, dict(op='combine', labels=list(res.get_leg_labels()))


def op_split(cur, layout, op, orc, ch, npc, io, tag):
    if op['axes'] is None:
        axes = [i for i, n in enumerate(layout) if n.kind == 'pipe']
        kw = {}
    else:
        lst = op['axes'] if isinstance(op['axes'], list) else [op['axes']]
        axes = sorted(resolve(layout, r) for r in lst)
        kw = dict(axes=op['axes'])
    if op.get('cutoff'):
        kw['cutoff'] = op['cutoff']
    nodes = []
    for i, n in enumerate(layout):
        if i in axes:
            nodes.extend(n.ch)
        else:
            nodes.append(n)
    res = cur.split_legs(**kw)
    if len(axes) == 0 and res is cur:
        orc.append(('arr.split_legs.no-copy', tag))
    return res, nodes, dict(op='split', labels=list(res.get_leg_labels()), blocks=int(res.stored_blocks))


def op_sortleg(cur, layout, op, orc, ch, npc, io, tag):
    rank = len(layout)
    sort, bunch = op['sort'], op['bunch']
    sl = sort if isinstance(sort, list) else [sort] * rank
    bl = bunch if isinstance(bunch, list) else [bunch] * rank
    try:
        perms, res = cur.sort_legcharge(sort=[np.array(s) if isinstance(s, list) else s for s in sort] if isinstance(sort, list) else sort,
                                        bunch=bunch)
    except ValueError as e:
        if isinstance(sort, list) and any(isinstance(s, list) for s in sort):
            orc.append(('arr.sort_legcharge.sort-given-as-permutation.raises', f'{tag}: {str(e)[:80]}'))
            return None, layout, dict(op='sortleg', error='ValueError')
        raise
    except IndexError as e:
        if not any(isinstance(s, list) or s for s in sl) and not any(bl):
            orc.append(('arr.sort_legcharge.nothing-to-do.raises.IndexError', f'{tag}: sort={sort} bunch={bunch}: {str(e)[:60]}'))
            return None, layout, dict(op='sortleg', error='IndexError')
        raise
    # documented: cp.to_ndarray() == self.to_ndarray()[np.ix_(*perm)]
    if len(perms) != rank or any(sorted(ints(p)) != list(range(cur.shape[i])) for i, p in enumerate(perms)):
        orc.append(('arr.sort_legcharge.perm-not-permutation', tag))
        return None, layout, dict(op='sortleg')
    if not np.array_equal(res.to_ndarray(), cur.to_ndarray()[np.ix_(*perms)]):
        orc.append(('arr.sort_legcharge.documented-permutation-wrong', tag))
    nodes = []
    for ax, n in enumerate(layout):
        old, new = cur.legs[ax], res.legs[ax]
        if isinstance(sl[ax], list):
            raise NotImplementedError
        if not (sl[ax] or bl[ax]):
            if new is not old and io.dump_leg(new) != io.dump_leg(old):
                orc.append(('arr.sort_legcharge.untouched-leg-changed', f'{tag} axis {ax}'))
            nodes.append(n)
            continue
        if isinstance(new, ch.LegPipe) or (sl[ax] and not new.is_sorted()) or (bl[ax] and not new.is_bunched()) \
                or (sl[ax] and bl[ax] and not new.is_blocked()):
            orc.append(('arr.sort_legcharge.not-sorted-or-bunched', f'{tag} axis {ax}'))
        if (not bl[ax] and sorted(ints(new.get_block_sizes())) != sorted(ints(old.get_block_sizes()))) or \
                (not sl[ax] and ints(perms[ax]) != list(range(cur.shape[ax]))):
            orc.append(('arr.sort_legcharge.sorted-or-bunched-although-not-requested', f'{tag} axis {ax}'))
        po = io.phys_qflat(old)
        if [po[i] for i in ints(perms[ax])] != io.phys_qflat(new):
            orc.append(('arr.sort_legcharge.charge-moved', f'{tag} axis {ax}'))
        inv = np.argsort(np.array(perms[ax]))
        nodes.append(Node('perm', n.label, ch=[n], inv=[int(x) for x in inv]))
    return res, nodes, dict(op='sortleg', perms=[ints(p) for p in perms])


def op_blocked(cur, layout, op, orc, ch, npc, io, tag):
    enc, res = cur.as_completely_blocked()
    want = [i for i, l in enumerate(cur.legs) if len({tuple(r) for r in rows(l.charges)}) != l.block_number]
    if ints(enc) != want:
        orc.append(('arr.as_completely_blocked.wrong-axes', f'{tag}: {ints(enc)} expected {want}'))
        return None, layout, dict(op='blocked')
    if not want and res is not cur:
        orc.append(('arr.as_completely_blocked.copy-although-blocked', tag))
    if not all(l.is_blocked() for l in res.legs) or not res.is_completely_blocked():
        orc.append(('arr.as_completely_blocked.not-blocked', tag))
    nodes = []
    for ax, n in enumerate(layout):
        if ax in want:
            lab = n.label if n.label is not None else '?' + str(ax)
            nodes.append(Node('pipe', '(' + lab + ')', pipe=ch.LegPipe([cur.legs[ax]], qconj=cur.legs[ax].qconj), ch=[n]))
        else:
            nodes.append(n)
    return res, nodes, dict(op='blocked', enc=ints(enc))


def op_make_pipe(cur, layout, op, orc, ch, npc, io, tag):
    axes = [resolve(layout, r) for r in op['axes']]
    kw = {k: op[k] for k in ('qconj', 'sort', 'bunch') if op.get(k) is not None}
    p = cur.make_pipe(op['axes'], **kw)
    want = ch.LegPipe([cur.legs[x] for x in axes], **kw)
    if io.dump_pipe(p) != io.dump_pipe(want) or any(x is not y for x, y in zip(p.legs, [cur.legs[x] for x in axes])):
        orc.append(('arr.make_pipe.differs-from-LegPipe', tag))
    return None, layout, dict(op='make_pipe', pipe=io.dump_pipe(p))


def op_bad(cur, layout, op, orc, ch, npc, io, tag):
    """documented argument errors: every one must be a ValueError (and leave the tensor alone)"""
    rank = len(layout)
    what = op['what']
    pipes = [i for i, n in enumerate(layout) if n.kind == 'pipe']
    plain = [i for i in range(rank) if not isinstance(cur.legs[i], ch.LegPipe)]
    call = None
    if what == 'pipes_len' and rank >= 2:
        call = lambda: cur.combine_legs([[0], [1]], pipes=[None])
    elif what == 'qconj_len' and rank >= 2:
        call = lambda: cur.combine_legs([[0], [1]], qconj=[1, -1, 1])
    elif what == 'pipe_nlegs' and rank >= 2:
        call = lambda: cur.combine_legs([0, 1], pipes=cur.make_pipe([0]))
    elif what == 'dup_leg' and rank >= 2:
        call = lambda: cur.combine_legs([[0, 1], [1]])
    elif what == 'new_axes_len' and rank >= 2:
        call = lambda: cur.combine_legs([[0], [1]], new_axes=[0])
    elif what == 'new_axes_big' and rank >= 2:
        call = lambda: cur.combine_legs([0, 1], new_axes=[rank - 1])
    elif what == 'split_nonpipe' and plain:
        call = lambda: cur.split_legs([plain[0]])
    elif what == 'split_twice' and pipes:
        call = lambda: cur.split_legs([pipes[0], pipes[0] - rank])
    elif what == 'pipe_other_legs' and rank >= 2 and cur.shape[0] > 0:
        other = cur.legs[0].extend(1)
        call = lambda: cur.combine_legs([0, 1], pipes=ch.LegPipe([other, cur.legs[1]]))
    elif what == 'sort_len' and rank >= 1:
        call = lambda: cur.sort_legcharge(sort=[True] * (rank + 1))
    elif what == 'map_flat_len' and pipes:
        call = lambda: cur.legs[pipes[0]].map_incoming_flat([0] * (cur.legs[pipes[0]].nlegs + 1))
    if call is None:
        return None, layout, dict(op='bad', what=what, skipped=True)
    try:
        call()
        orc.append((f'arr.bad-argument.{what}.accepted', tag))
    except ValueError:
        pass
    return None, layout, dict(op='bad', what=what)


if __name__ == '__main__':
    main(sys.argv[1], sys.argv[2])
