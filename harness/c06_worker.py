"""Runs the REAL LegCharge/LegPipe code on generated cases (child process; kernel configuration from the env).

usage: python -m harness.c06_worker <cases.json> <out.json>
For each case: {"in": inputs as actually constructed (flags included), "out": observed results,
                "oracle": [list of property violations found by the model-free oracle]}
"""
import itertools
import json
import sys
import warnings

import numpy as np

warnings.simplefilter('ignore')


def main(inp, outp):
    import tenpy
    from tenpy.tools import optimization
    from tenpy.linalg import charges as ch
    from tenpy.linalg import np_conserved as npc
    from vlib import npcio
    optimization.set_level(0)
    cases = json.load(open(inp))
    results = []
    for case in cases:
        try:
            if case['k'] == 'leg':
                results.append(do_leg(case, ch, npc, npcio))
            else:
                results.append(do_pipe(case, ch, npc, npcio))
        except Exception as e:  # infrastructure problem of this case: report, don't die
            import traceback
            results.append({'crash': traceback.format_exc()[-1500:]})
    meta = dict(have_cython=bool(optimization.have_cython_functions), tenpy_file=tenpy.__file__)
    json.dump(dict(meta=meta, results=results), open(outp, 'w'))


def sane(obj):
    try:
        obj.test_sanity()
        return True
    except Exception:
        return False


def do_leg(case, ch, npc, io):
    leg = io.make_leg(case['leg'])
    extra = io.make_leg(case['extra'])
    mask = np.array(case['mask'], dtype=bool)
    inp = dict(k='leg', leg=io.dump_leg(leg), extra=io.dump_leg(extra), mask=[bool(m) for m in mask], gq=case['gq'])
    orc = []
    before = io.dump_leg(leg)
    phys = io.phys_qflat(leg)
    out = {}
    out['qflat'] = [[int(x) for x in r] for r in leg.to_qflat()]
    out['is_sorted'] = bool(leg.is_sorted())
    out['is_bunched'] = bool(leg.is_bunched())
    out['is_blocked'] = bool(leg.is_blocked())
    out['sane'] = sane(leg)
    for key, bunch in [('sort1', True), ('sort0', False)]:
        perm, s = leg.sort(bunch=bunch)
        d = dict(perm=[int(x) for x in perm], leg=io.dump_leg(s))
        pflat = [int(x) for x in leg.perm_flat_from_perm_qind(perm)] if leg.block_number > 0 else []
        if bunch:
            d['pflat'] = pflat
        out[key] = d
        # oracle: charge attached to every surviving index unchanged (through the flat permutation)
        if not sane(s):
            orc.append(('leg.sort.insane', f'bunch={bunch}'))
        if sorted(pflat) != list(range(leg.ind_len)):
            orc.append(('leg.sort.perm-not-permutation', str(pflat)))
        elif [phys[i] for i in pflat] != io.phys_qflat(s):
            orc.append(('leg.sort.charge-moved', f'bunch={bunch}'))
        if not s.is_sorted() or (bunch and not s.is_bunched()):
            orc.append(('leg.sort.not-sorted', f'bunch={bunch}'))
    idx, b = leg.bunch()
    out['bunch'] = dict(idx=[int(x) for x in idx], leg=io.dump_leg(b))
    if io.phys_qflat(b) != phys or not sane(b) or not b.is_bunched():
        orc.append(('leg.bunch.charge-moved-or-insane', ''))
    mq, bms, pr = leg.project(mask)
    out['project'] = dict(map=[int(x) for x in mq], masks=[[bool(x) for x in bm] for bm in bms], leg=io.dump_leg(pr))
    if io.phys_qflat(pr) != [p for p, m in zip(phys, mask) if m] or not sane(pr):
        orc.append(('leg.project.charge-moved-or-insane', ''))
    ex = leg.extend(extra)
    out['extend'] = io.dump_leg(ex)
    if io.phys_qflat(ex) != phys + io.phys_qflat(extra) or not sane(ex):
        orc.append(('leg.extend.charge-moved-or-insane', ''))
    cj = leg.conj()
    out['conj'] = io.dump_leg(cj)
    fl = leg.flip_charges_qconj()
    out['flip'] = io.dump_leg(fl)
    if io.phys_qflat(fl) != phys or not sane(fl):
        orc.append(('leg.flip.charge-changed-or-insane', ''))
    neg = [[int(x) for x in leg.chinfo.make_valid(-np.array(p))] for p in phys] if leg.chinfo.qnumber else phys
    if io.phys_qflat(cj) != neg:
        orc.append(('leg.conj.charge-not-negated', ''))
    try:
        leg.test_contractible(cj)
        out['contractible'] = True
    except ValueError:
        out['contractible'] = False
        orc.append(('leg.conj.not-contractible', ''))
    try:
        leg.test_equal(fl)
        out['flip_equal'] = True
    except ValueError:
        out['flip_equal'] = False
        orc.append(('leg.flip.not-equal', ''))
    gq = []
    for i in case['gq']:
        try:
            q, w = leg.get_qindex(i)
            gq.append([int(q), int(w)])
            ii = i + leg.ind_len if i < 0 else i
            if not (0 <= ii < leg.ind_len and 0 <= q < leg.block_number
                    and leg.slices[q] + w == ii and 0 <= w < leg.slices[q + 1] - leg.slices[q]):
                orc.append(('leg.get_qindex.out-of-range-accepted', f'ind_len={leg.ind_len} i={i} -> {(int(q), int(w))}'))
        except IndexError:
            gq.append(None)
            ii = i + leg.ind_len if i < 0 else i
            if 0 <= ii < leg.ind_len:
                orc.append(('leg.get_qindex.valid-index-rejected', f'i={i}'))
    out['gq'] = gq
    if io.dump_leg(leg) != before:
        orc.append(('leg.mutated-by-operation', ''))
    return {'in': inp, 'out': out, 'oracle': orc}


def do_pipe(case, ch, npc, io):
    legs = [io.make_leg(l) for l in case['legs']]
    qconj, sort, bunch = case['qconj'], case['sort'], case['bunch']
    inp = dict(k='pipe', legs=[io.dump_leg(l) for l in legs], qconj=qconj, sort=sort, bunch=bunch, idx=case['idx'])
    orc = []
    try:
        p = ch.LegPipe(legs, qconj=qconj, sort=sort, bunch=bunch)
    except Exception as e:
        return {'in': inp, 'out': {'error': io.err_class(e)}, 'oracle': []}
    out = {'pipe': io.dump_pipe(p)}
    flat = []
    for idx in case['idx']:
        try:
            flat.append(int(p.map_incoming_flat(idx)))
        except (IndexError, ValueError):
            flat.append(None)
    out['flat'] = flat
    out['qflat'] = [[int(x) for x in r] for r in p.to_qflat()]
    out['sane'] = sane(p)
    if not out['sane']:
        orc.append(('pipe.init.insane', ''))
    cj = p.conj()
    out['conj'] = io.dump_pipe(cj)
    oc = p.outer_conj()
    out['outer_conj'] = io.dump_pipe(oc)
    # ---- model-free oracle
    shape = [l.ind_len for l in legs]
    n = int(np.prod(shape))
    if p.ind_len != n:
        orc.append(('pipe.ind_len', f'{p.ind_len} vs {n}'))
    physp = io.phys_qflat(p)
    physl = [io.phys_qflat(l) for l in legs]
    ci = p.chinfo
    if n <= 4000:
        seen = {}
        for idx in itertools.product(*[range(s) for s in shape]):
            f = int(p.map_incoming_flat(list(idx)))
            if f in seen or not (0 <= f < n):
                orc.append(('pipe.map_incoming_flat.not-bijective', f'{idx} and {seen.get(f)} -> {f}'))
                break
            seen[f] = idx
            want = [int(x) for x in ci.make_valid(np.sum([physl[k][i] for k, i in enumerate(idx)], axis=0))] \
                if ci.qnumber else []
            if physp[f] != want:
                orc.append(('pipe.fusion-rule', f'idx {idx} -> {f}: pipe charge {physp[f]} expected {want}'))
                break
        # data placement: combine_legs puts entry idx at map_incoming_flat(idx); split restores
        if n > 0 and not orc:
            rs = np.random.RandomState(case.get('seed', 0))
            pc = p.conj()
            try:
                a = npc.Array.from_func(lambda size: rs.randint(-3, 4, size).astype(float), legs + [pc], dtype=float)
            except Exception as e:
                a = None
            if a is not None:
                try:
                    check_placement(a, p, legs, seen, orc, sane)
                except Exception as e:  # valid input: an exception means "not restored"
                    orc.append(('pipe.combine-split.raises.' + io.err_class(e), str(e)[:200]))
                a = None
            if a is not None:
                dense = a.to_ndarray()
                comb = a.combine_legs(list(range(len(legs))), pipes=p)
                cd = comb.to_ndarray()
                ok = True
                for f, idx in seen.items():
                    if not np.array_equal(cd[f], dense[idx]):
                        orc.append(('pipe.combine.placement-differs-from-map', f'idx {idx} flat {f}'))
                        ok = False
                        break
                back = comb.split_legs(0)
                if not np.array_equal(back.to_ndarray(), dense):
                    orc.append(('pipe.split-combine-not-identity', ''))
                for l0, l1 in zip(a.legs, back.legs):
                    try:
                        l0.test_equal(l1)
                    except ValueError:
                        orc.append(('pipe.split-combine-legs-differ', ''))
                        break
                if not sane(comb) or not sane(back):
                    orc.append(('pipe.combine-split.insane', ''))
    # conj: contractible with the original; outer_conj: same physical charges, still a valid pipe of the same legs
    try:
        p.test_contractible(cj)
    except ValueError:
        orc.append(('pipe.conj.not-contractible', ''))
    if not sane(cj) or not sane_leg(cj):
        orc.append(('pipe.conj.insane', ''))
    if not sane_leg(oc):
        orc.append(('pipe.outer_conj.insane', f'qconj={p.qconj} sorted flag {oc.sorted}'))
    # outer_conj: the pipe over the SAME incoming legs with the outgoing direction reversed: the fusion rule
    # (charge*qconj of the pipe = sum over incoming) must keep holding, i.e. physical charges unchanged
    if io.phys_qflat(oc) != physp or oc.qconj != -p.qconj:
        orc.append(('pipe.outer_conj.breaks-fusion-rule', f'qconj {p.qconj} -> {oc.qconj}'))
    return {'in': inp, 'out': out, 'oracle': orc}


def check_placement(a, p, legs, seen, orc, sane):
    dense = a.to_ndarray()
    comb = a.combine_legs(list(range(len(legs))), pipes=p)
    cd = comb.to_ndarray()
    for f, idx in seen.items():
        if not np.array_equal(cd[f], dense[idx]):
            orc.append(('pipe.combine.placement-differs-from-map', f'idx {idx} flat {f}'))
            break
    back = comb.split_legs(0)
    if not np.array_equal(back.to_ndarray(), dense):
        orc.append(('pipe.split-combine-not-identity', ''))
    for l0, l1 in zip(a.legs, back.legs):
        try:
            l0.test_equal(l1)
        except ValueError:
            orc.append(('pipe.split-combine-legs-differ', ''))
            break
    if not sane(comb) or not sane(back):
        orc.append(('pipe.combine-split.insane', ''))
    # a second tensor with the pipe on the other side: contraction over the pipe = contraction over the legs
    if any(0 in l.get_block_sizes() for l in a.legs):
        return  # contraction of zero-size blocks is C01/C04's business (BLAS on empty arrays)
    b = a.conj()
    full = npc_tensordot(a, b, len(legs) + 1)
    combb = b.combine_legs(list(range(len(legs))), pipes=p.conj())
    via = npc_tensordot(comb, combb, 2)
    if abs(complex(full) - complex(via)) > 1e-9 * (1 + abs(complex(full))):
        orc.append(('pipe.contract-over-pipe-differs', f'{full} vs {via}'))


def npc_tensordot(a, b, n):
    from tenpy.linalg import np_conserved as npc
    return npc.tensordot(a, b, axes=[list(range(n)), list(range(n))])


def sane_leg(p):
    from tenpy.linalg.charges import LegCharge
    try:
        LegCharge.test_sanity(p)
        return True
    except Exception:
        return False


if __name__ == '__main__':
    main(sys.argv[1], sys.argv[2])
