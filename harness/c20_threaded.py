"""ThreadedStorage + Worker under a deterministic scheduler (concurrent part of C20), and a stress run with real
threads.

A case = (DictCache operation list, max_queue_size, fault index or None, schedule policy).  The REAL classes run
with cooperative queue/event/thread objects (harness/c20_sched.py); the recorded schedule is then given to the Lean
transition system `TenpyModel.C20.Threaded` (program = the storage calls that the Lean `DictCache` model derives
from the same operation list).  Compared: every label (which shared access, by which thread, with which result),
the set of enabled threads before every step, the result of every storage call, the final state.

Independent oracle (no model): a Python dict for the values returned up to the first exception; no exception
without an injected fault; after a fault only WorkerDied/AssertionError; the run terminates (no deadlock, no
livelock), the worker thread is dead after close and the cache directory is gone.
"""
import logging
import multiprocessing
import os
import random
import shutil
import tempfile
import threading
import time
import warnings

from vlib import core
from harness import c20_cache
from harness import c20_sched
from harness.c20_cache import keyname, mkval, unval

MAX_STEPS = 3000


class InjectedFault(Exception):
    pass


# (program, schedule) pairs on which the real code and the Lean model disagreed in this process: first candidates
# of the failing-input search
MISMATCHES = []


# ---------------------------------------------------------------------------------------------
# generator: DictCache operations that make sense with a worker thread


def gen_ops(rng, maxlen, nkeys=2, subs=True):
    n = rng.randint(1, maxlen)
    ops, ncache, nval = [], 1, 0
    have_sub = False
    for _ in range(n):
        c = rng.randrange(ncache)
        k = rng.randrange(nkeys)
        r = rng.random()
        if r < 0.30:
            nval += 1
            ops.append([c, 'set', k, nval])
        elif r < 0.55:
            ops.append([c, 'getitem', k])
        elif r < 0.60:
            ops.append([c, 'get', k])
        elif r < 0.72:
            ops.append([c, 'del', k])
        elif r < 0.88:
            ks = sorted({rng.randrange(nkeys) for _ in range(rng.randint(1, 2))})
            ops.append([c, 'preload', ks, False])
        elif r < 0.95:
            ks = sorted({rng.randrange(nkeys) for _ in range(rng.randint(0, 2))})
            ops.append([c, 'stk', ks])
        elif subs and not have_sub:
            ops.append([0, 'sub', 0])
            have_sub, ncache = True, 2
        else:
            ops.append([c, 'contains', k])
    return ops


def _noise(rng, c, nkeys, nval):
    k = rng.randrange(nkeys)
    r = rng.random()
    if r < 0.3:
        nval[0] += 1
        return [c, 'set', k, nval[0]]
    if r < 0.55:
        return [c, 'getitem', k]
    if r < 0.7:
        return [c, 'preload', [k], False]
    if r < 0.85:
        return [c, 'del', k]
    return [c, 'contains', k]


def gen_scenario(rng, nkeys=2):
    """Programs around the life cycle of ONE key that passes through the worker in every role:
    written, preloaded (-> short-term key), deleted or overwritten while the preload may still be pending, written
    again, dropped from the short-term keys (so the next read really goes to the ThreadedStorage), read.  Steps are
    dropped / repeated / interleaved with operations on other keys at random; ends with reads of every key."""
    nval = [0]
    use_sub = rng.random() < 0.25
    c = 1 if use_sub else 0
    k = rng.randrange(nkeys)
    ops = [[0, 'sub', 0]] if use_sub else []

    def val():
        nval[0] += 1
        return nval[0]
    core_steps = [
        [c, 'set', k, None],
        [c, 'preload', [k], False],
        rng.choice([[c, 'del', k], [c, 'del', k], [c, 'set', k, None], [c, 'getitem', k]]),
        rng.choice([[c, 'set', k, None], [c, 'set', k, None], [c, 'preload', [k], False]]),
        [c, 'stk', sorted({kk for kk in range(nkeys) if kk != k and rng.random() < 0.3})],
        [c, 'getitem', k],
    ]
    for st in core_steps:
        if rng.random() < 0.25:
            ops.append(_noise(rng, rng.choice([0, c]), nkeys, nval))
        if rng.random() < 0.12:
            continue                      # drop this step
        st = list(st)
        if st[1] == 'set':
            st[3] = val()
        ops.append(st)
        if rng.random() < 0.1:
            ops.append(list(st) if st[1] != 'set' else [st[0], 'set', st[2], val()])
    if rng.random() < 0.7:
        ops += final_reads(ops, nkeys)
    return ops


def final_reads(ops, nkeys, rewrite=False, start_val=1000):
    """`set_short_term_keys()` + a read of every key of every cache (optionally after writing every key again)"""
    ncache = 1 + sum(1 for o in ops if o[1] == 'sub')
    out, v = [], start_val
    for c in range(ncache):
        if rewrite:
            for k in range(nkeys):
                v += 1
                out.append([c, 'set', k, v])
        out.append([c, 'stk', []])
        out += [[c, 'get', k] for k in range(nkeys)]
    return out


def n_storage_calls(ops):
    """upper bound of the number of tasks, for choosing a fault index"""
    return sum(len(o[2]) if o[1] == 'preload' else 1 for o in ops if o[1] in ('set', 'getitem', 'get', 'del', 'preload'))


# ---------------------------------------------------------------------------------------------
# running the real code under the scheduler


def run_scheduled(ops, maxsize, fail_at, chooser, storage='PickleStorage'):
    """returns a dict: trace, schedule, enabled, outs (DictCache level), call_outs (storage level), outcome, ..."""
    import tenpy.tools.thread as tt
    from tenpy.tools.cache import CacheFile
    S = c20_sched.Sched(chooser, max_steps=MAX_STEPS)
    state = dict(ndisk=0, fail_at=fail_at, fault=False, call_outs=[], outs=[], error=None, cids={}, post={})

    def describe(item):
        fct, args = item[0], item[1]
        return [getattr(fct, '_kind', 9), 16 * getattr(fct, '_cid', 0) + int(args[0][1:])]

    qmod, tmod = c20_sched.make_modules(S, describe)

    def instrument(ts, cid):
        def enc(key):
            return 16 * cid + int(key[1:])
        ts._loaded = c20_sched.YieldDict(S, enc, unval)
        disk = ts.disk_storage
        for name, kind in (('load', 0), ('save', 2), ('delete', 3)):
            def w(key, *a, _orig=getattr(disk, name), _kind=kind):
                def perform():
                    n = state['ndisk']
                    state['ndisk'] += 1
                    if state['fail_at'] is not None and n == state['fail_at']:
                        state['fault'] = True
                        raise InjectedFault('injected disk fault')
                    return _orig(key, *a)
                return S.sync(lambda r: [12, 0 if isinstance(r, BaseException) else 1, _kind, enc(key)], perform)
            w._kind, w._cid = kind, cid
            setattr(disk, name, w)
        for name, kind in (('load', 0), ('preload', 1), ('save', 2), ('delete', 3)):
            def m(key, *a, _orig=getattr(ts, name), _kind=kind):
                S.sync(lambda r: [0, _kind, enc(key), unval(a[0]) if a else 0])
                try:
                    r = _orig(key, *a)
                except BaseException as e:
                    if not isinstance(e, c20_sched.Abort):
                        state['call_outs'].append({'err': type(e).__name__})
                    raise
                state['call_outs'].append({'val': unval(r)} if _kind == 0 else None)
                return r
            setattr(ts, name, m)

    tmp = tempfile.mkdtemp(prefix='verif_c20t_')
    logging.getLogger('tenpy.tools.thread').disabled = True   # "thread dies with following exception" + traceback
    old_q, old_t = tt.queue, tt.threading
    tt.queue, tt.threading = qmod, tmod

    def main_prog():
        with warnings.catch_warnings():
            warnings.simplefilter('ignore')
            cache = CacheFile.open(storage_class=storage, use_threading=True, max_queue_size=maxsize, tmpdir=tmp)
        state['cache'] = cache
        ts = cache.long_term_storage
        instrument(ts, 0)
        orig_close = ts.close

        def close():
            S.sync(lambda r: [0, 4, 0, 0])
            orig_close()
        ts.close = close
        caches = [cache]
        for op in ops:
            out = c20_cache.apply_op(caches, op)
            if op[1] == 'sub' and isinstance(out, dict) and 'sub' in out:
                instrument(caches[-1].long_term_storage, out['sub'])
            state['outs'].append(out)
            if isinstance(out, dict) and str(out.get('err', '')).startswith('exc:'):
                state['error'] = out['err'][4:]
                break
        try:
            cache.close()
        except c20_sched.Abort:
            raise
        except BaseException as e:  # noqa
            state['post']['close_exc'] = type(e).__name__ + ': ' + str(e)[:200]

    try:
        outcome = S.run(main_prog)
        post = state['post']
        cache = state.get('cache')
        if outcome == 'done' and cache is not None:
            w = cache.long_term_storage.worker
            post['thread_alive'] = not w.worker_thread.t.finished
            post['leftover'] = sorted(os.listdir(tmp))
            post['open_after_close'] = bool(cache)
        exc = [repr(t.exc) for t in S.threads if t.exc is not None]
        return dict(trace=S.trace, schedule=S.schedule, enabled=S.enabled_log, outs=state['outs'],
                    call_outs=state['call_outs'], outcome=outcome, error=state['error'], fault=state['fault'],
                    post=post, thread_exc=exc, branches=getattr(chooser, 'branches', None))
    finally:
        tt.queue, tt.threading = old_q, old_t
        shutil.rmtree(tmp, ignore_errors=True)


# ---------------------------------------------------------------------------------------------
# oracle


def oracle(ops, r, fail_at):
    """(signature, detail) of the first violated requirement, or (None, None)"""
    if r['outcome'] == 'deadlock':
        return 'threaded.deadlock', f'no thread enabled after {len(r["schedule"])} steps, last labels {r["trace"][-4:]}'
    if r['outcome'] == 'budget':
        return 'threaded.no-termination', f'still running after {len(r["schedule"])} scheduling decisions ' \
                                          f'(last labels {r["trace"][-6:]})'
    if r['thread_exc']:
        return 'threaded.uncaught-exception', '; '.join(r['thread_exc'])[:300]
    exp = c20_cache.run_oracle(ops, True)
    for i, a in enumerate(r['outs']):
        if isinstance(a, dict) and str(a.get('err', '')).startswith('exc:'):
            name = a['err'][4:]
            if fail_at is None or not r['fault']:
                return f'threaded.error-without-fault.{name}', f'step {i} {ops[i]} raised {name}, no fault injected'
            if name not in ('WorkerDied', 'AssertionError'):
                return f'threaded.fault-surfaces-as.{name}', f'step {i} {ops[i]} raised {name} after a worker fault'
            break
        if a != exp[i]:
            kind = 'read' if ops[i][1] in ('getitem', 'get') else ops[i][1]
            return f'threaded.{kind}.wrong-result', f'step {i} {ops[i]}: got {a}, a dictionary gives {exp[i]}'
    post = r['post']
    if post.get('close_exc'):
        return 'threaded.close.raises', post['close_exc']
    if post.get('thread_alive'):
        return 'threaded.close.thread-alive', 'worker thread not terminated after close()'
    if post.get('leftover'):
        return 'threaded.close.files-left-behind', str(post['leftover'])
    if post.get('open_after_close'):
        return 'threaded.close.still-open', 'bool(cache) is True after close()'
    return None, None


def model_request(ops, maxsize, fail_at, schedule):
    return {'k': 'tcache', 'ops': c20_cache.model_ops(ops, True), 'maxsize': maxsize, 'failAt': fail_at,
            'sched': schedule}


def compare_model(ops, r, mod):
    """first difference between the run of the real code and the Lean transition system, or None"""
    if 'error' in mod:
        return 'model error: ' + str(mod['error'])
    mt = mod['trace']
    it = r['trace']
    for i in range(min(len(mt), len(it))):
        lab, m_en, w_en = mt[i]
        if lab != it[i]:
            return f'step {i}: label impl {it[i]} model {lab}'
        if (m_en, w_en) != tuple(r['enabled'][i]):
            return f'step {i}: enabled (main, worker) impl {r["enabled"][i]} model {(m_en, w_en)}'
    if not mod['ok'] or len(mt) != len(it):
        return f'model stopped after {len(mt)} of {len(it)} steps (next main {mod["next_main"]}, ' \
               f'next worker {mod["next_worker"]}); impl label there {it[len(mt)] if len(mt) < len(it) else None}'
    if r['outcome'] == 'done' and not (mod['main_done'] and mod['worker_dead']):
        return f'impl finished, model not: next main {mod["next_main"]} next worker {mod["next_worker"]}'
    if r['outcome'] == 'deadlock' and (mod['main_enabled'] or mod['worker_enabled']):
        return 'impl deadlocked, model has an enabled step'
    if mod['outs'] != r['call_outs']:
        return f'storage call results impl {r["call_outs"]} model {mod["outs"]}'
    n = len(r['outs']) - (1 if r['error'] else 0)
    if mod['seq_outs'][:n] != r['outs'][:n]:
        return f'DictCache results impl {r["outs"][:n]} model {mod["seq_outs"][:n]}'
    if not mod['reads_ok']:
        return 'model read log inconsistent'
    return None


def nontrivial(r):
    """both threads took steps in an interleaved way and at least one value went through the worker"""
    sw = sum(1 for a, b in zip(r['schedule'], r['schedule'][1:]) if a != b)
    return sw >= 4 and any(l[:2] == [1, 12] for l in r['trace'])


def shrink_case(case, fails):
    ops = list(case['ops'])
    changed = True
    while changed:
        changed = False
        for i in range(len(ops)):
            if ops[i][1] == 'sub' and any(o[0] > 0 for o in ops):
                continue
            cand = ops[:i] + ops[i + 1:]
            if cand and fails(dict(case, ops=cand)):
                ops, changed = cand, True
                break
    return dict(case, ops=ops)


def make_chooser(case, rng=None):
    pol = case.get('policy', 'random')
    if case.get('schedule') is not None and pol == 'replay':
        then = None
        if case.get('then_p_worker') is not None:
            then = c20_sched.BiasedChooser(random.Random(case.get('sseed', 0)), case['then_p_worker'])
        return c20_sched.ReplayChooser(case['schedule'], then)
    if pol == 'biased':
        return c20_sched.BiasedChooser(rng or random.Random(case['sseed']), case.get('p_worker', 0.1))
    if pol == 'prefix':
        return c20_sched.PrefixChooser(case['prefix'], case.get('max_preempt', 2))
    return c20_sched.RandomChooser(rng or random.Random(case['sseed']), stick=case.get('stick', 0.5),
                                   p_idle=case.get('p_idle', 0.12))


def run_case(case):
    """run one case on the real code; returns the result dict (picklable)"""
    core.use_repo()
    r = run_scheduled(case['ops'], case['maxsize'], case.get('fail_at'), make_chooser(case))
    return r


def judge(res, case, r, mod):
    """book-keeping + oracle + correspondence for one finished run"""
    ops = case['ops']
    res.note_case({k: v for k, v in case.items() if k != 'schedule'}, nontrivial(r))
    res.count('threaded.policy.' + case.get('policy', 'random'))
    res.count('threaded.maxsize=%d' % case['maxsize'])
    res.count('threaded.fault=' + ('none' if case.get('fail_at') is None else 'triggered' if r['fault'] else 'unreached'))
    res.count('threaded.decisions<=%d' % (50 * (1 + len(r['schedule']) // 50)))
    if r['error']:
        res.count('threaded.surfaced.' + r['error'])
    sig, detail = oracle(ops, r, case.get('fail_at'))
    if sig:
        replay_case = dict(case, policy='replay', schedule=r['schedule'], part='threaded')

        found = {}

        def fails(c):
            # a shrunk program needs a new schedule: try a few seeds
            pols = [dict(policy='biased', p_worker=pw, sseed=sd) for pw in (0.03, 0.2, 0.9) for sd in range(3)]
            pols += [dict(policy='random', sseed=sd) for sd in range(6)]
            for pol in pols:
                rr = run_scheduled(c['ops'], c['maxsize'], c.get('fail_at'), make_chooser(dict(c, **pol)))
                s2, d2 = oracle(c['ops'], rr, c.get('fail_at'))
                if s2 == sig:
                    found.update(ops=c['ops'], schedule=rr['schedule'], detail=d2)
                    return True
            return False
        shrunk = getattr(res, '_shrunk', None)
        if shrunk is None:
            shrunk = res._shrunk = set()
        small = replay_case
        if sig not in shrunk:        # shrink only the first failure of each kind
            shrunk.add(sig)
            small = shrink_case(replay_case, fails)
        if small['ops'] != ops and found.get('ops') == small['ops']:
            replay_case = dict(small, schedule=found['schedule'], original_ops=ops)
            detail = found['detail']
        res.fail('property', sig, detail, replay_case)
    if mod is not None:
        res.traces_validated += 1
        diff = compare_model(ops, r, mod)
        if diff and not sig:
            mc = dict(case, policy='replay', schedule=r['schedule'], part='threaded')
            res.fail('correspondence', 'threaded.model-vs-impl', diff, mc)
            if len(MISMATCHES) < 400:
                MISMATCHES.append(mc)
    return sig


def run_batch(ctx, cases, use_model=True, procs=1):
    if os.environ.get('VERIF_PROCS'):      # e.g. VERIF_PROCS=1 for coverage measurements (everything in-process)
        procs = int(os.environ['VERIF_PROCS'])
    res = core.Result()
    import tenpy.tools.cache  # noqa: F401  (import once, before forking)
    if procs > 1:
        with multiprocessing.get_context('fork').Pool(procs) as pool:
            results = pool.map(run_case, cases, chunksize=8)
    else:
        results = [run_case(c) for c in cases]
    mods = [None] * len(cases)
    if use_model and cases:
        mods = core.run_driver('C20', [model_request(c['ops'], c['maxsize'], c.get('fail_at'), r['schedule'])
                                       for c, r in zip(cases, results)])
    for c, r, m in zip(cases, results, mods):
        judge(res, c, r, m)
    return res


def random_cases(rng, n, maxlen, fault_frac=0.3):
    cases = []
    for i in range(n):
        scenario = rng.random() < 0.35
        nkeys = rng.choice([1, 2, 2, 3])
        ops = gen_scenario(rng, nkeys) if scenario else gen_ops(rng, maxlen, nkeys=nkeys)
        fail_at = None
        nc = n_storage_calls(ops)
        if nc and rng.random() < (0.1 if scenario else fault_frac):
            fail_at = rng.randrange(nc)
        case = dict(part='threaded', ops=ops, maxsize=rng.choice([1, 1, 2, 3]), fail_at=fail_at,
                    sseed=rng.getrandbits(32))
        if rng.random() < (0.6 if scenario else 0.25):
            # the worker lags behind (pending loads) or runs ahead
            case.update(policy='biased', p_worker=rng.choice([0.03, 0.1, 0.25, 0.5, 0.9]))
        else:
            case.update(policy='random', stick=rng.choice([0.2, 0.5, 0.8]), p_idle=rng.choice([0.05, 0.12, 0.3]))
        cases.append(case)
    return cases


def enumerate_schedules(base, max_preempt, limit, deadline=None):
    """all schedules (up to polling and the preemption bound) of one program: depth-first over choice vectors;
    yields (case, result)"""
    prefix = []
    n = 0
    while prefix is not None and n < limit and (deadline is None or time.time() < deadline):
        case = dict(base, policy='prefix', prefix=list(prefix), max_preempt=max_preempt)
        r = run_case(case)
        n += 1
        yield case, r
        prefix = c20_sched.next_prefix(prefix, r['branches'])


def _enum_worker(args):
    base, max_preempt, limit, deadline = args
    core.use_repo()
    out = [(c, r) for c, r in enumerate_schedules(base, max_preempt, limit, deadline)]
    exhausted = len(out) < limit and (deadline is None or time.time() < deadline)
    # keep the memory of the parent bounded: the parent only needs what the judge looks at
    return out, exhausted


def systematic(ctx, programs, max_preempt, limit, procs=1, seconds=None):
    if os.environ.get('VERIF_PROCS'):      # e.g. VERIF_PROCS=1 for coverage measurements (everything in-process)
        procs = int(os.environ['VERIF_PROCS'])
    res = core.Result()
    deadline = None if seconds is None else time.time() + seconds
    jobs = [(dict(part='threaded', ops=ops, maxsize=ms, fail_at=fa), max_preempt, limit, deadline)
            for ops, ms, fa in programs]
    if procs > 1:
        with multiprocessing.get_context('fork').Pool(procs) as pool:
            out = pool.map(_enum_worker, jobs, chunksize=1)
    else:
        out = [_enum_worker(j) for j in jobs]
    pairs = [p for lst, _ in out for p in lst]
    exhausted = sum(1 for _, ex in out if ex)
    key = 'threaded_systematic_p%d' % max_preempt
    res.extra[key + '_programs'] = len(jobs)
    res.extra[key + '_programs_fully_enumerated'] = exhausted
    res.extra[key + '_schedules'] = len(pairs)
    mods = core.run_driver('C20', [model_request(c['ops'], c['maxsize'], c.get('fail_at'), r['schedule'])
                                   for c, r in pairs]) if pairs else []
    for (c, r), m in zip(pairs, mods):
        judge(res, c, r, m)
    return res


# short programs over <= 2 keys for the systematic enumeration
def short_programs(rng, n, maxlen):
    fixed = [
        ([[0, 'set', 0, 1], [0, 'getitem', 0]], 1, None),
        ([[0, 'set', 0, 1], [0, 'preload', [0], False], [0, 'set', 0, 2], [0, 'getitem', 0]], 1, None),
        ([[0, 'set', 0, 1], [0, 'preload', [0], False], [0, 'del', 0], [0, 'set', 0, 2], [0, 'getitem', 0]], 2, None),
        ([[0, 'set', 0, 1], [0, 'set', 1, 2], [0, 'getitem', 0], [0, 'getitem', 1]], 1, 1),
        ([[0, 'set', 0, 1], [0, 'getitem', 0]], 1, 1),
        ([[0, 'set', 0, 1], [0, 'preload', [0], False], [0, 'set', 0, 2]], 2, 1),
    ]
    progs = list(fixed)
    while len(progs) < n:
        ops = gen_ops(rng, maxlen, nkeys=2, subs=False)
        nc = n_storage_calls(ops)
        if nc == 0:
            continue
        progs.append((ops, rng.choice([1, 2]), rng.randrange(nc) if rng.random() < 0.35 else None))
    return progs[:n]


# ---------------------------------------------------------------------------------------------
# stress with real threads (no scheduler, no model): dictionary oracle + termination deadline


def _stress_one(args):
    storage, ops = args
    core.use_repo()
    logging.getLogger('tenpy.tools.thread').disabled = True
    box = {}

    def body():
        box['r'] = c20_cache.run_impl(storage, ops, threaded=True, max_queue_size=box['q'])
    box['q'] = 1 + len(ops) % 3
    th = threading.Thread(target=body, daemon=True)
    th.start()
    th.join(timeout=30.0)
    if th.is_alive():
        return storage, ops, None
    return storage, ops, box.get('r')


def stress(ctx, n, maxlen, procs=4):
    if os.environ.get('VERIF_PROCS'):      # e.g. VERIF_PROCS=1 for coverage measurements (everything in-process)
        procs = int(os.environ['VERIF_PROCS'])
    res = core.Result()
    rng = ctx.sub_rng('threaded-stress')
    jobs = []
    for i in range(n):
        ops = c20_cache.gen_ops(rng, maxlen, nkeys=3, close_prob=0.0)
        ops = [o for o in ops if o[1] not in ('close', 'sub_dup')]
        if ops:
            jobs.append((rng.choice(['PickleStorage', 'PickleStorage', 'Hdf5Storage']), ops))
    if procs > 1:
        with multiprocessing.get_context('fork').Pool(procs) as pool:
            outs = pool.map(_stress_one, jobs, chunksize=4)
    else:
        outs = [_stress_one(j) for j in jobs]
    for storage, ops, r in outs:
        _judge_stress(res, storage, ops, r)
    return res


def _judge_stress(res, storage, ops, r):
    case = {'part': 'stress', 'storage': storage, 'ops': ops, 'threaded': True}
    res.note_case(case, c20_cache.nontrivial(ops))
    res.count('stress.storage.' + storage)
    if r is None:
        res.fail('property', 'threaded.real-threads.hang', f'{storage}: no termination within 30 s', case)
        return
    impl, post = r
    sig, detail = c20_cache.classify(storage, ops, impl, post, c20_cache.run_oracle(ops, True))
    if sig:
        res.fail('property', 'stress.' + sig, detail, case)


def replay_stress(ctx, case):
    """real threads are not deterministic: repeat the case a few times"""
    res = core.Result()
    for _ in range(10):
        _judge_stress(res, *_stress_one((case['storage'], case['ops'])))
        if res.failures:
            break
    return res


# ---------------------------------------------------------------------------------------------

CORPUS = [
    # preload, overwrite while the preload is pending, read
    dict(ops=[[0, 'set', 0, 1], [0, 'preload', [0], False], [0, 'set', 0, 2], [0, 'getitem', 0]], maxsize=1,
         fail_at=None, policy='random', sseed=1),
    # the failing task is the one main joins on (task_done happens before exit.set)
    dict(ops=[[0, 'set', 0, 1], [0, 'getitem', 0]], maxsize=1, fail_at=1, policy='random', sseed=2),
    dict(ops=[[0, 'set', 0, 1], [0, 'set', 1, 2], [0, 'set', 0, 3], [0, 'getitem', 1]], maxsize=1, fail_at=0,
         policy='random', sseed=3),
    dict(ops=[[0, 'sub', 0], [1, 'set', 0, 1], [0, 'set', 0, 2], [1, 'preload', [0], False], [0, 'getitem', 0],
              [1, 'getitem', 0]], maxsize=2, fail_at=None, policy='random', sseed=4),
]


def load_corpus_files():
    import json
    out = []
    for f in sorted((core.CORPUS_DIR / 'C20').glob('*.json')):
        c = json.loads(f.read_text())
        if c.get('part') == 'threaded':
            out.append(c)
    return out


def run(ctx):
    res = core.Result()
    rng = ctx.sub_rng('threaded')
    rng2 = ctx.sub_rng('threaded-systematic')
    cases = [dict(c, part='threaded') for c in CORPUS] + load_corpus_files()
    if ctx.quick:
        cases += random_cases(rng, 2000, 8)
        res.merge(run_batch(ctx, cases, procs=8))
        progs = short_programs(rng2, 10, 3)
        res.merge(systematic(ctx, progs, max_preempt=2, limit=200, procs=8, seconds=40))
        tiny = sorted(progs, key=lambda p: len(p[0]))[:4]
        res.merge(systematic(ctx, tiny, max_preempt=1000, limit=500, procs=8, seconds=30))
        res.merge(stress(ctx, 80, 14, procs=8))
        return res
    procs = 14
    res.merge(run_batch(ctx, cases, procs=1))
    t0, n = time.time(), 0
    while n < 200000 and time.time() - t0 < 0.33 * ctx.budget_s:
        res.merge(run_batch(ctx, random_cases(rng, 6000, 10), procs=procs))
        n += 6000
    res.extra['threaded_random_cases'] = n
    progs = short_programs(rng2, 90, 5)
    res.merge(systematic(ctx, progs, max_preempt=2, limit=6000, procs=procs, seconds=0.15 * ctx.budget_s))
    short = sorted(progs, key=lambda p: len(p[0]))
    res.merge(systematic(ctx, short[:40], max_preempt=3, limit=20000, procs=procs, seconds=0.12 * ctx.budget_s))
    # no bound on preemptions (all schedules up to idle polling) for the shortest programs
    mid = [p for p in short if 2 <= len(p[0]) <= 4][:28]
    res.merge(systematic(ctx, mid, max_preempt=1000, limit=40000, procs=procs, seconds=0.12 * ctx.budget_s))
    res.merge(stress(ctx, 1500, 14, procs=procs))
    return res


def mismatch_candidates(rng, limit):
    """Failing-input candidates derived from trace mismatches: the same program under the same schedule, run to
    the END and followed by extra operations that expose a corrupted `_loaded/_waiting_for_load/disk`: read every key
    with empty short-term keys, as is and after writing every key once more; the recorded schedule is followed as
    far as it goes, then the worker lags / is fair / runs ahead."""
    seen, out = set(), []
    for mc in MISMATCHES:
        key = repr((mc['ops'], mc['maxsize'], mc.get('fail_at')))
        if key in seen:
            continue
        seen.add(key)
        nkeys = 1 + max([o[2] for o in mc['ops'] if o[1] in ('set', 'getitem', 'get', 'del', 'contains')] +
                        [k for o in mc['ops'] if o[1] in ('preload', 'stk') for k in o[2]] + [0])
        for rewrite in (False, True):
            ops = mc['ops'] + final_reads(mc['ops'], nkeys, rewrite=rewrite)
            for pw in (0.0, 0.1, 0.5, 1.0):
                out.append(dict(part='threaded', ops=ops, maxsize=mc['maxsize'], fail_at=mc.get('fail_at'),
                                policy='replay', schedule=mc['schedule'], then_p_worker=pw,
                                sseed=rng.getrandbits(32), from_mismatch=True))
        if len(out) >= limit:
            break
    return out


def search(ctx):
    rng = ctx.sub_rng('threaded-search')
    res = core.Result()
    cand = mismatch_candidates(rng, 1200 if ctx.quick else 6000)
    res.extra['threaded_search_mismatch_candidates'] = len(cand)
    if cand:
        res.merge(run_batch(ctx, cand, use_model=False, procs=8))
        if any(f.kind == 'property' for f in res.failures):
            return res
    cases = [dict(c, part='threaded') for c in CORPUS] + random_cases(rng, 1500 if ctx.quick else 40000, 8)
    res.merge(run_batch(ctx, cases, use_model=False, procs=8))
    res.merge(stress(ctx, 40 if ctx.quick else 1000, 12, procs=8))
    return res
