"""Typed random *program* generator for C01/C04 (parent process).

Operands come from vlib/arrgen (pure data). The program is grown step by step; the current value of every step is
obtained by executing the step with the real tenpy of the tree under test through the same `Executor` the workers
use, so the generator always knows rank / legs / labels of every live value ("typed random walk": >= 85 % of the
generated calls are valid). A separate stream of intentionally malformed calls (wrong axes, non-contractible legs,
duplicate labels, out-of-range indices, charge mismatch) is mixed in; for those only the error class is compared.
"""
import itertools

import numpy as np

from vlib import arrgen, npcgen

MAX_SIZE = 1500
MAX_MAG = 2 ** 20

OPS = [  # (name, weight)
    ('transpose', 8), ('iswapaxes', 3), ('conj', 5), ('complex_conj', 1), ('neg', 2), ('scale', 5),
    ('isort_qdata', 2), ('iadd_prefactor_other', 9), ('binary_blockwise', 4), ('take_slice', 6),
    ('add_trivial_leg', 4), ('squeeze', 3), ('scale_axis', 4), ('iproject', 4), ('permute', 3),
    ('sort_legcharge', 4), ('gauge_total_charge', 3), ('combine_legs', 10), ('split_legs', 8),
    ('concatenate', 3), ('outer', 3), ('inner', 6), ('trace', 4), ('tensordot', 14), ('norm', 2),
    ('get_leg_index', 1), ('getitem_int', 2), ('from_ndarray', 3), ('zeros', 1), ('copy', 1), ('zeros_like', 1),
    ('iset_leg_labels', 2), ('spec_getitem', 4), ('spec_setitem', 3), ('spec_misc', 4),
]


# operations whose generated arguments may legitimately be rejected (label clashes, charge restrictions)
UNSURE = {'split_legs', 'combine_legs', 'spec_misc', 'iset_leg_labels', 'concatenate', 'spec_getitem'}


class ProgGen:
    def __init__(self, ex, quick=True):
        self.ex = ex
        self.npc = ex.npc
        self.quick = quick

    # ------------------------------------------------------------------ operands
    def gen_operands(self, rng):
        mods = npcgen.gen_mods(rng)
        pool = arrgen.gen_leg_pool(rng, mods, n=rng.randint(2, 4))
        n_op = rng.choices([1, 2, 3], weights=[3, 5, 2])[0]
        main_dtype = rng.choice(arrgen.DTYPES)
        ops = []
        for k in range(n_op):
            dtype = main_dtype if rng.random() < 0.7 else rng.choice(arrgen.DTYPES)
            if ops and rng.random() < 0.45:
                # sibling: same legs and total charge (for add / inner / concatenate), maybe permuted labels
                base = rng.choice(ops)
                d = arrgen.gen_tensor(rng, mods, base['legs'], dtype=dtype, labels=list(base['labels']) if base['labels'] else None,
                                      qtotal=base['qtotal'])
                d['_sibling'] = True
            else:
                rank = rng.choices([1, 2, 3, 4, 5, 6], weights=[3, 8, 8, 4, 1.5, 0.7])[0]
                partner = rng.choice(ops)['legs'] if ops else None
                legs = arrgen.pick_legs(rng, pool, rank, max_total=360 if rank < 5 else 200, partner=partner)
                if len(legs) >= 2 and rng.random() < 0.35:   # make a trace possible
                    i, j = rng.sample(range(len(legs)), 2)
                    legs[j] = arrgen.conj_leg(legs[i])
                prefer = None
                if ops and ops[-1]['labels']:
                    prefer = [l for l in ops[-1]['labels'] if l] + [self.flip(l) for l in ops[-1]['labels'] if l]
                labels = arrgen.gen_labels(rng, len(legs), prefer=prefer) if rng.random() < 0.85 else None
                d = arrgen.gen_tensor(rng, mods, legs, dtype=dtype, labels=labels)
            ops.append(d)
        return mods, pool, self.name_operands(rng, mods, ops)

    @staticmethod
    def flip(l):
        from harness.c01_worker import doc_conj_label
        return doc_conj_label(l)

    # ------------------------------------------------------------------ program
    def gen_case(self, rng, max_steps):
        mods, pool, operands = self.gen_operands(rng)
        case = dict(operands=operands, steps=[], mods=mods)
        try:
            vals = [self.ex.io.make_array(d) for d in operands]
        except Exception:
            return case
        n_steps = rng.randint(1, max_steps)
        self.pool, self.mods, self.rng = pool, mods, rng
        cplx = any(d['dtype'].startswith('complex') for d in operands)
        self.cplx = cplx
        tries = 0
        while len(case['steps']) < n_steps and tries < 4 * n_steps + 8:
            tries += 1
            name = rng.choices([o for o, _ in OPS], weights=[w for _, w in OPS])[0]
            arrs = [i for i, v in enumerate(vals) if isinstance(v, self.npc.Array)]
            if not arrs:
                break
            try:
                st = getattr(self, 'g_' + name)(vals, arrs)
            except Exception:
                st = None
            if st is None:
                continue
            malformed = False
            if rng.random() < 0.12:
                m = self.malform(dict(st), vals)
                if m is not None:
                    st, malformed = m, True
            st['malformed'] = malformed
            # calls the generator knows to be valid by construction: an error there is reported, never dropped
            st['sure'] = (not malformed) and (name not in UNSURE or bool(st.pop('_sure', False)))
            # type the step by executing it
            try:
                res, _ = self.ex.run(vals, st)
            except Exception:
                res = None
                if not malformed and not st['sure'] and rng.random() < 0.5:
                    continue     # an unintended invalid call: usually dropped (keeps the valid fraction high)
            if isinstance(res, self.npc.Array):
                try:
                    dn = res.to_ndarray()
                    if dn.size > MAX_SIZE or (dn.size and np.max(np.abs(dn)) > MAX_MAG) or res.rank > 7:
                        continue
                except Exception:
                    pass
            case['steps'].append(st)
            vals.append(res if isinstance(res, self.npc.Array) else None)
        if any(self.is_cplx_step(s) for s in case['steps']):
            cplx = True
        case['scalar'] = 'gint' if cplx else 'int'
        return case

    @staticmethod
    def is_cplx_step(st):
        """does the step bring complex scalars into the program?"""
        def has_pair(v):
            return isinstance(v, list) and any(isinstance(x, list) for x in v)
        op = st['op']
        if op == 'scale' and isinstance(st.get('s'), list):
            return True
        if op == 'iadd_prefactor_other' and isinstance(st.get('p'), list):
            return True
        if op == 'scale_axis' and has_pair(st.get('s')):
            return True
        if st.get('dtype', '').startswith('complex'):
            return True
        for k in ('dense', 'src'):
            if isinstance(st.get(k), dict) and has_pair(st[k].get('vals')):
                return True
        return False

    # ------------------------------------------------------------------ high-rank fusion stream
    FUSION_MODS = [[2], [2], [2], [3], [3], [1], [1], [4], [2, 2], [2, 1], [3, 2], []]
    FUSION_LABELS = ['a', 'b', 'c', 'd', 'p', 'q', 'vL', 'vR', 'x1', 'p*', 'a*']

    def fusion_leg(self, rng, mods, room):
        """a small leg: 1-3 blocks of size 1-2 over few distinct charges (duplicate sectors likely), at most `room`
        indices"""
        nb = rng.choice([1, 2, 2, 3, 3])
        sizes = [rng.choice([1, 1, 2, 2]) for _ in range(nb)]
        while sum(sizes) > max(1, room) and len(sizes) > 1:
            sizes.pop()
        if sum(sizes) > max(1, room):
            sizes = [1]
        charges = [[rng.randint(-1, 1) if m == 1 else rng.randrange(m) for m in mods] for _ in sizes]
        if rng.random() < 0.5:
            charges.sort(key=npcgen.lexkey)
        slices = [0]
        for x in sizes:
            slices.append(slices[-1] + x)
        return dict(mods=list(mods), slices=slices, charges=charges, qconj=rng.choice([1, -1]),
                    ctor=rng.choice(['init', 'qind', 'qind']))

    def fusion_groups(self, rng, rank):
        """(groups, new_axes | None) for combine_legs of a rank >= 5 tensor: trailing groups, several groups at once,
        non-default positions of the pipes"""
        r = rng.random()
        if r < 0.4:       # the LAST k legs (the pipe lands on a trailing axis >= 4 by default), maybe a second group
            k = rng.choice([1, 2, 2, 3])
            k = min(k, rank - 4) if rng.random() < 0.7 and rank - 4 >= 1 else min(k, rank - 1)
            last = list(range(rank - k, rank))
            if rng.random() < 0.3:
                rng.shuffle(last)
            groups = [last]
            rest = list(range(rank - k))
            if len(rest) >= 2 and rng.random() < 0.4:
                n = rng.choice([1, 2])
                g2 = sorted(rng.sample(rest, n)) if rng.random() < 0.6 else rng.sample(rest, n)
                groups.insert(rng.randrange(2), g2)
            new_axes = None
        else:             # random disjoint groups
            axes = list(range(rank))
            rng.shuffle(axes)
            ng = rng.choice([1, 2, 2, 3])
            groups, pos = [], 0
            for _ in range(ng):
                n = rng.choice([1, 2, 2, 3])
                if pos + n > rank:
                    break
                g = axes[pos:pos + n]
                groups.append(sorted(g) if rng.random() < 0.5 else g)
                pos += n
            new_axes = None
        new_rank = rank - sum(len(g) for g in groups) + len(groups)
        if rng.random() < 0.5:   # explicit positions; most of the time one pipe on the last axis
            new_axes = rng.sample(range(new_rank), len(groups))
            if rng.random() < 0.6 and new_rank - 1 not in new_axes:
                new_axes[rng.randrange(len(groups))] = new_rank - 1
            if rng.random() < 0.3:
                new_axes = [x - new_rank if rng.random() < 0.5 else x for x in new_axes]
        return groups, new_axes

    def gen_fusion_case(self, rng, max_steps):
        """Dedicated stream: a tensor of rank 5-7 over small legs -> [transpose] -> combine_legs of random groups
        (trailing axes, several groups, explicit new_axes) -> split_legs / transpose + split_legs / contraction over
        the pipes / nested combine_legs. Exercises the >= 4-dimensional block copies of _combine_legs_worker and
        _split_legs_worker (compiled `_sliced_strided_copy` recursion vs numpy slicing), which the general stream
        reaches about once in a thousand programs. Small legs keep the dense size <= ~500 entries."""
        self.rng = rng
        mods = list(rng.choice(self.FUSION_MODS))
        rank = rng.choice([5, 6, 6, 6, 7])
        cap = rng.choice([200, 350, 500])
        legs, total = [], 1
        for k in range(rank):
            leg = self.fusion_leg(rng, mods, cap // (total * 2 ** max(0, rank - k - 3)) if k < rank - 1 else cap // total)
            legs.append(leg)
            total *= leg['slices'][-1]
        rng.shuffle(legs)
        dtype = rng.choice(arrgen.DTYPES)
        labels = None
        if rng.random() < 0.8:
            labels = rng.sample(self.FUSION_LABELS, rank)
            labels = [None if rng.random() < 0.15 else l for l in labels]
        d = arrgen.gen_tensor(rng, mods, legs, dtype=dtype, labels=labels, p_store=rng.choice([0.5, 0.8, 1.0]))
        case = dict(operands=[d], steps=[], mods=mods, stream='fusion')
        self.pool, self.mods = legs, mods
        self.cplx = dtype.startswith('complex')
        case['scalar'] = 'gint' if self.cplx else 'int'
        try:
            vals = [self.ex.io.make_array(d)]
        except Exception:
            return case
        npc = self.npc

        def emit(st, sure):
            st['malformed'] = False
            st['sure'] = sure
            try:
                res, _ = self.ex.run(vals, st)
            except Exception:
                return None
            if not isinstance(res, npc.Array) or res.rank > 7:
                return None
            if int(np.prod(res.shape)) > MAX_SIZE:
                return None
            case['steps'].append(st)
            vals.append(res)
            return len(vals) - 1

        def transpose(i):
            a = vals[i]
            perm = list(range(a.rank))
            rng.shuffle(perm)
            return emit(dict(op='transpose', via=rng.choice(['transpose', 'itranspose']), **{'in': [i]},
                             axes=[self.axis_arg(a, k) for k in perm]), True)

        def combine(i):
            a = vals[i]
            if a.rank < 2:
                return None
            groups, new_axes = self.fusion_groups(rng, a.rank) if a.rank >= 5 else ([sorted(rng.sample(range(a.rank), 2))], None)
            for g in groups:
                if np.prod([a.legs[k].block_number for k in g]) > 60:
                    return None
            st = dict(op='combine_legs', **{'in': [i]}, cl=[[self.axis_arg(a, k) for k in g] for g in groups])
            if new_axes is not None:
                st['new_axes'] = new_axes
            r = rng.random()
            st['qconj'] = [None] if r < 0.5 else [rng.choice([1, -1])] if r < 0.7 else [rng.choice([1, -1]) for _ in groups]
            return emit(st, False)

        def split(i):
            a = vals[i]
            pipes = [k for k, l in enumerate(a.legs) if isinstance(l, npc.LegPipe)]
            if not pipes or sum(l.nlegs if k in pipes else 1 for k, l in enumerate(a.legs)) > 7:
                return None
            axes = None if rng.random() < 0.5 else [self.axis_arg(a, k) for k in rng.sample(pipes, rng.randint(1, len(pipes)))]
            return emit(dict(op='split_legs', **{'in': [i]}, axes=axes), False)

        def contract(i):
            """tensordot with the conjugate over the pipes (and more legs: the result keeps <= 2 legs of each)"""
            a = vals[i]
            j = emit(dict(op='conj', via='conj', **{'in': [i]}), True)
            if j is None:
                return None
            pipes = [k for k, l in enumerate(a.legs) if isinstance(l, npc.LegPipe)]
            others = [k for k in range(a.rank) if k not in pipes]
            rng.shuffle(others)
            keep = others[:rng.choice([0, 1, 1, 2])]
            con = [k for k in range(a.rank) if k not in keep]
            rng.shuffle(con)
            csize = int(np.prod([a.shape[k] for k in con])) if con else 1
            if self.mag(a) ** 2 * max(1, csize) > MAX_MAG or not con:
                return None
            b = vals[j]
            return emit(dict(op='tensordot', **{'in': [i, j]},
                             axes=[[self.axis_arg(a, k) for k in con], [self.axis_arg(b, k) for k in con]]), True)

        cur = 0
        if rng.random() < 0.5:
            cur = transpose(cur) or cur
        c = combine(cur)
        if c is None:
            c = combine(cur)
        if c is None:
            return case
        budget = min(max_steps, 7)
        todo = rng.sample(['split', 'tsplit', 'contract', 'nest', 'split'], rng.choice([1, 2, 2, 3]))
        for what in todo:
            if len(case['steps']) >= budget:
                break
            if what == 'split':
                split(c)
            elif what == 'tsplit':
                t = transpose(c)
                if t is not None:
                    split(t)
            elif what == 'contract':
                contract(c)
            elif what == 'nest':
                n = combine(c)
                if n is not None and rng.random() < 0.7:
                    split(n)
        return case

    # ------------------------------------------------------------------ helpers
    def pick(self, arrs, vals, pred=None):
        cand = [i for i in arrs if pred is None or pred(vals[i])]
        if not cand:
            return None
        # prefer recent values
        w = [1 + 2 * (k / len(cand)) for k in range(len(cand))]
        return self.rng.choices(cand, weights=w)[0]

    def axis_arg(self, a, k):
        """refer to leg k by index (possibly negative) or by its label"""
        r = self.rng.random()
        if a._labels[k] is not None and r < 0.45:
            return a._labels[k]
        if r < 0.6:
            return k - a.rank
        return k

    def scalar(self, allow_zero=True):
        rng = self.rng
        if self.cplx and rng.random() < 0.4:
            return [rng.choice([-2, -1, 0, 1, 2]), rng.choice([-1, 1, 2])]
        c = [-2, -1, 1, 2, 3] + ([0] if allow_zero else [])
        return rng.choice(c)

    def compatible(self, a, b):
        try:
            if a.rank != b.rank or np.any(a.qtotal != b.qtotal):
                return False
            for x, y in zip(a.legs, b.legs):
                x.test_equal(y)
            return True
        except Exception:
            return False

    def contractible_pairs(self, a, b):
        out = []
        for i, x in enumerate(a.legs):
            for j, y in enumerate(b.legs):
                try:
                    x.test_contractible(y)
                    out.append((i, j))
                except Exception:
                    pass
        return out

    def matching(self, pairs, kmax):
        self.rng.shuffle(pairs)
        ua, ub, out = set(), set(), []
        for i, j in pairs:
            if i not in ua and j not in ub and len(out) < kmax:
                ua.add(i)
                ub.add(j)
                out.append((i, j))
        return out

    # ------------------------------------------------------------------ per-operation argument generators
    def g_transpose(self, vals, arrs):
        i = self.pick(arrs, vals)
        a = vals[i]
        rng = self.rng
        if rng.random() < 0.15:
            axes = None
        else:
            perm = list(range(a.rank))
            rng.shuffle(perm)
            axes = [self.axis_arg(a, k) for k in perm]
        return dict(op='transpose', via=rng.choice(['transpose', 'itranspose']), **{'in': [i]}, axes=axes)

    def g_iswapaxes(self, vals, arrs):
        i = self.pick(arrs, vals)
        a = vals[i]
        k1, k2 = self.rng.randrange(a.rank), self.rng.randrange(a.rank)
        return dict(op='iswapaxes', **{'in': [i]}, ax1=self.axis_arg(a, k1), ax2=self.axis_arg(a, k2))

    def g_conj(self, vals, arrs):
        return dict(op='conj', via=self.rng.choice(['conj', 'iconj']), **{'in': [self.pick(arrs, vals)]})

    def g_complex_conj(self, vals, arrs):
        return dict(op='complex_conj', **{'in': [self.pick(arrs, vals)]})

    def g_neg(self, vals, arrs):
        return dict(op='neg', **{'in': [self.pick(arrs, vals)]})

    def g_scale(self, vals, arrs):
        return dict(op='scale', via=self.rng.choice(['__mul__', '__rmul__', 'imul', 'iscale_prefactor']),
                    **{'in': [self.pick(arrs, vals)]}, s=self.scalar())

    def g_isort_qdata(self, vals, arrs):
        return dict(op='isort_qdata', **{'in': [self.pick(arrs, vals)]})

    def pair_compatible(self, vals, arrs):
        i = self.pick(arrs, vals)
        cand = [j for j in arrs if self.compatible(vals[i], vals[j])]
        # also same labels in a different order (documented: transposed first)
        for j in arrs:
            a, b = vals[i], vals[j]
            if j not in cand and a.rank == b.rank and None not in a._labels and set(a._labels) == set(b._labels) \
                    and a._labels != b._labels:
                try:
                    if self.compatible(a, b.transpose(a._labels)):
                        cand.append(j)
                except Exception:
                    pass
        if not cand:
            return None
        return i, self.rng.choice(cand)

    def g_iadd_prefactor_other(self, vals, arrs):
        ij = self.pair_compatible(vals, arrs)
        if ij is None:
            return None
        via = self.rng.choice(['__add__', '__sub__', 'iadd', 'isub', 'direct', 'direct'])
        p = {'__add__': 1, 'iadd': 1, '__sub__': -1, 'isub': -1}.get(via)
        if p is None:
            p = self.scalar()
        return dict(op='iadd_prefactor_other', via=via, **{'in': list(ij)}, p=p)

    def g_binary_blockwise(self, vals, arrs):
        ij = self.pair_compatible(vals, arrs)
        if ij is None:
            return None
        return dict(op='binary_blockwise', via=self.rng.choice(['binary_blockwise', 'ibinary_blockwise']),
                    **{'in': list(ij)}, f=self.rng.choice(['add', 'sub', 'mul']))

    def g_take_slice(self, vals, arrs):
        i = self.pick(arrs, vals, lambda v: v.rank >= 2)
        if i is None:
            return None
        a = vals[i]
        n = self.rng.randint(1, min(2, a.rank - 1))
        axes = self.rng.sample(range(a.rank), n)
        if any(a.shape[k] == 0 for k in axes):
            return None
        idx = [self.rng.randrange(a.shape[k]) - (a.shape[k] if self.rng.random() < 0.2 else 0) for k in axes]
        return dict(op='take_slice', via=self.rng.choice(['lists', 'scalar_args']), **{'in': [i]}, indices=idx,
                    axes=[self.axis_arg(a, k) for k in axes])

    def g_add_trivial_leg(self, vals, arrs):
        i = self.pick(arrs, vals, lambda v: v.rank <= 5)
        if i is None:
            return None
        a = vals[i]
        lab = self.rng.choice([None, 'z', 'w', 't*'])
        if lab in a._labels:
            lab = None
        return dict(op='add_trivial_leg', **{'in': [i]}, axis=self.rng.randint(-a.rank, a.rank), label=lab,
                    qconj=self.rng.choice([1, -1]))

    def g_squeeze(self, vals, arrs):
        i = self.pick(arrs, vals, lambda v: 1 in v.shape)
        if i is None:
            return None
        a = vals[i]
        ones = [k for k in range(a.rank) if a.shape[k] == 1]
        if self.rng.random() < 0.3:
            axes = None
        else:
            axes = [self.axis_arg(a, k) for k in self.rng.sample(ones, self.rng.randint(1, len(ones)))]
        return dict(op='squeeze', **{'in': [i]}, axes=axes)

    def g_getitem_int(self, vals, arrs):
        i = self.pick(arrs, vals, lambda v: all(s > 0 for s in v.shape))
        if i is None:
            return None
        a = vals[i]
        inds = [self.rng.randrange(s) - (s if self.rng.random() < 0.2 else 0) for s in a.shape]
        if a.rank >= 2 and self.rng.random() < 0.3:     # fewer integers than legs: a[i], a[i, j] (sub-tensor)
            inds = inds[:self.rng.randint(1, a.rank - 1)]
        return dict(op='getitem_int', **{'in': [i]}, inds=inds)

    def g_scale_axis(self, vals, arrs):
        i = self.pick(arrs, vals)
        a = vals[i]
        k = self.rng.randrange(a.rank)
        s = [self.scalar() for _ in range(a.shape[k])]
        return dict(op='scale_axis', via=self.rng.choice(['scale_axis', 'iscale_axis']), **{'in': [i]}, s=s,
                    axis=self.axis_arg(a, k))

    def g_iproject(self, vals, arrs):
        i = self.pick(arrs, vals)
        a = vals[i]
        n = self.rng.randint(1, min(2, a.rank))
        axes = self.rng.sample(range(a.rank), n)
        masks = []
        for k in axes:
            if self.rng.random() < 0.6:
                masks.append(dict(b=[self.rng.random() < 0.65 for _ in range(a.shape[k])]))
            else:
                if a.shape[k] == 0:
                    return None
                m = self.rng.sample(range(a.shape[k]), self.rng.randint(1, a.shape[k]))
                masks.append(dict(i=[x - (a.shape[k] if self.rng.random() < 0.1 else 0) for x in m]))
        return dict(op='iproject', via='single' if n == 1 and self.rng.random() < 0.5 else 'lists', **{'in': [i]},
                    masks=masks, axes=[self.axis_arg(a, k) for k in axes])

    def g_permute(self, vals, arrs):
        i = self.pick(arrs, vals)
        a = vals[i]
        k = self.rng.randrange(a.rank)
        perm = list(range(a.shape[k]))
        self.rng.shuffle(perm)
        return dict(op='permute', **{'in': [i]}, perm=perm, axis=self.axis_arg(a, k))

    def g_sort_legcharge(self, vals, arrs):
        i = self.pick(arrs, vals)
        a = vals[i]
        if self.rng.random() < 0.3:
            # (False, False) = nothing to do: identity permutations and a shallow copy
            s, b = self.rng.random() < 0.8, self.rng.random() < 0.8
            return dict(op='sort_legcharge', via='bools', **{'in': [i]}, sort=[s] * a.rank, bunch=[b] * a.rank)
        sort = [self.rng.random() < 0.6 for _ in range(a.rank)]
        bunch = [self.rng.random() < 0.6 for _ in range(a.rank)]
        if not any(sort) and not any(bunch) and self.rng.random() < 0.5:
            sort[0] = True
        return dict(op='sort_legcharge', via='lists', **{'in': [i]}, sort=sort, bunch=bunch)

    def g_gauge_total_charge(self, vals, arrs):
        i = self.pick(arrs, vals)
        a = vals[i]
        k = self.rng.randrange(a.rank)
        nq = None if self.rng.random() < 0.3 else npcgen.gen_charge(self.rng, [int(m) for m in a.chinfo.mod], window=(-3, 6))
        return dict(op='gauge_total_charge', **{'in': [i]}, axis=self.axis_arg(a, k), newqtotal=nq,
                    new_qconj=self.rng.choice([None, None, 1, -1]))

    def g_combine_legs(self, vals, arrs):
        rng = self.rng
        i = self.pick(arrs, vals, lambda v: v.rank <= 6)
        if i is None:
            return None
        a = vals[i]
        axes = list(range(a.rank))
        rng.shuffle(axes)
        npipes = 1 if a.rank < 3 or rng.random() < 0.6 else 2
        cl, pos = [], 0
        for _ in range(npipes):
            n = rng.choices([1, 2, 3], weights=[2, 6, 2])[0]
            n = min(n, len(axes) - pos)
            if n <= 0:
                break
            if rng.random() < 0.5:
                grp = sorted(axes[pos:pos + n])
            else:
                grp = axes[pos:pos + n]
            cl.append(grp)
            pos += n
        if not cl:
            return None
        # bound the size of the pipes' q_map
        for grp in cl:
            if np.prod([a.legs[k].block_number for k in grp]) > 40:
                return None
        st = dict(op='combine_legs', **{'in': [i]}, cl=[[self.axis_arg(a, k) for k in grp] for grp in cl])
        new_rank = a.rank - sum(len(g) for g in cl) + len(cl)
        if rng.random() < 0.3:
            st['new_axes'] = [x - (new_rank if rng.random() < 0.3 else 0) for x in rng.sample(range(new_rank), len(cl))]
        r = rng.random()
        if r < 0.35:
            st['qconj'] = [rng.choice([1, -1])] if rng.random() < 0.5 or len(cl) == 1 else [rng.choice([1, -1]) for _ in cl]
        else:
            st['qconj'] = [None]
        if rng.random() < 0.2:
            # explicitly given pipes (built by the worker from leg descriptions = dumps of the legs in question)
            pipes = []
            for grp in cl:
                if rng.random() < 0.7 and not any(isinstance(a.legs[k], self.npc.LegPipe) for k in grp):
                    legs = [dict(self.ex.nio.dump_leg(a.legs[k]), ctor='init') for k in grp]
                    q = rng.choice([1, -1])
                    if rng.random() < 0.4:   # conjugated pipe: must be conjugated back by combine_legs
                        legs = [dict(l, qconj=-l['qconj']) for l in legs]
                    pipes.append(dict(pipe=dict(legs=legs, qconj=q, sort=rng.random() < 0.8, bunch=rng.random() < 0.8)))
                else:
                    pipes.append(None)
            st['pipes'] = pipes
        if len(cl) == 1 and rng.random() < 0.5 and st['qconj'] != [None] or (len(cl) == 1 and rng.random() < 0.3):
            st['via'] = 'single'
        return st

    def g_split_legs(self, vals, arrs):
        i = self.pick(arrs, vals, lambda v: any(isinstance(l, self.npc.LegPipe) for l in v.legs))
        if i is None:
            return None
        a = vals[i]
        pipes = [k for k, l in enumerate(a.legs) if isinstance(l, self.npc.LegPipe)]
        if sum(l.nlegs if k in pipes else 1 for k, l in enumerate(a.legs)) > 7:
            return None
        if self.rng.random() < 0.5:
            axes = None
        else:
            axes = [self.axis_arg(a, k) for k in self.rng.sample(pipes, self.rng.randint(1, len(pipes)))]
        return dict(op='split_legs', **{'in': [i]}, axes=axes)

    def g_concatenate(self, vals, arrs):
        i = self.pick(arrs, vals)
        a = vals[i]
        k = self.rng.randrange(a.rank)
        others = []
        for j in arrs:
            b = vals[j]
            try:
                if b.rank == a.rank and np.all(b.qtotal == a.qtotal) and \
                        all(x == y for t, (x, y) in enumerate(zip(a.shape, b.shape)) if t != k):
                    for t in range(a.rank):
                        if t != k:
                            a.legs[t].test_equal(b.legs[t])
                    others.append(j)
            except Exception:
                pass
        if not others:
            return None
        n = self.rng.randint(1, 2)
        ids = [i] + [self.rng.choice(others) for _ in range(n)]
        if sum(vals[j].shape[k] for j in ids) * max(1, int(np.prod(a.shape)) // max(1, a.shape[k])) > MAX_SIZE:
            return None
        return dict(op='concatenate', via=self.rng.choice(['concatenate', 'concatenate', 'grid_concat']),
                    **{'in': ids}, axis=self.axis_arg(a, k))

    def g_outer(self, vals, arrs):
        i = self.pick(arrs, vals, lambda v: v.rank <= 3)
        if i is None:
            return None
        j = self.pick(arrs, vals, lambda v: v.rank <= 3 and v.chinfo == vals[i].chinfo)
        if j is None:
            return None
        if np.prod(vals[i].shape) * np.prod(vals[j].shape) > MAX_SIZE:
            return None
        return dict(op='outer', **{'in': [i, j]})

    def g_inner(self, vals, arrs):
        rng = self.rng
        i = self.pick(arrs, vals)
        a = vals[i]
        do_conj = rng.random() < 0.4
        cands = []
        for j in arrs:
            b = vals[j]
            if b.rank != a.rank:
                continue
            pairs = []
            for x, la in enumerate(a.legs):
                for y, lb in enumerate(b.legs):
                    try:
                        (la.test_equal if do_conj else la.test_contractible)(lb)
                        pairs.append((x, y))
                    except Exception:
                        pass
            m = self.matching(pairs, a.rank)
            if len(m) == a.rank:
                cands.append((j, m))
        if not cands:
            return None
        j, m = rng.choice(cands)
        b = vals[j]
        if self.mag(a) * self.mag(b) * max(1, int(np.prod(a.shape))) > MAX_MAG:
            return None
        r = rng.random()
        if r < 0.25 and all(x == y for x, y in m):
            axes = 'range'
        elif r < 0.5 and None not in a._labels:
            want = list(a._labels) if do_conj else [self.npc.Array._conj_leg_label(l) for l in a._labels]
            if all(b._labels[y] == want[x] for x, y in m):
                axes = 'labels'
            else:
                axes = [[self.axis_arg(a, x) for x, _ in m], [self.axis_arg(b, y) for _, y in m]]
        else:
            axes = [[self.axis_arg(a, x) for x, _ in m], [self.axis_arg(b, y) for _, y in m]]
        return dict(op='inner', **{'in': [i, j]}, axes=axes, do_conj=do_conj)

    def mag(self, a):
        try:
            return max([1] + [float(np.max(np.abs(t))) for t in a._data if t.size])
        except Exception:
            return 1

    def g_trace(self, vals, arrs):
        i = self.pick(arrs, vals, lambda v: v.rank >= 2)
        if i is None:
            return None
        a = vals[i]
        pairs = [(x, y) for x, y in self.contractible_pairs(a, a) if x != y]
        if not pairs:
            return None
        x, y = self.rng.choice(pairs)
        return dict(op='trace', **{'in': [i]}, l1=self.axis_arg(a, x), l2=self.axis_arg(a, y))

    def g_tensordot(self, vals, arrs):
        rng = self.rng
        i = self.pick(arrs, vals)
        j = self.pick(arrs, vals, lambda v: v.chinfo == vals[i].chinfo)
        if j is None:
            return None
        a, b = vals[i], vals[j]
        pairs = self.contractible_pairs(a, b)
        kmax = min(a.rank, b.rank, 3)
        # half of the time contract as many legs as possible (multi-leg contractions exercise the F-stride keys)
        want = kmax if rng.random() < 0.5 else rng.randint(0 if rng.random() < 0.15 else 1, kmax)
        m = self.matching(pairs, want) if pairs else []
        if not m and rng.random() < 0.7:
            return None
        k = len(m)
        csize = int(np.prod([a.shape[x] for x, _ in m])) if m else 1
        rsize = int(np.prod([s for t, s in enumerate(a.shape) if t not in [x for x, _ in m]]
                            + [s for t, s in enumerate(b.shape) if t not in [y for _, y in m]]))
        if rsize > MAX_SIZE or a.rank + b.rank - 2 * k > 7 or self.mag(a) * self.mag(b) * max(1, csize) > MAX_MAG:
            return None
        # integer form when the matched legs are the last of a and the first of b in order
        if m and [x for x, _ in m] == list(range(a.rank - k, a.rank)) and [y for _, y in m] == list(range(k)) \
                and rng.random() < 0.6:
            via = 'matvec' if k == 1 and b.rank == 1 and a.rank == 2 and rng.random() < 0.5 else 'tensordot'
            return dict(op='tensordot', via=via, **{'in': [i, j]}, axes=k)
        if not m:
            return dict(op='tensordot', **{'in': [i, j]}, axes=0 if rng.random() < 0.5 else [[], []])
        return dict(op='tensordot', **{'in': [i, j]},
                    axes=[[self.axis_arg(a, x) for x, _ in m], [self.axis_arg(b, y) for _, y in m]])

    def g_norm(self, vals, arrs):
        i = self.pick(arrs, vals)
        a = vals[i]
        ords = ['0']
        # sqrt followed by squaring must stay exact: |x|^2 summed below 2^21 for 32-bit dtypes, 2^50 otherwise
        bound = 2 ** 21 if str(a.dtype) in ('float32', 'complex64') else 2 ** 50
        if 2 * self.mag(a) ** 2 * max(1, int(np.prod(a.shape))) < bound:
            ords += ['inf', '2']
        return dict(op='norm', via=self.rng.choice(['method', 'function']), **{'in': [i]}, ord=self.rng.choice(ords))

    def g_get_leg_index(self, vals, arrs):
        i = self.pick(arrs, vals)
        a = vals[i]
        return dict(op='get_leg_index', **{'in': [i]}, ax=self.axis_arg(a, self.rng.randrange(a.rank)))

    def g_copy(self, vals, arrs):
        return dict(op='copy', **{'in': [self.pick(arrs, vals)]}, deep=True)

    def g_zeros_like(self, vals, arrs):
        return dict(op='zeros_like', **{'in': [self.pick(arrs, vals)]})

    def g_iset_leg_labels(self, vals, arrs):
        i = self.pick(arrs, vals)
        a = vals[i]
        return dict(op='iset_leg_labels', **{'in': [i]}, labels=arrgen.gen_labels(self.rng, a.rank))

    def fresh_legs(self, rank):
        return arrgen.pick_legs(self.rng, self.pool, rank, max_total=200)

    def g_from_ndarray(self, vals, arrs):
        rng = self.rng
        legs = self.fresh_legs(rng.randint(1, 3))
        dtype = rng.choice(arrgen.DTYPES)
        d = arrgen.gen_tensor(rng, self.mods, legs, dtype=dtype, p_store=0.85)
        shape = [npcgen.leg_len(l) for l in legs]
        dense = np.zeros(shape, dtype=complex)
        for blk in d['blocks']:
            sl = tuple(slice(l['slices'][q], l['slices'][q + 1]) for l, q in zip(legs, blk['q']))
            dense[sl] = np.array([complex(*v) if isinstance(v, list) else v for v in blk['vals']]).reshape(dense[sl].shape)
        vals_ = [[int(z.real), int(z.imag)] if z.imag != 0 else int(z.real) for z in dense.reshape(-1)]
        return dict(op='from_ndarray', **{'in': []}, legs=legs, mods=self.mods, qtotal=d['qtotal'], dtype=dtype,
                    labels=arrgen.gen_labels(rng, len(legs)) if rng.random() < 0.6 else None,
                    dense=dict(shape=shape, vals=vals_))

    def g_zeros(self, vals, arrs):
        legs = self.fresh_legs(self.rng.randint(1, 3))
        return dict(op='zeros', **{'in': []}, legs=legs, mods=self.mods, dtype=self.rng.choice(arrgen.DTYPES),
                    qtotal=None if self.rng.random() < 0.5 else npcgen.gen_charge(self.rng, self.mods),
                    labels=arrgen.gen_labels(self.rng, len(legs)) if self.rng.random() < 0.5 else None)

    # ---- dense-spec level operations
    def gen_index(self, n, allow_int=True):
        rng = self.rng
        r = rng.random()
        if allow_int and r < 0.3 and n > 0:
            return rng.randrange(n) - (n if rng.random() < 0.2 else 0)
        if r < 0.5:
            return dict(slice=[None, None, None])
        if r < 0.7:
            lo = rng.randint(0, n)
            hi = rng.randint(lo, n)
            step = rng.choice([None, None, 2, -1]) if hi > lo else None
            if step == -1:
                return dict(slice=[hi - 1 if hi > 0 else None, lo - 1 if lo > 0 else None, -1])
            return dict(slice=[lo, hi, step])
        if r < 0.85:
            return dict(mask=[rng.random() < 0.6 for _ in range(n)])
        if n == 0:
            return dict(slice=[None, None, None])
        m = rng.sample(range(n), rng.randint(1, n))
        return dict(ints=m)

    def g_spec_getitem(self, vals, arrs):
        i = self.pick(arrs, vals, lambda v: not any(isinstance(l, self.npc.LegPipe) for l in v.legs))
        if i is None:
            return None
        a = vals[i]
        inds = [self.gen_index(n) for n in a.shape]
        if all(not isinstance(x, dict) for x in inds):
            inds[self.rng.randrange(a.rank)] = dict(slice=[None, None, None])
        st = dict(op='spec', kind='ix', what='getitem', **{'in': [i]}, inds=inds)
        self.add_ix(st, a.shape)
        return st

    def add_ix(self, st, shape):
        ix, drop = self.ex.np_index(st['inds'], shape)
        st['idx'] = [[int(x) for x in np.asarray(l).reshape(-1)] for l in ix]
        st['drop'] = [int(k) for k in drop]

    def g_spec_setitem(self, vals, arrs):
        rng = self.rng
        i = self.pick(arrs, vals, lambda v: not any(isinstance(l, self.npc.LegPipe) for l in v.legs))
        if i is None:
            return None
        a = vals[i]
        inds = [self.gen_index(n) for n in a.shape]
        if all(not isinstance(x, dict) for x in inds):
            inds[rng.randrange(a.rank)] = dict(slice=[None, None, None])
        try:
            part = a.copy(deep=True)[self.ex.index_tuple(inds)]
        except Exception:
            return None
        # assign a flat array with the charge structure of the target slice (documented second form)
        src = part.to_ndarray()
        mask = src != 0
        new = src * 2 + mask          # same sparsity pattern (hence the same charge sector), new values
        st = dict(op='spec', kind='setix_flat', what='setitem_flat', **{'in': [i]}, inds=inds,
                  src=self.ex.io.dump_dense(new))
        self.add_ix(st, a.shape)
        return st

    def g_spec_misc(self, vals, arrs):
        rng = self.rng
        what = rng.choice(['ipurge_zeros', 'astype', 'drop_charge', 'change_charge', 'extend', 'add_leg', 'grid_outer'])
        i = self.pick(arrs, vals, lambda v: not any(isinstance(l, self.npc.LegPipe) for l in v.legs))
        if i is None:
            return None
        a = vals[i]
        mods = [int(m) for m in a.chinfo.mod]
        base = dict(op='spec', what=what, **{'in': [i]}, _sure=what not in ('grid_outer',))
        if what == 'ipurge_zeros':
            return dict(base, kind='same')
        if what == 'astype':
            tgt = 'complex128' if str(a.dtype).startswith('complex') else rng.choice(['float64', 'complex128'])
            return dict(base, kind='same', dtype=tgt)
        if what == 'drop_charge':
            if not mods:
                return None
            return dict(base, kind='same', charge=None if rng.random() < 0.4 else rng.randrange(len(mods)))
        if what == 'change_charge':
            u1 = [k for k, m in enumerate(mods) if m == 1]
            if not u1:
                return None
            return dict(base, kind='same', charge=rng.choice(u1), new_qmod=rng.choice([2, 3]))
        if what == 'extend':
            k = rng.randrange(a.rank)
            n = rng.randint(1, 2)
            if int(np.prod(a.shape)) // max(1, a.shape[k]) * (a.shape[k] + n) > MAX_SIZE:
                return None
            return dict(base, kind='pad', axis=k, axis_arg=self.axis_arg(a, k), n=n, extra=n)
        if what == 'add_leg':
            if a.rank > 5:
                return None
            if mods != self.mods:
                return None
            leg = dict(rng.choice(self.pool))
            n = npcgen.leg_len(leg)
            if n == 0 or n * int(np.prod(a.shape)) > MAX_SIZE:
                return None
            return dict(base, kind='add_leg', axis=rng.randint(0, a.rank), n=n, i=rng.randrange(n), leg=leg,
                        label=None)
        if what == 'grid_outer':
            if a.rank > 4:
                return None
            # grid leg whose charges compensate the entries' total charges
            sib = [j for j in arrs if self.compatible(a, vals[j])]
            n = rng.randint(1, 3)
            grid = [rng.choice([0, 0, None] + ([1] if len(sib) > 1 else [])) for _ in range(n)]
            if all(g is None for g in grid):
                grid[0] = 0
            ids = [i] + ([rng.choice([j for j in sib if j != i])] if 1 in grid else [])
            if n * int(np.prod(a.shape)) > MAX_SIZE:
                return None
            ch = [[0] * len(mods) for _ in range(n)]
            leg = dict(mods=list(mods), slices=list(range(n + 1)), charges=ch, qconj=rng.choice([1, -1]),
                       ctor='qind')
            return dict(base, kind='grid_outer', **{'in': ids}, gshape=[n], grid=grid, grid_legs=[leg],
                        grid_labels=[rng.choice([None, 'g'])] if rng.random() < 0.5 else None)
        return None

    # ------------------------------------------------------------------ malformed calls
    def malform(self, st, vals):
        rng = self.rng
        op = st['op']
        ins = st.get('in', [])
        a = vals[ins[0]] if ins and isinstance(vals[ins[0]], self.npc.Array) else None
        choices = []
        if a is not None:
            bad_ax = rng.choice([a.rank, a.rank + 1, -a.rank - 1, 'zz'])
            if op == 'transpose' and st.get('axes'):
                choices += [('axes', st['axes'][:-1] + [bad_ax]), ('axes', st['axes'][:-1]),
                            ('axes', st['axes'][:-1] + [st['axes'][0]])]
            if op == 'iswapaxes':
                choices += [('ax1', bad_ax)]
            if op == 'take_slice':
                k = a.get_leg_index(st['axes'][0]) if not isinstance(st['axes'][0], str) or st['axes'][0] in a._labels else 0
                choices += [('axes', [bad_ax] + st['axes'][1:]),
                            ('indices', [a.shape[k] + rng.randint(0, 1)] + st['indices'][1:]),
                            ('indices', [-a.shape[k] - 1] + st['indices'][1:]),
                            ('indices', st['indices'] + [0])]
            if op == 'add_trivial_leg':
                labs = [l for l in a._labels if l is not None]
                if labs:
                    choices += [('label', rng.choice(labs))]
                choices += [('qconj', rng.choice([0, 2, -2]))]
            if op == 'squeeze':
                non = [k for k in range(a.rank) if a.shape[k] != 1]
                if non:
                    choices += [('axes', [rng.choice(non)])]
                choices += [('axes', [bad_ax])]
            if op == 'scale_axis':
                choices += [('s', st['s'] + [1]), ('axis', bad_ax)]
            if op == 'permute':
                choices += [('perm', st['perm'] + [len(st['perm'])]), ('axis', bad_ax)]
            if op == 'iproject':
                choices += [('axes', [bad_ax] + st['axes'][1:]), ('masks', st['masks'] + [dict(b=[True])])]
            if op == 'gauge_total_charge':
                choices += [('axis', bad_ax), ('new_qconj', 2)]
            if op == 'combine_legs':
                first = st['cl'][0]
                choices += [('cl', [first + [first[0]]] + st['cl'][1:]), ('cl', [[bad_ax] + first[1:]] + st['cl'][1:]),
                            ('new_axes', [a.rank + 3] * len(st['cl'])), ('qconj', [1, -1, 1]),
                            ('qconj', [rng.choice([0, 2, -3])]), ('qconj', [rng.choice([0, 2])])]
            if op == 'split_legs':
                non = [k for k, l in enumerate(a.legs) if not isinstance(l, self.npc.LegPipe)]
                if non:
                    choices += [('axes', [rng.choice(non)])]
                choices += [('axes', [bad_ax])]
            if op == 'trace':
                choices += [('l2', st['l1']), ('l1', bad_ax)]
                for k in range(a.rank):
                    choices += [('l2', k)]
            if op == 'get_leg_index':
                choices += [('ax', bad_ax), ('ax', a.rank), ('ax', a.rank)]
            if op == 'iset_leg_labels':
                labs = [l for l in st['labels'] if l]
                if labs and a.rank >= 2:
                    choices += [('labels', [labs[0]] * a.rank)]
                choices += [('labels', st['labels'] + ['k']), ('labels', [''] + st['labels'][1:])]
            if op == 'getitem_int':
                choices += [('inds', [a.shape[0] + 1] + st['inds'][1:]), ('inds', st['inds'] + [0])]
            if op in ('tensordot', 'inner') and isinstance(st.get('axes'), list) and st['axes'][0]:
                b = vals[ins[1]]
                other = [k for k in range(b.rank)]
                if op == 'tensordot':
                    choices += [('axes', [st['axes'][0], [rng.choice(other)] + st['axes'][1][1:]])]
                elif len(st['axes'][1]) >= 2:   # wrong pairing, still a permutation (ties in argsort are unspecified)
                    choices += [('axes', [st['axes'][0], [st['axes'][1][1], st['axes'][1][0]] + st['axes'][1][2:]])]
                choices += [('axes', [st['axes'][0][:-1], st['axes'][1]]),
                            ('axes', [[bad_ax] + st['axes'][0][1:], st['axes'][1]])]
            if op in ('iadd_prefactor_other', 'binary_blockwise', 'concatenate', 'outer', 'inner', 'tensordot'):
                # wrong partner: any other live tensor
                others = [j for j, v in enumerate(vals) if isinstance(v, self.npc.Array) and j not in ins]
                if others and len(ins) > 1:
                    choices += [('in', [ins[0], rng.choice(others)] + list(ins[2:]))]
            if op == 'concatenate':
                choices += [('axis', bad_ax)]
        if op == 'from_ndarray':
            v = list(st['dense']['vals'])
            if v:
                k = rng.randrange(len(v))
                v[k] = (v[k] if not isinstance(v[k], list) else 0) + 5
                choices += [('dense', dict(shape=st['dense']['shape'], vals=v))]
            choices += [('labels', ['a'] * (len(st['legs']) + 1))]
            if len(st['legs']) > 1:
                choices += [('labels', ['a'] * len(st['legs']))]
        if not choices:
            return None
        k, v = rng.choice(choices)
        st[k] = v
        if st['op'] == 'spec':
            return None
        return st

    # ------------------------------------------------------------------ nested pipes with anonymous legs inside
    def gen_nested_label_case(self, rng, max_steps):
        """Dedicated stream for the label bookkeeping of NESTED pipes: a tensor of rank 3-6 with some unlabelled
        legs -> combine_legs of a group containing an unlabelled leg (inner pipe label '(?1.c)') -> [label-preserving
        operation] -> combine_legs of that pipe with other legs ('(a.(?1.c))', up to three levels) -> split_legs level
        by level, addressing legs by the labels that must have survived. Labels of every step are compared with the
        documented rules (oracle) and with the Lean label model (`Label.combine` / `Label.splitChars`)."""
        self.rng = rng
        mods = npcgen.gen_mods(rng, max_q=2)
        rank = rng.choice([3, 4, 4, 5, 5, 6])
        pool = arrgen.gen_leg_pool(rng, mods, n=3, max_blocks=3, max_size=2)
        legs = arrgen.pick_legs(rng, pool, rank, max_total=300)
        rank = len(legs)
        if rank < 3:
            return dict(operands=[], steps=[], mods=mods)
        names = rng.sample(['a', 'b', 'c', 'd', 'p', 'q', 'vL', 'vR', 'a*', 'p*', 'x1'], rank)
        n_none = rng.randint(1, max(1, rank - 2))
        none_at = set(rng.sample(range(rank), n_none))
        labels = [None if k in none_at else names[k] for k in range(rank)]
        dtype = rng.choice(arrgen.DTYPES)
        d = arrgen.gen_tensor(rng, mods, legs, dtype=dtype, labels=labels)
        case = dict(operands=[d], steps=[], mods=mods, stream='nested_labels')
        self.pool, self.mods = pool, mods
        self.cplx = dtype.startswith('complex')
        case['scalar'] = 'gint' if self.cplx else 'int'
        try:
            vals = [self.ex.io.make_array(d)]
        except Exception:
            return case
        npc = self.npc

        def emit(st, sure=True):
            st['malformed'] = False
            st['sure'] = sure
            try:
                res, _ = self.ex.run(vals, st)
            except Exception:
                res = None        # kept: an error on these calls is a finding, the step stays in the program
            case['steps'].append(st)
            vals.append(res if isinstance(res, npc.Array) else None)
            return len(vals) - 1 if isinstance(res, npc.Array) else None

        def ax(a, k):             # prefer the label where there is one (labels must be usable after every step)
            if a._labels[k] is not None and rng.random() < 0.7:
                return a._labels[k]
            return k if rng.random() < 0.6 else k - a.rank

        cur = 0
        # ---- level 1: a group with an anonymous leg inside
        a = vals[cur]
        anon = [k for k in range(a.rank) if a._labels[k] is None]
        first = rng.choice(anon)
        others = [k for k in range(a.rank) if k != first]
        grp = [first] + rng.sample(others, rng.choice([1, 1, 2]) if a.rank > 3 else 1)
        rng.shuffle(grp)
        if np.prod([a.legs[k].block_number for k in grp]) > 40:
            return case
        cur = emit(dict(op='combine_legs', **{'in': [cur]}, cl=[[ax(a, k) for k in grp]],
                        qconj=[rng.choice([None, None, 1, -1])], via=rng.choice(['single', None])))
        if cur is None:
            return case
        # ---- further levels: combine the pipe with other legs
        levels = rng.choice([1, 1, 2])
        for _ in range(levels):
            a = vals[cur]
            if rng.random() < 0.4:     # label-preserving / label-mapping operation in between
                kind = rng.choice(['conj', 'scale', 'transpose', 'conjconj'])
                if kind == 'transpose':
                    perm = list(range(a.rank))
                    rng.shuffle(perm)
                    nxt = emit(dict(op='transpose', via='transpose', **{'in': [cur]}, axes=[ax(a, k) for k in perm]))
                elif kind == 'scale':
                    nxt = emit(dict(op='scale', via='__mul__', **{'in': [cur]}, s=rng.choice([-1, 2])))
                else:
                    nxt = emit(dict(op='conj', via='conj', **{'in': [cur]}))
                    if nxt is not None and kind == 'conjconj':
                        nxt = emit(dict(op='conj', via='iconj', **{'in': [nxt]}))
                if nxt is None:
                    return case
                cur = nxt
                a = vals[cur]
            pipes = [k for k, l in enumerate(a.legs) if isinstance(l, npc.LegPipe)]
            rest = [k for k in range(a.rank) if k not in pipes]
            if not pipes or not rest or a.rank < 2:
                break
            grp = [rng.choice(pipes)] + rng.sample(rest, min(len(rest), rng.choice([1, 1, 2])))
            if len(grp) == a.rank and a.rank > 2 and rng.random() < 0.5:
                grp = grp[:-1]
            rng.shuffle(grp)
            if np.prod([a.legs[k].block_number for k in grp]) > 40:
                break
            nxt = emit(dict(op='combine_legs', **{'in': [cur]}, cl=[[ax(a, k) for k in grp]],
                            qconj=[rng.choice([None, 1, -1])]))
            if nxt is None:
                return case
            cur = nxt
        # ---- split level by level
        for _ in range(4):
            a = vals[cur]
            pipes = [k for k, l in enumerate(a.legs) if isinstance(l, npc.LegPipe)]
            if not pipes:
                break
            if sum(l.nlegs if k in pipes else 1 for k, l in enumerate(a.legs)) > 7:
                break
            axes = None if rng.random() < 0.5 else [ax(a, k) for k in rng.sample(pipes, rng.randint(1, len(pipes)))]
            nxt = emit(dict(op='split_legs', **{'in': [cur]}, axes=axes))
            if nxt is None:
                return case
            cur = nxt
            a = vals[cur]
            labelled = [k for k in range(a.rank) if a._labels[k] is not None]
            if labelled and rng.random() < 0.5:     # the surviving labels must address their legs
                emit(dict(op='get_leg_index', **{'in': [cur]}, ax=a._labels[rng.choice(labelled)]))
        return case

    # ------------------------------------------------------------------ rarely emitted public operations
    def gen_coverage_case(self, rng, max_steps):
        """Coverage stream (constructors, label methods, true division, ==, matvec, add_charge,
        as_completely_blocked, element / tensor assignment, Ellipsis, grid_concat, detect_*, operations on pipe legs,
        legs equal only up to flip_charges_qconj): see harness/c01_cov.py."""
        from harness import c01_cov
        return c01_cov.gen_coverage_case(self, rng, max_steps)

    # ------------------------------------------------------------------ charge names (ChargeInfo.names)
    def name_operands(self, rng, mods, ops):
        """With probability 0.25 all tensors of a program carry charge names (one named ChargeInfo for every leg
        built while the program runs, see arrio.set_default_names). Conflicting and partially missing names are
        generated by the coverage stream (harness/c01_cov.py, recipe `r_reported`)."""
        self.ex.io.set_default_names(None)
        if not mods or rng.random() >= 0.25:
            return ops
        names = [rng.choice(['N', 'Sz', 'parity', 'K']) + str(k) for k in range(len(mods))]
        for d in ops:
            d['names'] = list(names)
        self.ex.io.set_default_names(names)
        return ops
