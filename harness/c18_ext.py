"""C18 extension round: correspondence of the newly modelled code with the real tenpy code, plus the independent oracle.

Newly modelled (lean/TenpyModel/C18/Ext{Meas,Names}.lean, driver lean/drivers/C18ext.lean):

* `Simulation._merge_measurement_results` (measurement series bookkeeping: late / missing keys, `None` padding, the
  `StopIteration` on an empty store)  -> op `merge`; plus the real save -> load -> continue round trip
  (`prepare_results_for_save`, `from_saved_checkpoint`) against the uninterrupted merge (`C18_merge_resume_split`)
* `Simulation.fix_output_filenames` in full (`output_filename=None`, `skip_if_output_exists`, `_1 … _99` renaming and
  the refusal, `overwrite_output` + log rotation, `loaded_from_checkpoint`, `safe_write` off, stub)  -> op `names`
* `Simulation.save_at_checkpoint` / `handle_abort_signal` (save_every_x_seconds None / 0 / interval, interval
  adaptation, SIGINT flag -> save -> KeyboardInterrupt, second SIGINT, other signal) under a scripted clock
  (`tenpy.simulations.simulation.time` replaced in the worker), real `save_results` into a temporary directory,
  "saved" observed by loading the file  -> op `ckpt`

Every case is a JSON dict `{'part': 'ext', 'sub': 'merge'|'names'|'e2e', ...}` that replays by itself.
"""
import os
import shutil
import tempfile
import warnings

from vlib import core

SIG_SKIP = 'ext.names.resume-with-skip_if_output_exists.raises-Skip'

# ----------------------------------------------------------------------------------------------------------------
# merge


def gen_merge(rng, malformed):
    nkeys = rng.randint(1, 5)
    n = rng.randint(1, 8)
    style = rng.choice(['stable', 'late', 'drop', 'random', 'random'])
    rows = []
    for j in range(n):
        if style == 'stable':
            ks = list(range(nkeys))
        elif style == 'late':
            ks = [k for k in range(nkeys) if k <= j]
        elif style == 'drop':
            ks = [k for k in range(nkeys) if (j + k) % 3 != 2]
        else:
            ks = [k for k in range(nkeys) if rng.random() < 0.6]
        rng.shuffle(ks)
        rows.append([[k, rng.randint(-9, 9)] for k in ks])
    if malformed:
        kind = rng.choice(['empty-first', 'empty-first', 'all-empty', 'empty-middle'])
        if kind == 'empty-first':
            rows = [[]] * rng.randint(1, 2) + rows
        elif kind == 'all-empty':
            rows = [[] for _ in rows]
        else:
            rows.insert(rng.randint(0, len(rows)), [])
    elif not rows[0]:
        rows[0] = [[0, rng.randint(-9, 9)]]
    return dict(part='ext', sub='merge', rows=rows, split=rng.randint(1, max(1, len(rows) - 1)), malformed=bool(malformed))


def _bare_sim():
    from tenpy.simulations.simulation import Simulation
    from tenpy.tools.params import asConfig
    sim = Simulation.__new__(Simulation)
    sim.results = {}
    sim.errors_during_run = []
    sim.options = asConfig(dict(save_psi=False), 'Simulation')
    sim.options.touch('save_psi')
    return sim


def _canon_store(meas):
    if meas is None:
        return None
    out = []
    for k in sorted(meas):
        out.append([int(k[1:]), [None if v is None else int(v) for v in meas[k]]])
    return out


def _row_dict(row):
    return dict(('k%d' % k, v) for k, v in row)


def eval_merge(case):
    """real code: trace of stores after every merge; oracle verdicts; round trip through save/load at `split`."""
    rows = case['rows']
    problems = []
    sim = _bare_sim()
    trace = []
    raised_at = None
    with warnings.catch_warnings():
        warnings.simplefilter('ignore')
        for j, row in enumerate(rows):
            try:
                sim._merge_measurement_results(_row_dict(row))
            except BaseException as e:  # noqa: BLE001
                raised_at = j
                before = trace[-1] if trace else None
                documented = isinstance(e, StopIteration) and before == [] and len(row) > 0
                if not documented:
                    problems.append(('ext.merge.raised-unexpectedly', 'merge %d raised %r on store %r' % (j, e, before)))
                trace.extend(['raised'] * (len(rows) - j))
                break
            store = _canon_store(sim.results.get('measurements'))
            trace.append(store)
            # independent oracle: the series under key k is [rows[i].get(k) for i <= j], keys = union of keys
            want_keys = sorted(set(k for r in rows[:j + 1] for k, _ in r))
            got_keys = [c[0] for c in store]
            if got_keys != want_keys:
                problems.append(('ext.merge.keys-differ', 'after merge %d: keys %r, expected %r' % (j, got_keys, want_keys)))
            for k, series in store:
                want = [dict((a, b) for a, b in r).get(k) for r in rows[:j + 1]]
                if series != want:
                    problems.append(('ext.merge.series-not-the-measurements',
                                     'after merge %d: key %d holds %r, measurements gave %r' % (j, k, series, want)))
                    break
    # resume round trip: save after `split` merges (real prepare_results_for_save), load as from_saved_checkpoint does,
    # continue; must equal the uninterrupted store
    split = case.get('split', 0)
    rt = None
    if raised_at is None and 0 < split < len(rows):
        from tenpy.simulations.simulation import Simulation
        with warnings.catch_warnings():
            warnings.simplefilter('ignore')
            a = _bare_sim()
            for row in rows[:split]:
                a._merge_measurement_results(_row_dict(row))
            saved = a.prepare_results_for_save()
            saved.setdefault('finished_run', False)
            try:
                b = Simulation.from_saved_checkpoint(checkpoint_results=saved, setup_logging=False)
                b.options.touch('save_psi')
                for row in rows[split:]:
                    b._merge_measurement_results(_row_dict(row))
                rt = _canon_store(b.results.get('measurements'))
            except BaseException as e:  # noqa: BLE001
                rt = 'raised %r' % (e,)
        if rt != trace[-1]:
            problems.append(('ext.merge.resumed-series-differ',
                             'saved after %d merges, loaded, continued: %r; uninterrupted: %r' % (split, rt, trace[-1])))
    return dict(trace=trace, problems=problems, line=dict(k='merge', rows=rows),
                hist=['ext=merge', 'ext.merge.n=%d' % len(rows), 'ext.merge.raised=%s' % (raised_at is not None),
                      'ext.merge.roundtrip=%s' % (rt is not None)])


def compare_merge(real, out):
    if 'error' in out:
        return 'driver error: %r' % (out,)
    model = []
    for t in out['trace']:
        model.append(t if t == 'raised' or t is None else sorted(t))
    if model != real['trace']:
        return 'model trace %r != real %r' % (model, real['trace'])
    return None


# ----------------------------------------------------------------------------------------------------------------
# names

EXTS = ['.pkl', '.h5', '.pkl', '', '.out.pkl']


def _names(root, ext):
    """independent of the code under test: the paths `fix_output_filenames` is documented to use
    (`filename.ext` -> `filename_<i>.ext`, backup = `.backup` in front of the ending, log = ending replaced by `.log`)"""
    r, e = os.path.splitext(root + ext)

    def out(i):
        return r + ('_%d' % i if i else '') + e

    def bak(i):
        return r + ('_%d' % i if i else '') + '.backup' + e

    return out, bak, r + '.log', r + '.backup.log'


def gen_names(rng, malformed):
    ext = rng.choice(EXTS)
    opts = dict(has_name=True, skip=rng.random() < 0.2, overwrite=rng.random() < 0.4, loaded=rng.random() < 0.3,
                safe=rng.random() < 0.8)
    style = rng.choice(['empty', 'taken', 'taken', 'taken', 'gap', 'full', 'almost-full'])
    outs = []
    if style == 'taken':
        outs = list(range(rng.randint(1, 4)))
    elif style == 'gap':
        outs = sorted(set([0] + rng.sample(range(1, 7), rng.randint(1, 4))))
    elif style == 'full':
        outs = list(range(100 + rng.randint(0, 2)))
    elif style == 'almost-full':
        hole = rng.choice([99, 99, 57])
        outs = [i for i in range(100) if i != hole]
    baks = [i for i in range(0, 5) if rng.random() < 0.3]
    if malformed:
        kind = rng.choice(['noname', 'contradict', 'loaded-missing'])
        if kind == 'noname':
            opts['has_name'] = False
        elif kind == 'contradict':
            opts.update(skip=True, overwrite=True)
            outs = outs or [0]
        else:
            opts.update(loaded=True)
            outs = [i for i in outs if i != 0]
    cid = [1]

    def nxt():
        cid[0] += 1
        return cid[0]
    entries = [[['out', i], nxt()] for i in outs] + [[['bak', i], nxt()] for i in baks]
    if rng.random() < 0.6:
        entries.append([['log'], nxt()])
    if rng.random() < 0.4:
        entries.append([['baklog'], nxt()])
    return dict(part='ext', sub='names', ext=ext, opts=opts, dir=entries, malformed=bool(malformed))


def _listing(d, out, bak, log, baklog, max_i):
    table = {}
    for i in range(max_i + 1):
        table[out(i)] = ['out', i]
        table[bak(i)] = ['bak', i]
    table[log] = ['log']
    table[baklog] = ['baklog']
    res, unknown = [], []
    for fn in sorted(os.listdir(d)):
        with open(os.path.join(d, fn)) as f:
            txt = f.read()
        if fn not in table:
            unknown.append(fn)
            continue
        if txt.startswith('simulation initialized on'):
            c = 0
        else:
            c = int(txt[1:])
        res.append([table[fn], c])
    key = lambda e: (0, e[0][1], 0 if e[0][0] == 'out' else 1) if len(e[0]) == 2 else (1, 0 if e[0][0] == 'log' else 1, 0)
    return sorted(res, key=key), unknown


def eval_names(case):
    from tenpy.simulations.simulation import Simulation, Skip
    opts, entries, ext = case['opts'], case['dir'], case['ext']
    max_i = max([e[0][1] for e in entries if len(e[0]) == 2] + [3]) + 1
    problems = []
    d = tempfile.mkdtemp(prefix='verif-c18x-')
    try:
        root = os.path.join(d, 'res')
        out, bak, log, baklog = _names(root, ext)
        rel = lambda p: os.path.basename(p)
        fname = {'out': out, 'bak': bak}
        for nm, c in entries:
            p = fname[nm[0]](nm[1]) if len(nm) == 2 else (log if nm[0] == 'log' else baklog)
            with open(p, 'w') as f:
                f.write('c%d' % c)
        before, _ = _listing(d, lambda i: rel(out(i)), lambda i: rel(bak(i)), rel(log), rel(baklog), max_i)
        sim = Simulation.__new__(Simulation)
        sim.loaded_from_checkpoint = bool(opts['loaded'])
        sim.options = dict(output_filename=out(0) if opts['has_name'] else None, skip_if_output_exists=opts['skip'],
                           overwrite_output=opts['overwrite'], safe_write=opts['safe'])
        outcome = None
        with warnings.catch_warnings():
            warnings.simplefilter('ignore')
            try:
                sim.fix_output_filenames()
            except Skip:
                outcome = ['skip']
            except ValueError as e:
                outcome = ['refuse'] if 'Refuse' in str(e) else ['error', repr(e)]
            except BaseException as e:  # noqa: BLE001
                outcome = ['error', repr(e)]
        if outcome is None:
            if sim.output_filename is None:
                outcome = ['nofile']
                if sim._backup_filename is not None:
                    problems.append(('ext.names.backup-without-output', repr(sim._backup_filename)))
            else:
                got = str(sim.output_filename)
                idx = [i for i in range(max_i + 1) if out(i) == got]
                if not idx:
                    outcome = ['error', 'output_filename %r is none of the candidates' % rel(got)]
                else:
                    i = idx[0]
                    bk = sim._backup_filename
                    if bk is not None and str(bk) != bak(i):
                        problems.append(('ext.names.backup-name', '%r for output %r' % (rel(str(bk)), rel(got))))
                    outcome = ['ok', i, bk is not None]
        after, unknown = _listing(d, lambda i: rel(out(i)), lambda i: rel(bak(i)), rel(log), rel(baklog), max_i)
        if unknown:
            problems.append(('ext.names.unexpected-file', repr(unknown)))
    finally:
        shutil.rmtree(d, ignore_errors=True)
    # ---- independent oracle (no model)
    b = dict((tuple(n), c) for n, c in before)
    a = dict((tuple(n), c) for n, c in after)
    had0 = ('out', 0) in b
    known = False
    if outcome[0] == 'error':
        problems.append(('ext.names.raised-unexpectedly', outcome[1]))
    for n, c in b.items():
        if n[0] == 'out' and a.get(n) != c:
            problems.append(('ext.names.results-file-touched-at-startup', '%r: %r -> %r' % (n, c, a.get(n))))
        if n[0] == 'bak' and a.get(n) != c:
            problems.append(('ext.names.backup-file-touched-at-startup', '%r: %r -> %r' % (n, c, a.get(n))))
    for n in a:
        if n[0] == 'out' and n not in b:
            problems.append(('ext.names.results-file-created-at-startup', repr(n)))
    if ('log',) in b and b[('log',)] not in (a.get(('log',)), a.get(('baklog',))):
        problems.append(('ext.names.old-log-lost', '%r -> %r' % (before, after)))
    if outcome[0] in ('skip', 'refuse', 'nofile') and a != b:
        problems.append(('ext.names.directory-changed-although-raised', '%r -> %r' % (before, after)))
    if outcome[0] == 'ok':
        i = outcome[1]
        if not opts['overwrite'] and not opts['loaded']:
            if ('out', i) in b:
                problems.append(('ext.names.fresh-run-selects-existing-file', 'index %d in %r' % (i, before)))
            if any(('out', j) not in b for j in range(i)) or i > 99:
                problems.append(('ext.names.not-first-free-candidate', 'index %d in %r' % (i, before)))
        elif i != 0:
            problems.append(('ext.names.renamed-although-overwrite-or-resume', 'index %d' % i))
        if outcome[2] != bool(opts['safe']):
            problems.append(('ext.names.backup-vs-safe_write', repr(outcome)))
        if outcome[2] and ('bak', i) not in a:
            problems.append(('ext.names.no-stub', repr(after)))
    if outcome[0] == 'skip' and not (opts['skip'] and had0):
        problems.append(('ext.names.skip-without-reason', repr(opts)))
    if outcome[0] == 'refuse' and not all(('out', j) in b for j in range(100)):
        problems.append(('ext.names.refused-with-free-candidate', ''))
    if opts['has_name'] and opts['loaded'] and outcome[0] != 'ok':
        # a run loaded from a checkpoint must keep its name and go on — the existing output file is its checkpoint
        known = outcome[0] == 'skip'
        problems.append((SIG_SKIP if known else 'ext.names.resume-does-not-keep-name',
                         'loaded_from_checkpoint=True, options %r, directory %r: %r' % (opts, before, outcome)))
    line = dict(k='names', opts=dict(opts, guard_skip=True), dir=entries, stub=0, max_i=max_i)
    return dict(outcome=outcome, after=after, problems=problems, line=line, known_skip=known,
                hist=['ext=names', 'ext.names.outcome=' + outcome[0], 'ext.names.loaded=%s' % opts['loaded'],
                      'ext.names.overwrite=%s' % opts['overwrite'], 'ext.names.safe=%s' % opts['safe']])


def compare_names(real, out):
    if 'error' in out:
        return 'driver error: %r' % (out,)
    if real['known_skip']:
        return None     # explained by the property failure reported for this case (model = repaired behaviour)
    if out['outcome'] != real['outcome']:
        return 'model outcome %r != real %r' % (out['outcome'], real['outcome'])
    if out['dir'] != real['after']:
        return 'model directory %r != real %r' % (out['dir'], real['after'])
    return None


# ----------------------------------------------------------------------------------------------------------------
# ckpt: save_at_checkpoint / handle_abort_signal under a scripted clock

UNIT = 0.125    # seconds per model time unit (dyadic: every product / difference below is exact in floats)


def gen_ckpt(rng, malformed):
    every = rng.choice([None, 0, 0, rng.randint(1, 9), rng.randint(10, 80), rng.randint(10, 80)])
    n = rng.randint(3, 8)
    evs, t = [], 0
    for _ in range(n):
        e = every if every else 20
        gap = rng.choice([1, 2, e, e + 1, e - 1 if e > 1 else 1, rng.randint(1, 3 * e + 3), 5 * e])
        if malformed and rng.random() < 0.3:
            gap = rng.choice([0, 0, -1])          # the clock does not advance / goes backwards
        now = t + gap
        dur = rng.choice([0, 1, 2, max(0, e // 10), e // 10 + 1, rng.randint(0, e + 2)])
        t_last = now + dur
        t_after = t_last + rng.choice([0, 0, 1])
        evs.append(['ckpt', now, t_last, t_after])
        t = t_after
    if rng.random() < 0.35 or malformed:
        k = rng.randint(0, len(evs) - 1)
        evs.insert(k, ['sig', True])
        if malformed:
            kind = rng.choice(['double', 'other', 'none'])
            if kind == 'double':
                evs.insert(k + rng.randint(0, 1), ['sig', True])
            elif kind == 'other':
                evs.insert(rng.randint(0, len(evs) - 1), ['sig', False])
    return dict(part='ext', sub='ckpt', every=every, last=0, evs=evs, malformed=bool(malformed))


class _FakeTime:
    def __init__(self):
        self.q = []

    def time(self):
        if not self.q:
            raise AssertionError('more clock readings than scripted')
        return self.q.pop(0)

    def asctime(self):
        return 'now'


def eval_ckpt(case):
    import contextlib
    import io
    import logging
    import pickle
    import signal
    from pathlib import Path
    import tenpy.simulations.simulation as S
    from tenpy.tools.params import asConfig
    logging.disable(logging.CRITICAL)
    problems, trace = [], []
    d = tempfile.mkdtemp(prefix='verif-c18x-')
    fake, old_time = _FakeTime(), S.time
    boundary = False
    try:
        sim = _bare_sim()
        every0 = case['every']
        sim.options = asConfig(dict(save_psi=False, save_every_x_seconds=None if every0 is None else every0 * UNIT),
                               'Simulation')
        sim.options.touch('save_psi', 'save_every_x_seconds')
        sim.output_filename = Path(d) / 'r.pkl'
        sim._backup_filename = Path(d) / 'r.backup.pkl'
        sim._last_save = case['last'] * UNIT
        sim.received_signal_sigint = False
        S.time = fake
        saves, stop, ck, flagged_since = [], None, 0, False
        prev_save = None      # (t_last, tts) of the previous interval-triggered save
        for ev in case['evs']:
            if stop is None:
                every_before = sim.options['save_every_x_seconds']
                last_before = sim._last_save
                sig_before = sim.received_signal_sigint
                if ev[0] == 'ckpt':
                    now, t_last, t_after = ev[1] * UNIT, ev[2] * UNIT, ev[3] * UNIT
                    sim.results['c18_marker'] = ck
                    fake.q = [now, now, t_last, t_after]
                    if every_before is not None and every_before > 0 and 10 * (t_after - now) == every_before:
                        boundary = True
                    try:
                        with warnings.catch_warnings():
                            warnings.simplefilter('ignore')
                            sim.save_at_checkpoint(None)
                    except KeyboardInterrupt as e:
                        stop = 'KeyboardInterrupt-second' if 'second' in str(e) else 'KeyboardInterrupt-after-save'
                    except BaseException as e:  # noqa: BLE001
                        stop = 'error %r' % (e,)
                        problems.append(('ext.ckpt.raised-unexpectedly', stop))
                    saved = False
                    if sim.output_filename.exists():
                        with open(sim.output_filename, 'rb') as f:
                            saved = pickle.load(f).get('c18_marker') == ck
                    if saved:
                        saves.append(ck)
                    # ---- independent oracle
                    if sig_before:
                        if not saved or stop != 'KeyboardInterrupt-after-save':
                            problems.append(('ext.ckpt.sigint-not-saved-before-abort',
                                             'checkpoint %d after SIGINT: saved=%r, %r' % (ck, saved, stop)))
                    elif every_before is None:
                        if saved:
                            problems.append(('ext.ckpt.saved-although-off', 'checkpoint %d' % ck))
                    else:
                        is_due = now - last_before > every_before
                        if saved and not is_due:
                            problems.append(('ext.ckpt.premature-save', 'checkpoint %d: now-last=%r every=%r'
                                             % (ck, now - last_before, every_before)))
                        if is_due and not saved:
                            problems.append(('ext.ckpt.due-save-missing', 'checkpoint %d: now-last=%r every=%r'
                                             % (ck, now - last_before, every_before)))
                        if saved and prev_save is not None and every_before > 0 \
                                and not now - prev_save[0] > 10 * prev_save[1]:
                            problems.append(('ext.ckpt.overhead-bound', 'checkpoint %d saved %r after a save that took %r'
                                             % (ck, now - prev_save[0], prev_save[1])))
                        if saved:
                            prev_save = (t_last, t_after - now)
                    every_after = sim.options['save_every_x_seconds']
                    if every_before is not None and (every_after is None or every_after < every_before):
                        problems.append(('ext.ckpt.interval-shrank', '%r -> %r' % (every_before, every_after)))
                    if stop is None and sim.output_filename.exists() and sim._backup_filename.exists():
                        problems.append(('ext.ckpt.backup-left-behind', 'checkpoint %d' % ck))
                    ck += 1
                else:
                    try:
                        with contextlib.redirect_stderr(io.StringIO()):
                            sim.handle_abort_signal(signal.SIGINT if ev[1] else signal.SIGTERM, None)
                    except KeyboardInterrupt:
                        stop = 'KeyboardInterrupt-second'
                        if not sig_before:
                            problems.append(('ext.ckpt.first-sigint-aborts-immediately', ''))
                    except ValueError:
                        stop = 'ValueError'
                        if ev[1]:
                            problems.append(('ext.ckpt.sigint-rejected', ''))
                    if ev[1] and stop is None and not sim.received_signal_sigint:
                        problems.append(('ext.ckpt.sigint-flag-not-set', ''))
            ev_every = sim.options['save_every_x_seconds']
            trace.append([list(saves), sim._last_save / UNIT, None if ev_every is None else ev_every / UNIT,
                          bool(sim.received_signal_sigint), stop])
    finally:
        S.time = old_time
        logging.disable(logging.NOTSET)
        shutil.rmtree(d, ignore_errors=True)
    hist = ['ext=ckpt', 'ext.ckpt.every=%s' % ('None' if case['every'] is None else '0' if case['every'] == 0 else '>0'),
            'ext.ckpt.stop=%s' % trace[-1][4], 'ext.ckpt.saves=%d' % min(len(trace[-1][0]), 4)]
    if boundary:
        return dict(problems=problems, line=None, hist=hist + ['ext.ckpt.boundary-skipped'])
    return dict(trace=trace, problems=problems, hist=hist,
                line=dict(k='ckpt', last=case['last'], every=case['every'], evs=case['evs']))


def compare_ckpt(real, out):
    if 'error' in out:
        return 'driver error: %r' % (out,)
    if out['trace'] != real['trace']:
        for k, (a, b) in enumerate(zip(out['trace'], real['trace'])):
            if a != b:
                return 'after event %d: model [saves, last, every, sigint, stop] = %r, real %r' % (k, a, b)
        return 'trace lengths differ'
    return None


# ----------------------------------------------------------------------------------------------------------------
# e2e: a real run started with skip_if_output_exists=True, interrupted (SIGINT-free: finished_run reset, final_time
# extended), resumed from its own output file


def eval_e2e(case):
    import copy
    import pickle
    import logging
    from tenpy.simulations.simulation import run_simulation, resume_from_checkpoint, Skip
    import tenpy.tools.misc
    tenpy.tools.misc.skip_logging_setup = True
    logging.disable(logging.CRITICAL)
    problems = []
    d = tempfile.mkdtemp(prefix='verif-c18x-')
    cwd = os.getcwd()
    try:
        os.chdir(d)
        params = dict(simulation_class='RealTimeEvolution', output_filename='r.pkl', save_every_x_seconds=0.,
                      skip_if_output_exists=bool(case['skip']), overwrite_output=bool(case['overwrite']),
                      model_class='XXZChain', model_params=dict(L=4, bc_MPS='finite'),
                      initial_state_params=dict(method='lat_product_state', product_state=[['up'], ['down']]),
                      algorithm_class='TEBDEngine',
                      algorithm_params=dict(dt=0.05, N_steps=1, trunc_params=dict(chi_max=8)), final_time=0.1)
        with warnings.catch_warnings():
            warnings.simplefilter('ignore')
            run_simulation(**copy.deepcopy(params))
            with open('r.pkl', 'rb') as f:
                ck = pickle.load(f)
            ck['finished_run'] = False
            ck['simulation_parameters']['final_time'] = 0.2
            with open('r.pkl', 'wb') as f:
                pickle.dump(ck, f)
            try:
                r = resume_from_checkpoint(filename='r.pkl')
                n = len(r['measurements']['evolved_time'])
                if not r['finished_run'] or n != 5 or sorted(os.listdir('.')) != ['r.pkl']:
                    problems.append(('ext.e2e.resumed-run-differs', '%r measurements, files %r' % (n, sorted(os.listdir('.')))))
            except Skip as e:
                problems.append((SIG_SKIP, 'run_simulation(skip_if_output_exists=True) interrupted, then '
                                 'resume_from_checkpoint(filename=output file): %r' % (e,)))
    finally:
        os.chdir(cwd)
        shutil.rmtree(d, ignore_errors=True)
    return dict(problems=problems, line=None, hist=['ext=e2e'])


# ----------------------------------------------------------------------------------------------------------------


def eval_case(case):
    if case['sub'] == 'merge':
        return eval_merge(case)
    if case['sub'] == 'names':
        return eval_names(case)
    if case['sub'] == 'ckpt':
        return eval_ckpt(case)
    return eval_e2e(case)


def _safe_eval(case):
    import traceback
    try:
        return eval_case(case)
    except BaseException:  # noqa: BLE001
        return dict(problems=[('ext.%s.harness-raised' % case['sub'], traceback.format_exc()[-1500:])], line=None, hist=[])


def gen_cases(rng, quick):
    n_merge, n_names, n_ckpt = (120, 160, 120) if quick else (1500, 2000, 1500)
    cases = [gen_merge(rng, malformed=(i % 6 == 5)) for i in range(n_merge)]
    cases += [gen_names(rng, malformed=(i % 7 == 6)) for i in range(n_names)]
    cases += [gen_ckpt(rng, malformed=(i % 5 == 4)) for i in range(n_ckpt)]
    cases += [dict(part='ext', sub='e2e', skip=s, overwrite=o) for s, o in ((True, False), (False, True), (False, False))]
    return cases


def evaluate(ctx, res, cases, pool, use_model=True):
    reals = pool.map(_safe_eval, cases, chunksize=8) if pool is not None else [_safe_eval(c) for c in cases]
    idx = [i for i, r in enumerate(reals) if r.get('line') is not None]
    outs = {}
    if use_model and idx:
        got = core.run_driver('C18ext', [reals[i]['line'] for i in idx])
        outs = dict(zip(idx, got))
    for i, (case, real) in enumerate(zip(cases, reals)):
        nontrivial = case['sub'] != 'merge' or len(case['rows']) > 1
        if case['sub'] == 'names':
            nontrivial = any(e[0][0] == 'out' for e in case['dir'])
        if case['sub'] == 'ckpt':
            nontrivial = case['every'] is not None or any(e[0] == 'sig' for e in case['evs'])
        res.note_case(case, nontrivial=nontrivial)
        for h in real.get('hist', []):
            res.count(h)
        for sig, detail in real['problems']:
            res.fail('property', sig, detail, case)
        if i in outs:
            res.traces_validated += 1
            diff = dict(merge=compare_merge, names=compare_names, ckpt=compare_ckpt)[case['sub']](real, outs[i])
            if diff is not None and not real['problems']:
                res.fail('correspondence', 'ext.%s.model-differs' % case['sub'], diff, case)
            elif diff is not None:
                res.fail('correspondence', 'ext.%s.model-differs(with-property-failure)' % case['sub'], diff, case)


def run(ctx, res, pool, use_model=True):
    rng = ctx.sub_rng('ext')
    evaluate(ctx, res, gen_cases(rng, ctx.quick), pool, use_model=use_model)
    return res


def replay_case(ctx, res, case, use_model=True):
    evaluate(ctx, res, [case], None, use_model=use_model)
    return res
