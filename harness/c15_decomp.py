"""C15, part 3: truncated decompositions `svd_theta`, `eigh_rho`, `decompose_theta_qr_based` on small random
npc Arrays (with and without charges) — oracle = dense linear algebra on `to_ndarray()`.

"Truncated decompositions of a matrix reproduce it with a squared relative error equal to the reported error,
using the reported renormalization factor": the dense reconstruction is compared with the input, its squared
relative error with `err.eps` (tolerance 1e-10, behind LAPACK), the kept values with the largest dense
singular values / eigenvalues, the factors for orthonormality.  A decomposition is a function of the matrix: the
QR-based one is additionally run on the same tensors in a shifted charge gauge (nonzero `qtotal`), which must
give the same spectrum, error and renormalization.

Cases are described by a small JSON recipe (charge kind, leg charges, seed of the entries, options), so a
failure replays from the case alone.
"""
import warnings

import numpy as np

from vlib import core
from harness import c15_truncate

TOL = 1e-10


# --------------------------------------------------------------------------------------------
# building arrays from recipes


def chinfo_of(kind):
    import tenpy.linalg.np_conserved as npc
    if kind == 'none':
        return npc.ChargeInfo()
    if kind == 'U1':
        return npc.ChargeInfo([1])
    if kind == 'Z2':
        return npc.ChargeInfo([2])
    if kind == 'Z3':
        return npc.ChargeInfo([3])
    if kind == 'U1xZ2':
        return npc.ChargeInfo([1, 2])
    raise ValueError(kind)


def nq(kind):
    return {'none': 0, 'U1': 1, 'Z2': 1, 'Z3': 1, 'U1xZ2': 2}[kind]


def gen_q(rng, kind):
    if kind == 'none':
        return []
    if kind == 'U1':
        return [rng.randint(-1, 2)]
    if kind == 'Z2':
        return [rng.randint(0, 1)]
    if kind == 'Z3':
        return [rng.randint(0, 2)]
    return [rng.randint(-1, 1), rng.randint(0, 1)]


def gen_qflat(rng, kind, dim, blocked):
    q = [gen_q(rng, kind) for _ in range(dim)]
    if blocked:
        q.sort()
    return q


def leg_of(kind, qflat, qconj):
    import tenpy.linalg.np_conserved as npc
    ch = chinfo_of(kind)
    return npc.LegCharge.from_qflat(ch, np.array(qflat, dtype=int).reshape(len(qflat), nq(kind)), qconj)


def entries(seed, dtype):
    r = np.random.default_rng(seed)

    def f(shape):
        a = r.standard_normal(shape)
        if dtype == 'complex':
            a = a + 1j * r.standard_normal(shape)
        return a
    return f


def make_matrix(case):
    """random matrix with legs (+1, -1) and total charge case['qtotal']; None if it has no block"""
    import tenpy.linalg.np_conserved as npc
    kind = case['charge']
    legs = [leg_of(kind, case['qL'], 1), leg_of(kind, case['qR'], -1)]
    dt = np.complex128 if case['dtype'] == 'complex' else np.float64
    a = npc.Array.from_func(entries(case['seed'], case['dtype']), legs, dtype=dt, qtotal=case['qtotal'] or None,
                            labels=['vL', 'vR'])
    if case.get('spectrum'):
        # impose the given singular values block by block (exact degeneracies across and inside blocks)
        sp = list(case['spectrum'])
        k = 0
        for blk in a._data:
            u, s, vh = np.linalg.svd(blk, full_matrices=False)
            s = np.array([sp[(k + i) % len(sp)] for i in range(len(s))])
            k += len(s)
            blk[...] = (u * s) @ vh
    if len(a._data) == 0 or npc.norm(a) == 0:
        return None
    return a


def trunc_opts(case):
    return dict(case['trunc'])


def quiet(f):
    with warnings.catch_warnings():
        warnings.simplefilter('ignore')
        return f()


def isometry_defect(m, left):
    g = m.conj().T @ m if left else m @ m.conj().T
    return float(np.linalg.norm(g - np.eye(g.shape[0])))


# --------------------------------------------------------------------------------------------
# svd_theta


def check_svd(case):
    """-> (signature|None, detail, info)"""
    from tenpy.linalg.truncation import svd_theta
    theta = make_matrix(case)
    if theta is None:
        return None, None, {'empty': True}
    th = theta.to_ndarray()
    try:
        U, S, VH, err, renorm = quiet(lambda: svd_theta(theta.copy(deep=True), trunc_opts(case)))
    except Exception as e:
        return 'svd_theta.raises', f'{type(e).__name__}: {e}', {}
    info = {'kept': len(S), 'full': min(th.shape)}
    if not np.array_equal(theta.to_ndarray(), th):
        return 'svd_theta.mutates-input', '', info
    try:
        U.test_sanity()
        VH.test_sanity()
    except Exception as e:
        return 'svd_theta.factors-insane', str(e), info
    Ud, Vd = U.to_ndarray(), VH.to_ndarray()
    k = len(S)
    if Ud.shape != (th.shape[0], k) or Vd.shape != (k, th.shape[1]) or k < 1:
        return 'svd_theta.shapes', f'{Ud.shape} {k} {Vd.shape}', info
    cm = case['trunc'].get('chi_max', 100)
    if cm is not None and cm >= 1 and k > cm:
        return 'svd_theta.chi_max-exceeded', f'{k} > {cm}', info
    if abs(np.linalg.norm(S) - 1) > 1e-12:
        return 'svd_theta.S-not-normalised', repr(float(np.linalg.norm(S))), info
    d = max(isometry_defect(Ud, True), isometry_defect(Vd, False))
    if d > 1e-9:
        return 'svd_theta.factors-not-orthonormal', repr(d), info
    n2 = np.linalg.norm(th) ** 2
    rel2 = np.linalg.norm(th - (Ud * (S * renorm)) @ Vd) ** 2 / n2
    if abs(rel2 - err.eps) > TOL:
        return ('svd_theta.eps-vs-reconstruction',
                f'reconstruction error {rel2!r} reported eps {float(err.eps)!r} renormalization {float(renorm)!r}', info)
    if abs(err.ov - (1 - 2 * err.eps)) > 1e-14:
        return 'svd_theta.err.ov', '', info
    sv = np.linalg.svd(th, compute_uv=False)
    got = np.sort(S * renorm)[::-1]
    if np.max(np.abs(got - sv[:k])) > 1e-9 * sv[0]:
        return 'svd_theta.kept-not-largest', f'kept {got.tolist()} dense {sv.tolist()}', info
    return None, None, info


# --------------------------------------------------------------------------------------------
# eigh_rho


def check_eigh(case):
    import tenpy.linalg.np_conserved as npc
    from tenpy.linalg.truncation import eigh_rho
    a = make_matrix(case)
    if a is None:
        return None, None, {'empty': True}
    rho = npc.tensordot(a, a.conj(), axes=[1, 1])
    rho = rho / npc.trace(rho).real * case.get('trace', 1.0)
    rd = rho.to_ndarray()
    tr = np.trace(rd).real
    try:
        W, V, err = quiet(lambda: eigh_rho(rho.copy(deep=True), trunc_opts(case)))
    except Exception as e:
        return 'eigh_rho.raises', f'{type(e).__name__}: {e}', {}
    info = {'kept': len(W), 'full': rd.shape[0]}
    if not np.array_equal(rho.to_ndarray(), rd):
        return 'eigh_rho.mutates-input', '', info
    Vd = V.to_ndarray()
    k = len(W)
    if Vd.shape != (rd.shape[0], k) or k < 1:
        return 'eigh_rho.shapes', f'{Vd.shape} {k}', info
    cm = case['trunc'].get('chi_max', 100)
    if cm is not None and cm >= 1 and k > cm:
        return 'eigh_rho.chi_max-exceeded', f'{k} > {cm}', info
    if isometry_defect(Vd, True) > 1e-9:
        return 'eigh_rho.V-not-orthonormal', '', info
    approx = (Vd * W) @ Vd.conj().T
    if abs(np.trace(approx).real - tr) > 1e-10 * tr + 1e-12:
        return 'eigh_rho.trace-not-preserved', f'{np.trace(approx).real!r} vs {tr!r}', info
    D = rd - (1 - err.eps) * approx  # the discarded part: positive, of weight eps
    ev = np.linalg.eigvalsh((D + D.conj().T) / 2)
    if ev.min() < -1e-10 * tr or abs(np.abs(ev).sum() / tr - err.eps) > TOL:
        return ('eigh_rho.eps-vs-reconstruction',
                f'discarded weight {np.abs(ev).sum() / tr!r} reported eps {float(err.eps)!r}', info)
    full = np.sort(np.linalg.eigvalsh(rd))[::-1]
    got = np.sort(W * (1 - err.eps))[::-1]
    if np.max(np.abs(got - full[:k])) > 1e-9 * tr:
        return 'eigh_rho.kept-not-largest', f'kept {got.tolist()} dense {full.tolist()}', info
    return None, None, info


# --------------------------------------------------------------------------------------------
# decompose_theta_qr_based


def make_two_site(case, gauge):
    """T_L[vL,p0,vR], T_R[vL,p1,vR] with zero total charge, then (gauge=True) the same tensors with the outer
    legs' charges shifted so that qtotal_L, qtotal_R = case['gauge_q']; theta in both gauges has the same entries."""
    import tenpy.linalg.np_conserved as npc
    kind = case['charge']
    vL = leg_of(kind, case['qvL'], 1)
    p = leg_of(kind, case['qp'], 1)
    vM = leg_of(kind, case['qvM'], -1)
    vR = leg_of(kind, case['qvR'], -1)
    dt = np.complex128 if case['dtype'] == 'complex' else np.float64
    TL = npc.Array.from_func(entries(case['seed'], case['dtype']), [vL, p, vM], dtype=dt, labels=['vL', 'p0', 'vR'])
    TR = npc.Array.from_func(entries(case['seed'] + 1, case['dtype']), [vM.conj(), p, vR], dtype=dt,
                             labels=['vL', 'p1', 'vR'])
    if gauge:
        qL, qR = case['gauge_q']
        TL = TL.gauge_total_charge('vL', qL)
        TR = TR.gauge_total_charge('vR', qR)
    theta = npc.tensordot(TL, TR, ['vR', 'vL']).combine_legs([['vL', 'p0'], ['p1', 'vR']], qconj=[+1, -1])
    return TL, TR, theta


def run_qr(case, gauge):
    import tenpy.linalg.np_conserved as npc
    from tenpy.linalg.truncation import decompose_theta_qr_based
    TL, TR, theta = make_two_site(case, gauge)
    if npc.norm(theta) == 0:
        return {'empty': True}
    th = theta.to_ndarray()
    old_leg = TR.get_leg('vL') if case['bond_from'] == 'R' else TL.get_leg('vR')
    try:
        T_Lc, S, T_Rc, form, err, renorm = quiet(lambda: decompose_theta_qr_based(
            TL.qtotal, TR.qtotal, old_leg, theta.copy(deep=True), case['move_right'], case['expand'],
            case['min_block_increase'], case['eig_based'], trunc_opts(case), True, True))
    except Exception as e:
        return {'raise': f'{type(e).__name__}: {e}'}
    out = {'S': np.sort(np.asarray(S))[::-1], 'eps': float(err.eps), 'renorm': float(renorm), 'form': list(form)}
    L, R = T_Lc.to_ndarray(), T_Rc.to_ndarray()
    if case['eig_based']:
        approx = L @ R
    else:
        approx = (L * S) @ R
    out['rel2'] = float(np.linalg.norm(th - renorm * approx) ** 2 / np.linalg.norm(th) ** 2)
    out['iso'] = max(isometry_defect(L, True) if form[0] == 'A' else 0.0,
                     isometry_defect(R, False) if form[1] == 'B' else 0.0)
    out['normS'] = float(np.linalg.norm(S))
    out['unchanged'] = bool(np.array_equal(theta.to_ndarray(), th))
    return out


def check_qr(case):
    base = run_qr(case, False)
    info = {}
    if base.get('empty'):
        return None, None, {'empty': True}
    if 'raise' in base:
        return 'qr_based.raises', base['raise'], info
    info['kept'] = len(base['S'])
    tol = 1e-6 if case['eig_based'] else 1e-9
    cm = case['trunc'].get('chi_max', 100)
    if cm is not None and cm >= 1 and len(base['S']) > cm:
        return 'qr_based.chi_max-exceeded', f'{len(base["S"])} > {cm}', info
    if not base['unchanged']:
        return 'qr_based.mutates-input', '', info
    if abs(base['rel2'] - base['eps']) > TOL:
        return 'qr_based.eps-vs-reconstruction', f'reconstruction error {base["rel2"]!r} reported {base["eps"]!r}', info
    if abs(base['normS'] - 1) > 1e-9:
        return 'qr_based.S-not-normalised', repr(base['normS']), info
    if base['iso'] > (1e-6 if case['eig_based'] else 1e-9):
        return 'qr_based.factor-not-isometric', repr(base['iso']), info
    if case.get('gauge_q') is None:
        return None, None, info
    tw = run_qr(case, True)
    info['gauged'] = True
    if 'raise' in tw:
        return ('qr_based.nonzero-qtotal.raises',
                f'zero total charges: fine (eps {base["eps"]:.3e}); same tensors with qtotal_L,R={case["gauge_q"]}: '
                + tw['raise'], info)
    if abs(tw['rel2'] - tw['eps']) > TOL:
        return 'qr_based.eps-vs-reconstruction', f'(gauged) {tw["rel2"]!r} reported {tw["eps"]!r}', info
    same = (len(tw['S']) == len(base['S']) and np.max(np.abs(tw['S'] - base['S'])) < tol
            and abs(tw['eps'] - base['eps']) < tol and abs(tw['renorm'] - base['renorm']) < tol * max(1, base['renorm']))
    if not same:
        return ('qr_based.nonzero-qtotal.gauge-dependent',
                f'zero total charges: chi {len(base["S"])} eps {base["eps"]:.6e}; same tensors with '
                f'qtotal_L,R={case["gauge_q"]}: chi {len(tw["S"])} eps {tw["eps"]:.6e}', info)
    return None, None, info


# --------------------------------------------------------------------------------------------
# generators

KINDS = ['none', 'none', 'U1', 'U1', 'U1', 'Z2', 'Z3', 'U1xZ2']


def gen_trunc(rng, light=False):
    t = {}
    r = rng.random()
    if r < 0.75:
        t['chi_max'] = rng.choice([None, 1, 2, 3, 4, 6, 100])
    if rng.random() < 0.2:
        t['chi_min'] = rng.choice([None, 1, 2, 3])
    if rng.random() < 0.6:
        t['svd_min'] = rng.choice([None, 1e-12, 1e-12] if light else [None, 1e-12, 0.05, 0.2, 0.4])
    if rng.random() < 0.5:
        t['trunc_cut'] = rng.choice([None, 1e-12] if light else [None, 1e-12, 0.05, 0.2, 0.4])
    if not light and rng.random() < 0.2:
        t['degeneracy_tol'] = rng.choice([None, 1e-6, 1e-3])
    return t


def gen_matrix_case(rng, part):
    kind = rng.choice(KINDS)
    dL, dR = rng.randint(1, 7), rng.randint(1, 7)
    if part == 'eigh':
        dR = max(dR, 2)
    blocked = rng.random() < 0.5
    case = {'part': part, 'charge': kind, 'qL': gen_qflat(rng, kind, dL, blocked), 'qR': gen_qflat(rng, kind, dR, blocked),
            'qtotal': gen_q(rng, kind) if (part == 'svd' and rng.random() < 0.4) else [0] * nq(kind),
            'dtype': rng.choice(['real', 'real', 'complex']), 'seed': rng.randrange(10 ** 9), 'trunc': gen_trunc(rng)}
    if part == 'svd' and rng.random() < 0.3:
        case['spectrum'] = [rng.choice([1.0, 0.5, 0.5, 0.25, 0.25, 0.125, 0.0]) for _ in range(rng.randint(1, 4))]
        if not any(case['spectrum']):
            case['spectrum'][0] = 1.0
    if part == 'eigh':
        case['trace'] = rng.choice([1.0, 1.0, 2.0, 0.5])
    return case


def gen_qr_case(rng):
    kind = rng.choice(['none', 'U1', 'U1', 'U1', 'Z2', 'Z3', 'U1xZ2'])
    n = nq(kind)
    qp = gen_qflat(rng, kind, rng.choice([2, 2, 3]), True)
    qvL = gen_qflat(rng, kind, rng.randint(1, 4), True)
    qvR = gen_qflat(rng, kind, rng.randint(1, 4), True)
    # bond charges reachable from both sides (as in an MPS): q_vL + q_p = q_vM = q_vR - q_p
    mods = {'none': [], 'U1': [1], 'Z2': [2], 'Z3': [3], 'U1xZ2': [1, 2]}[kind]

    def norm(q):
        return tuple(int(x) % m if m > 1 else int(x) for x, m in zip(q, mods))
    left = {norm([a + b for a, b in zip(x, y)]) for x in qvL for y in qp}
    right = {norm([a - b for a, b in zip(x, y)]) for x in qvR for y in qp}
    both = sorted(left & right)
    if not both:
        return None
    qvM = sorted(list(rng.choice(both)) for _ in range(rng.randint(1, 5)))
    case = {'part': 'qr', 'charge': kind, 'qvL': qvL, 'qp': qp, 'qvM': qvM, 'qvR': qvR,
            'dtype': rng.choice(['real', 'real', 'complex']), 'seed': rng.randrange(10 ** 9),
            'move_right': rng.random() < 0.5, 'expand': rng.choice([0.1, 0.1, 0.5, 1.0, 2.0]),
            'min_block_increase': rng.choice([0, 0, 1, 1, 2]), 'eig_based': rng.random() < 0.2,
            'bond_from': rng.choice(['R', 'L']), 'trunc': gen_trunc(rng, light=True), 'gauge_q': None}
    if n and rng.random() < 0.7:
        qL, qR = gen_q(rng, kind), gen_q(rng, kind)
        if rng.random() < 0.3:
            qL = [0] * n
        elif rng.random() < 0.3:
            qR = [0] * n
        if any(qL) or any(qR):
            case['gauge_q'] = [qL, qR]
    return case


CHECKS = {'svd': check_svd, 'eigh': check_eigh, 'qr': check_qr}


def failing_sig(case):
    try:
        return CHECKS[case['part']](case)[0]
    except Exception:
        return None


def shrink(case, sig):
    """drop indices of legs, drop options, simplify parameters while the same thing fails"""
    cur = dict(case)
    legkeys = [k for k in ('qL', 'qR', 'qvL', 'qp', 'qvM', 'qvR') if k in cur]
    changed = True
    while changed:
        changed = False
        cands = []
        for k in legkeys:
            for i in range(len(cur[k])):
                if len(cur[k]) > 1:
                    cands.append(dict(cur, **{k: cur[k][:i] + cur[k][i + 1:]}))
        for k in list(cur['trunc']):
            t = dict(cur['trunc'])
            del t[k]
            cands.append(dict(cur, trunc=t))
        if cur.get('dtype') == 'complex':
            cands.append(dict(cur, dtype='real'))
        if cur.get('spectrum'):
            cands.append(dict(cur, spectrum=None))
        if cur.get('eig_based'):
            cands.append(dict(cur, eig_based=False))
        if cur.get('gauge_q'):
            qL, qR = cur['gauge_q']
            if any(qL) and any(qR):
                cands.append(dict(cur, gauge_q=[[0] * len(qL), qR]))
                cands.append(dict(cur, gauge_q=[qL, [0] * len(qR)]))
        for c in cands:
            if failing_sig(c) == sig:
                cur, changed = c, True
                break
    return cur


def run_cases(ctx, cases, deadline=None):
    import time
    res = core.Result()
    seen = {}
    for case in cases:
        if deadline and time.time() > deadline:
            res.count('decomp.stopped-at-budget')
            break
        sig, detail, info = CHECKS[case['part']](case)
        if info.get('empty'):
            res.count(f'decomp.{case["part"]}.empty-matrix')
            continue
        res.note_case(case, nontrivial=('kept' in info and info['kept'] < info.get('full', 10 ** 9)) or case['part'] == 'qr')
        res.count(f'decomp.{case["part"]}.charge={case["charge"]}')
        res.count(f'decomp.{case["part"]}.dtype={case["dtype"]}')
        if case['part'] == 'qr':
            res.count('decomp.qr.gauged=' + str(case.get('gauge_q') is not None))
            res.count('decomp.qr.move_right=' + str(case['move_right']))
            res.count('decomp.qr.eig_based=' + str(case['eig_based']))
        elif 'kept' in info:
            res.count(f'decomp.{case["part"]}.truncated=' + str(info['kept'] < info['full']))
        if sig:
            seen[sig] = seen.get(sig, 0) + 1
            res.count('decomp.fail.' + sig)
            if seen[sig] <= 2:
                small = shrink(case, sig)
                sig2, det2, _ = CHECKS[case['part']](small)
                small['original'] = dict(case)
                res.fail('property', sig2 or sig, det2 or detail, small)
            elif seen[sig] <= 10:
                res.fail('property', sig, detail, case)
    return res


CORPUS = [
    # QR-based decomposition of a two-site tensor whose right tensor carries total charge 1
    {'part': 'qr', 'charge': 'U1', 'qvL': [[0], [0], [1], [1], [2]], 'qp': [[0], [1]],
     'qvM': [[0], [1], [1], [2], [2], [3]], 'qvR': [[0], [1], [1], [2], [2], [3], [3], [4]], 'dtype': 'real', 'seed': 1,
     'move_right': True, 'expand': 0.1, 'min_block_increase': 0, 'eig_based': False, 'bond_from': 'R',
     'trunc': {'chi_max': 6, 'svd_min': 1e-12}, 'gauge_q': [[0], [1]]},
    {'part': 'qr', 'charge': 'U1', 'qvL': [[0], [0], [1], [1], [2]], 'qp': [[0], [1]],
     'qvM': [[0], [1], [1], [2], [2], [3]], 'qvR': [[0], [1], [1], [2], [2], [3], [3], [4]], 'dtype': 'real', 'seed': 1,
     'move_right': False, 'expand': 0.1, 'min_block_increase': 0, 'eig_based': False, 'bond_from': 'R',
     'trunc': {'chi_max': 6, 'svd_min': 1e-12}, 'gauge_q': [[1], [0]]},
    {'part': 'svd', 'charge': 'U1', 'qL': [[0], [0], [1], [1]], 'qR': [[0], [1], [1], [2]], 'qtotal': [0], 'dtype': 'real',
     'seed': 3, 'trunc': {'chi_max': 2, 'svd_min': None, 'trunc_cut': None}},
    {'part': 'eigh', 'charge': 'Z2', 'qL': [[0], [1], [1]], 'qR': [[0], [0], [1], [1]], 'qtotal': [0], 'dtype': 'complex',
     'seed': 4, 'trace': 1.0, 'trunc': {'chi_max': 2, 'svd_min': None, 'trunc_cut': None}},
]


def load_corpus():
    import json
    out = [dict(c) for c in CORPUS]
    d = core.CORPUS_DIR / 'C15'
    if d.exists():
        for f in sorted(d.glob('*.json')):
            c = json.loads(f.read_text())
            c = c.get('case', c)
            if c.get('part') in CHECKS:
                c.pop('original', None)
                out.append(c)
    return out


def gen_cases(rng, n_svd, n_eigh, n_qr):
    cases = [gen_matrix_case(rng, 'svd') for _ in range(n_svd)] + [gen_matrix_case(rng, 'eigh') for _ in range(n_eigh)]
    k = 0
    while k < n_qr:
        c = gen_qr_case(rng)
        if c is not None:
            cases.append(c)
            k += 1
    return cases


def _chunk(args):
    prop, tier, seed, tag, sizes, deadline = args
    core.use_repo()
    ctx = core.Ctx(prop, tier, seed, 0)
    return run_cases(ctx, gen_cases(ctx.sub_rng(tag), *sizes), deadline=deadline)


def run_parallel(ctx, tag, n_chunks, sizes, deadline):
    import multiprocessing as mp
    res = core.Result()
    jobs = [(ctx.prop, ctx.tier, ctx.seed, f'{tag}:{i}', sizes, deadline) for i in range(n_chunks)]
    with mp.get_context('fork').Pool(min(16, mp.cpu_count() or 1)) as pool:
        for r in pool.imap(_chunk, jobs):
            res.merge(r)
    return res


def run(ctx, budget_s):
    import time
    deadline = time.time() + budget_s
    res = run_cases(ctx, load_corpus(), deadline=deadline)
    if ctx.quick:
        res.merge(run_cases(ctx, gen_cases(ctx.sub_rng('decomp'), 400, 250, 350), deadline=deadline))
    else:
        res.merge(run_parallel(ctx, 'decomp', c15_truncate.n_chunks(32), (600, 300, 500), deadline))
    return res


def search(ctx, budget_s):
    import time
    deadline = time.time() + budget_s
    res = run_cases(ctx, load_corpus(), deadline=deadline)
    if ctx.quick:
        res.merge(run_cases(ctx, gen_cases(ctx.sub_rng('decomp-search'), 400, 200, 400), deadline=deadline))
    else:
        res.merge(run_parallel(ctx, 'decomp-search', c15_truncate.n_chunks(32), (400, 200, 400), deadline))
    return res
