"""C15, part 3: truncated decompositions `svd_theta`, `eigh_rho`, `decompose_theta_qr_based` on small random
npc Arrays (with and without charges) — oracle = dense linear algebra on `to_ndarray()`.

"Truncated decompositions of a matrix reproduce it with a squared relative error equal to the reported error,
using the reported renormalization factor": the dense reconstruction is compared with the input, its squared
relative error with `err.eps` (tolerance 1e-10, behind LAPACK), the kept values with the largest dense
singular values / eigenvalues, the factors for orthonormality.  A decomposition is a function of the matrix: the
QR-based one is additionally run on the same tensors in a shifted charge gauge (nonzero `qtotal`), which must
give the same spectrum, error and renormalization.

Cases are described by a small JSON recipe (charge kind, leg charges, seed of the entries, options), so a
failure replays from the case alone.
"""
import warnings

import numpy as np

from vlib import core
from harness import c15_truncate

TOL = 1e-10


# --------------------------------------------------------------------------------------------
# building arrays from recipes


def chinfo_of(kind):
    import tenpy.linalg.np_conserved as npc
    if kind == 'none':
        return npc.ChargeInfo()
    if kind == 'U1':
        return npc.ChargeInfo([1])
    if kind == 'Z2':
        return npc.ChargeInfo([2])
    if kind == 'Z3':
        return npc.ChargeInfo([3])
    if kind == 'U1xZ2':
        return npc.ChargeInfo([1, 2])
    raise ValueError(kind)


def nq(kind):
    return {'none': 0, 'U1': 1, 'Z2': 1, 'Z3': 1, 'U1xZ2': 2}[kind]


def gen_q(rng, kind):
    if kind == 'none':
        return []
    if kind == 'U1':
        return [rng.randint(-1, 2)]
    if kind == 'Z2':
        return [rng.randint(0, 1)]
    if kind == 'Z3':
        return [rng.randint(0, 2)]
    return [rng.randint(-1, 1), rng.randint(0, 1)]


def gen_qflat(rng, kind, dim, blocked):
    q = [gen_q(rng, kind) for _ in range(dim)]
    if blocked:
        q.sort()
    return q


def leg_of(kind, qflat, qconj):
    import tenpy.linalg.np_conserved as npc
    ch = chinfo_of(kind)
    return npc.LegCharge.from_qflat(ch, np.array(qflat, dtype=int).reshape(len(qflat), nq(kind)), qconj)


def entries(seed, dtype):
    r = np.random.default_rng(seed)

    def f(shape):
        a = r.standard_normal(shape)
        if dtype == 'complex':
            a = a + 1j * r.standard_normal(shape)
        return a
    return f


def make_matrix(case):
    """random matrix with legs (+1, -1) and total charge case['qtotal']; None if it has no block"""
    import tenpy.linalg.np_conserved as npc
    kind = case['charge']
    legs = [leg_of(kind, case['qL'], 1), leg_of(kind, case['qR'], -1)]
    if case.get('bunch'):  # sorted and bunched legs ("blocked"), as tenpy's own constructors produce them
        legs = [l.sort(bunch=True)[1] for l in legs]
    dt = np.complex128 if case['dtype'] == 'complex' else np.float64
    a = npc.Array.from_func(entries(case['seed'], case['dtype']), legs, dtype=dt, qtotal=case['qtotal'] or None,
                            labels=['vL', 'vR'])
    if case.get('spectrum'):
        # impose the given singular values block by block (exact degeneracies across and inside blocks);
        # 'rank1': one nonzero singular value in the whole matrix (all others exactly zero up to rounding)
        sp = list(case['spectrum'])
        k = 0
        for blk in a._data:
            u, s, vh = np.linalg.svd(blk, full_matrices=False)
            if case.get('rank1'):
                s = np.array([sp[0] if k + i == 0 else 0.0 for i in range(len(s))])
            else:
                s = np.array([sp[(k + i) % len(sp)] for i in range(len(s))])
            k += len(s)
            blk[...] = (u * s) @ vh
    if len(a._data) == 0 or npc.norm(a) == 0:
        return None
    return a


def trunc_opts(case):
    return dict(case['trunc'])


def quiet(f):
    with warnings.catch_warnings():
        warnings.simplefilter('ignore')
        return f()


def isometry_defect(m, left):
    g = m.conj().T @ m if left else m @ m.conj().T
    return float(np.linalg.norm(g - np.eye(g.shape[0])))


# --------------------------------------------------------------------------------------------
# svd_theta


def check_svd(case):
    """-> (signature|None, detail, info)"""
    from tenpy.linalg.truncation import svd_theta
    theta = make_matrix(case)
    if theta is None:
        return None, None, {'empty': True}
    th = theta.to_ndarray()
    kw = {}
    qlr = case.get('qtotal_LR')
    if qlr is not None:
        kw['qtotal_LR'] = [None if q is None else np.array(q, dtype=int) for q in qlr]
    if case.get('inner_labels') is not None:
        kw['inner_labels'] = list(case['inner_labels'])
    if case.get('as_config'):
        from tenpy.tools.params import asConfig
        tp = asConfig(trunc_opts(case), 'trunc_params')
    else:
        tp = trunc_opts(case)
    chinfo = theta.chinfo
    bad_sum = (qlr is not None and qlr[0] is not None and qlr[1] is not None
               and not np.array_equal(chinfo.make_valid(np.array(qlr[0]) + np.array(qlr[1])), theta.qtotal))
    with warnings.catch_warnings(record=True) as wlist:
        warnings.simplefilter('always')
        try:
            U, S, VH, err, renorm = svd_theta(theta.copy(deep=True), tp, **kw)
        except Exception as e:
            if bad_sum and isinstance(e, ValueError):
                return None, None, {'rejected': True}  # documented: the two charges have to add up to theta.qtotal
            return 'svd_theta.raises', f'{type(e).__name__}: {e}', {}
        finally:
            if case.get('as_config'):
                tp.unused.clear()  # no "unused options" noise when the Config is collected
    if bad_sum:
        return 'svd_theta.qtotal_LR-not-rejected', f'qtotal_LR {qlr} does not add up to {theta.qtotal.tolist()}', {}
    info = {'kept': len(S), 'full': min(th.shape)}
    # charges and labels of the factors
    if not np.array_equal(chinfo.make_valid(U.qtotal + VH.qtotal), theta.qtotal):
        return 'svd_theta.qtotal-of-factors', f'{U.qtotal} + {VH.qtotal} != {theta.qtotal}', info
    if qlr is not None:
        for q, T, nm in ((qlr[0], U, 'U'), (qlr[1], VH, 'VH')):
            if q is not None and not np.array_equal(T.qtotal, chinfo.make_valid(np.array(q, dtype=int))):
                return 'svd_theta.qtotal_LR-ignored', f'{nm}.qtotal {T.qtotal.tolist()} requested {q}', info
    il = case.get('inner_labels') or ['vR', 'vL']
    if U.get_leg_labels() != ['vL', il[0]] or VH.get_leg_labels() != [il[1], 'vR']:
        return 'svd_theta.inner_labels', f'{U.get_leg_labels()} {VH.get_leg_labels()} requested {il}', info
    # the "catastrophic reduction" diagnostic: issued iff chi drops by more than a factor 100 not because of chi_max
    full_len = min(th.shape)
    cm_eff = case['trunc'].get('chi_max', 100)
    expect_cat = len(S) * 100 < full_len and (cm_eff is None or len(S) != cm_eff)
    got_cat = any('Catastrophic reduction' in str(x.message) for x in wlist)
    info['catastrophic'] = got_cat
    if expect_cat != got_cat:
        return 'svd_theta.catastrophic-warning', f'expected {expect_cat} got {got_cat} ({full_len} -> {len(S)})', info
    if not np.array_equal(theta.to_ndarray(), th):
        return 'svd_theta.mutates-input', '', info
    try:
        U.test_sanity()
        VH.test_sanity()
    except Exception as e:
        return 'svd_theta.factors-insane', str(e), info
    Ud, Vd = U.to_ndarray(), VH.to_ndarray()
    k = len(S)
    if Ud.shape != (th.shape[0], k) or Vd.shape != (k, th.shape[1]) or k < 1:
        return 'svd_theta.shapes', f'{Ud.shape} {k} {Vd.shape}', info
    cm = case['trunc'].get('chi_max', 100)
    if cm is not None and cm >= 1 and k > cm:
        return 'svd_theta.chi_max-exceeded', f'{k} > {cm}', info
    if abs(np.linalg.norm(S) - 1) > 1e-12:
        return 'svd_theta.S-not-normalised', repr(float(np.linalg.norm(S))), info
    d = max(isometry_defect(Ud, True), isometry_defect(Vd, False))
    if d > 1e-9:
        return 'svd_theta.factors-not-orthonormal', repr(d), info
    n2 = np.linalg.norm(th) ** 2
    rel2 = np.linalg.norm(th - (Ud * (S * renorm)) @ Vd) ** 2 / n2
    if abs(rel2 - err.eps) > TOL:
        return ('svd_theta.eps-vs-reconstruction',
                f'reconstruction error {rel2!r} reported eps {float(err.eps)!r} renormalization {float(renorm)!r}', info)
    if abs(err.ov - (1 - 2 * err.eps)) > 1e-14:
        return 'svd_theta.err.ov', '', info
    sv = np.linalg.svd(th, compute_uv=False)
    got = np.sort(S * renorm)[::-1]
    if np.max(np.abs(got - sv[:k])) > 1e-9 * sv[0]:
        return 'svd_theta.kept-not-largest', f'kept {got.tolist()} dense {sv.tolist()}', info
    return None, None, info


# --------------------------------------------------------------------------------------------
# eigh_rho


def check_eigh(case):
    import tenpy.linalg.np_conserved as npc
    from tenpy.linalg.truncation import eigh_rho
    a = make_matrix(case)
    if a is None:
        return None, None, {'empty': True}
    rho = npc.tensordot(a, a.conj(), axes=[1, 1])
    rho = rho / npc.trace(rho).real * case.get('trace', 1.0)
    rd = rho.to_ndarray()
    tr = np.trace(rd).real
    kw = {}
    uplo = case.get('UPLO')
    arg = rho
    if uplo is not None:
        kw['UPLO'] = uplo
        if rho.legs[0].is_blocked():
            # only the named triangle may be read: spoil the other one (entry-wise, keeps the charge structure)
            spoiled = rd.copy()
            iu = np.triu_indices(rd.shape[0], 1) if uplo == 'L' else np.tril_indices(rd.shape[0], -1)
            spoiled[iu] = 3.0 * spoiled[iu]
            arg = npc.Array.from_ndarray(spoiled, rho.legs, dtype=rho.dtype, labels=rho.get_leg_labels())
    if 'sort' in case:
        kw['sort'] = case['sort']
    arg0 = arg.to_ndarray()
    with warnings.catch_warnings(record=True) as wlist:
        warnings.simplefilter('always')
        try:
            W, V, err = eigh_rho(arg.copy(deep=True), trunc_opts(case), **kw)
        except Exception as e:
            return 'eigh_rho.raises', f'{type(e).__name__}: {e}', {}
    info = {'kept': len(W), 'full': rd.shape[0]}
    if not np.array_equal(arg.to_ndarray(), arg0):
        return 'eigh_rho.mutates-input', '', info
    if V.get_leg_labels() != [rho.get_leg_labels()[0], 'eig']:
        return 'eigh_rho.labels', f'{V.get_leg_labels()}', info
    cm_eff = case['trunc'].get('chi_max', 100)
    expect_cat = len(W) * 100 < rd.shape[0] and (cm_eff is None or len(W) != cm_eff)
    got_cat = any('Catastrophic reduction' in str(x.message) for x in wlist)
    info['catastrophic'] = got_cat
    if expect_cat != got_cat:
        return 'eigh_rho.catastrophic-warning', f'expected {expect_cat} got {got_cat} ({rd.shape[0]} -> {len(W)})', info
    # order of the eigenvalues inside each charge block as requested by `sort` (None is ascending)
    srt = case.get('sort')
    leg = V.legs[1]
    for b in range(leg.block_number):
        w = W[leg.slices[b]:leg.slices[b + 1]]
        d = np.diff(w)
        bad = (d < -1e-12 * tr).any() if srt in (None, '<', 'm<') else (d > 1e-12 * tr).any()
        if bad:
            return 'eigh_rho.sort-order', f'sort={srt!r}: block {b} has eigenvalues {w.tolist()}', info
    Vd = V.to_ndarray()
    k = len(W)
    if Vd.shape != (rd.shape[0], k) or k < 1:
        return 'eigh_rho.shapes', f'{Vd.shape} {k}', info
    cm = case['trunc'].get('chi_max', 100)
    if cm is not None and cm >= 1 and k > cm:
        return 'eigh_rho.chi_max-exceeded', f'{k} > {cm}', info
    if isometry_defect(Vd, True) > 1e-9:
        return 'eigh_rho.V-not-orthonormal', '', info
    approx = (Vd * W) @ Vd.conj().T
    if abs(np.trace(approx).real - tr) > 1e-10 * tr + 1e-12:
        return 'eigh_rho.trace-not-preserved', f'{np.trace(approx).real!r} vs {tr!r}', info
    D = rd - (1 - err.eps) * approx  # the discarded part: positive, of weight eps
    ev = np.linalg.eigvalsh((D + D.conj().T) / 2)
    if ev.min() < -1e-10 * tr or abs(np.abs(ev).sum() / tr - err.eps) > TOL:
        return ('eigh_rho.eps-vs-reconstruction',
                f'discarded weight {np.abs(ev).sum() / tr!r} reported eps {float(err.eps)!r}', info)
    full = np.sort(np.linalg.eigvalsh(rd))[::-1]
    got = np.sort(W * (1 - err.eps))[::-1]
    if np.max(np.abs(got - full[:k])) > 1e-9 * tr:
        return 'eigh_rho.kept-not-largest', f'kept {got.tolist()} dense {full.tolist()}', info
    return None, None, info


# --------------------------------------------------------------------------------------------
# decompose_theta_qr_based


def make_two_site(case, gauge):
    """T_L[vL,p0,vR], T_R[vL,p1,vR] with zero total charge, then (gauge=True) the same tensors with the outer
    legs' charges shifted so that qtotal_L, qtotal_R = case['gauge_q']; theta in both gauges has the same entries."""
    import tenpy.linalg.np_conserved as npc
    kind = case['charge']
    vL = leg_of(kind, case['qvL'], 1)
    p = leg_of(kind, case['qp'], 1)
    vM = leg_of(kind, case['qvM'], -1)
    vR = leg_of(kind, case['qvR'], -1)
    dt = np.complex128 if case['dtype'] == 'complex' else np.float64
    TL = npc.Array.from_func(entries(case['seed'], case['dtype']), [vL, p, vM], dtype=dt, labels=['vL', 'p0', 'vR'])
    TR = npc.Array.from_func(entries(case['seed'] + 1, case['dtype']), [vM.conj(), p, vR], dtype=dt,
                             labels=['vL', 'p1', 'vR'])
    if gauge:
        qL, qR = case['gauge_q']
        TL = TL.gauge_total_charge('vL', qL)
        TR = TR.gauge_total_charge('vR', qR)
    theta = npc.tensordot(TL, TR, ['vR', 'vL']).combine_legs([['vL', 'p0'], ['p1', 'vR']], qconj=[+1, -1])
    return TL, TR, theta


def run_qr(case, gauge, tensors=None, compute_err=True, return_both_T=True):
    """one call of decompose_theta_qr_based, measured densely. `tensors` = (T_L, T_R, theta) overrides the recipe."""
    import tenpy.linalg.np_conserved as npc
    from tenpy.linalg.truncation import decompose_theta_qr_based
    TL, TR, theta = tensors if tensors is not None else make_two_site(case, gauge)
    if npc.norm(theta) == 0:
        return {'empty': True}
    th = theta.to_ndarray()
    old_leg = TR.get_leg('vL') if case['bond_from'] == 'R' else TL.get_leg('vR')
    try:
        T_Lc, S, T_Rc, form, err, renorm = quiet(lambda: decompose_theta_qr_based(
            TL.qtotal, TR.qtotal, old_leg, theta.copy(deep=True), case['move_right'], case['expand'],
            case['min_block_increase'], case['eig_based'], trunc_opts(case), compute_err, return_both_T))
    except Exception as e:
        return {'raise': f'{type(e).__name__}: {e}', 'exc': type(e).__name__}
    out = {'S': np.sort(np.asarray(S))[::-1], 'eps': float(err.eps), 'ov': float(err.ov), 'renorm': float(renorm),
           'form': list(form), 'has_L': T_Lc is not None, 'has_R': T_Rc is not None}
    out['normS'] = float(np.linalg.norm(S))
    out['unchanged'] = bool(np.array_equal(theta.to_ndarray(), th))
    out['labels'] = [None if T is None else T.get_leg_labels() for T in (T_Lc, T_Rc)]
    iso = 0.0
    if T_Lc is not None and form[0] == 'A':
        iso = max(iso, isometry_defect(T_Lc.to_ndarray(), True))
    if T_Rc is not None and form[1] == 'B':
        iso = max(iso, isometry_defect(T_Rc.to_ndarray(), False))
    out['iso'] = iso
    if T_Lc is not None and T_Rc is not None:
        L, R = T_Lc.to_ndarray(), T_Rc.to_ndarray()
        approx = L @ R if case['eig_based'] else (L * S) @ R
        out['rel2'] = float(np.linalg.norm(th - renorm * approx) ** 2 / np.linalg.norm(th) ** 2)
    return out


def check_qr_flags(case, base, info):
    """the compute_err / return_both_T combinations against the fully computed reference `base`"""
    tol = 1e-6 if case['eig_based'] else 1e-9
    for ce, rb in ((False, True), (False, False), (True, False)):
        r = run_qr(case, False, compute_err=ce, return_both_T=rb)
        tag = f'compute_err={ce},return_both_T={rb}'
        if 'raise' in r:
            return 'qr_based.flags.raises', f'{tag}: {r["raise"]}'
        both = ce or rb  # compute_err forces both tensors
        want_L = both or case['move_right']
        want_R = both or not case['move_right']
        if (r['has_L'], r['has_R']) != (want_L, want_R):
            return 'qr_based.flags.returned-tensors', f'{tag}: T_Lc {r["has_L"]} T_Rc {r["has_R"]}'
        if ce:
            if abs(r['eps'] - base['eps']) > tol:
                return 'qr_based.flags.eps', f'{tag}: eps {r["eps"]!r} vs {base["eps"]!r}'
        elif not (np.isnan(r['eps']) and np.isnan(r['ov'])):
            return 'qr_based.flags.eps-not-nan', f'{tag}: eps {r["eps"]!r} (documented: NaN when not computed)'
        if len(r['S']) != len(base['S']) or np.max(np.abs(r['S'] - base['S'])) > tol \
                or abs(r['renorm'] - base['renorm']) > tol * max(1, base['renorm']):
            return 'qr_based.flags.result-depends-on-flags', f'{tag}: S {r["S"].tolist()} vs {base["S"].tolist()}'
        if 'rel2' in r and abs(r['rel2'] - base['eps']) > max(TOL, tol):
            return 'qr_based.flags.reconstruction', f'{tag}: error {r["rel2"]!r} vs reference eps {base["eps"]!r}'
        if r['iso'] > (1e-6 if case['eig_based'] else 1e-9):
            return 'qr_based.flags.factor-not-isometric', f'{tag}: {r["iso"]!r}'
        lab = r['labels']
        if (lab[0] is not None and lab[0] != ['(vL.p)', 'vR']) or (lab[1] is not None and lab[1] != ['vL', '(p.vR)']):
            return 'qr_based.flags.labels', f'{tag}: {lab}'
    return None, None


def check_qr(case, tensors=None):
    base = run_qr(case, False, tensors=tensors)
    info = {}
    if base.get('empty'):
        return None, None, {'empty': True}
    if case['expand'] is None or case['expand'] == 0:
        # `_qr_theta_Y0` asserts a nonzero expansion rate (the engines choose the SVD path otherwise)
        if base.get('exc') == 'AssertionError':
            return None, None, {'rejected': True}
        if 'raise' in base:
            return 'qr_based.expand-none.raises', base['raise'], info
    if 'raise' in base:
        return 'qr_based.raises', base['raise'], info
    if base['labels'] != [['(vL.p)', 'vR'], ['vL', '(p.vR)']]:
        return 'qr_based.labels', f'{base["labels"]}', info
    want_form = (['A', 'Th'] if case['move_right'] else ['Th', 'B']) if case['eig_based'] else ['A', 'B']
    if base['form'] != want_form:
        return 'qr_based.form', f'{base["form"]} documented {want_form}', info
    info['kept'] = len(base['S'])
    tol = 1e-6 if case['eig_based'] else 1e-9
    cm = case['trunc'].get('chi_max', 100)
    if cm is not None and cm >= 1 and len(base['S']) > cm:
        return 'qr_based.chi_max-exceeded', f'{len(base["S"])} > {cm}', info
    if not base['unchanged']:
        return 'qr_based.mutates-input', '', info
    if abs(base['rel2'] - base['eps']) > TOL:
        return 'qr_based.eps-vs-reconstruction', f'reconstruction error {base["rel2"]!r} reported {base["eps"]!r}', info
    if abs(base['normS'] - 1) > 1e-9:
        return 'qr_based.S-not-normalised', repr(base['normS']), info
    if base['iso'] > (1e-6 if case['eig_based'] else 1e-9):
        return 'qr_based.factor-not-isometric', repr(base['iso']), info
    if case.get('flags') and tensors is None:
        sig, det = check_qr_flags(case, base, info)
        info['flags'] = True
        if sig:
            return sig, det, info
    if case.get('gauge_q') is None or tensors is not None:
        return None, None, info
    tw = run_qr(case, True)
    info['gauged'] = True
    if 'raise' in tw:
        return ('qr_based.nonzero-qtotal.raises',
                f'zero total charges: fine (eps {base["eps"]:.3e}); same tensors with qtotal_L,R={case["gauge_q"]}: '
                + tw['raise'], info)
    if abs(tw['rel2'] - tw['eps']) > TOL:
        return 'qr_based.eps-vs-reconstruction', f'(gauged) {tw["rel2"]!r} reported {tw["eps"]!r}', info
    same = (len(tw['S']) == len(base['S']) and np.max(np.abs(tw['S'] - base['S'])) < tol
            and abs(tw['eps'] - base['eps']) < tol and abs(tw['renorm'] - base['renorm']) < tol * max(1, base['renorm']))
    if not same:
        return ('qr_based.nonzero-qtotal.gauge-dependent',
                f'zero total charges: chi {len(base["S"])} eps {base["eps"]:.6e}; same tensors with '
                f'qtotal_L,R={case["gauge_q"]}: chi {len(tw["S"])} eps {tw["eps"]:.6e}', info)
    return None, None, info


# --------------------------------------------------------------------------------------------
# _eig_based_svd (helper of the QR-based decomposition), called directly


def check_eigsvd(case):
    from tenpy.linalg.truncation import _eig_based_svd
    A = make_matrix(case)
    if A is None:
        return None, None, {'empty': True}
    Ad = A.to_ndarray()
    need_U, need_Vd = case['need_U'], case['need_Vd']
    tp = None if case['trunc'] is None else trunc_opts(case)
    info = {}
    try:
        U, S, Vd, err, renorm = quiet(lambda: _eig_based_svd(A.copy(deep=True), need_U=need_U, need_Vd=need_Vd,
                                                             inner_labels=['vR', 'vL'], trunc_params=tp))
    except NotImplementedError:
        if need_U and need_Vd:
            return None, None, {'rejected': True}  # documented: both isometries at once are not supported
        return 'eig_based_svd.raises', 'NotImplementedError', info
    except Exception as e:
        which = 'values-only-branch.' if not (need_U or need_Vd) else ''
        return f'eig_based_svd.{which}raises', f'{type(e).__name__}: {str(e)[:200]}', info
    if need_U and need_Vd:
        return 'eig_based_svd.both-not-rejected', '', info
    sv = np.linalg.svd(Ad, compute_uv=False)
    k = len(S)
    info['kept'] = k
    if (U is not None) != need_U or (Vd is not None) != need_Vd:
        return 'eig_based_svd.returned-factors', f'U {U is not None} Vd {Vd is not None}', info
    if abs(np.linalg.norm(S) - 1) > 1e-9:
        return 'eig_based_svd.S-not-normalised', repr(float(np.linalg.norm(S))), info
    got2 = np.sort((S * renorm) ** 2)[::-1]
    # diagonalising A A^dagger (need_U) or A^dagger A (need_Vd) yields as many values as that side is long: the
    # singular values padded with zeros
    side = Ad.shape[0] if need_U else Ad.shape[1] if need_Vd else min(Ad.shape)
    ref2 = np.concatenate([sv ** 2, np.zeros(max(0, side - len(sv)))])
    info['full'] = len(ref2)
    which = 'values-only-branch.' if not (need_U or need_Vd) else ''
    if k > len(ref2) or np.max(np.abs(got2 - ref2[:k])) > 1e-10 * sv[0] ** 2:
        return f'eig_based_svd.{which}values', f'(S*renormalize)^2 {got2.tolist()} dense {ref2.tolist()}', info
    if tp is None:
        if k != len(ref2) or err.eps != 0.0 or err.ov != 1.0:
            return 'eig_based_svd.no-truncation-requested', f'kept {k} of {len(ref2)}, err {err!r}', info
    else:
        cm = tp.get('chi_max', 100)
        if cm is not None and cm >= 1 and k > cm:
            return 'eig_based_svd.chi_max-exceeded', f'{k} > {cm}', info
    # the returned isometry diagonalises A A^dagger (A^dagger A) with the returned values, column by column
    lam = (np.asarray(S) * renorm) ** 2
    if need_U:
        if U.get_leg_labels()[1] != 'vR':
            return 'eig_based_svd.labels', f'{U.get_leg_labels()}', info
        Ud = U.to_ndarray()
        G = Ud.conj().T @ Ad
        M = G @ G.conj().T
        iso = isometry_defect(Ud, True)
    elif need_Vd:
        if Vd.get_leg_labels()[0] != 'vL':
            return 'eig_based_svd.labels', f'{Vd.get_leg_labels()}', info
        Vn = Vd.to_ndarray()
        G = Ad @ Vn.conj().T
        M = G.conj().T @ G
        iso = isometry_defect(Vn, False)
    else:
        return None, None, info
    if iso > 1e-9:
        return 'eig_based_svd.factor-not-isometric', repr(iso), info
    if np.max(np.abs(M - np.diag(lam))) > 1e-9 * sv[0] ** 2:
        return 'eig_based_svd.vectors-vs-values', f'max deviation {np.max(np.abs(M - np.diag(lam)))!r}', info
    return None, None, info


# --------------------------------------------------------------------------------------------
# two-site wave functions taken from matrix product states (finite / infinite / segment boundaries)

_PSI_CACHE = {}


def make_psi(case):
    """random MPS of spin-1/2 sites (deterministic in the case), as TEBD would hold it"""
    key = (case['bc'], case['conserve'], case['L'], case['chi'], case['dtype'], case['psi_seed'])
    if key in _PSI_CACHE:
        return _PSI_CACHE[key]
    from tenpy.networks.site import SpinHalfSite
    from tenpy.networks.mps import MPS
    site = SpinHalfSite(conserve=case['conserve'], sort_charge=True)
    L = case['L']
    p_state = ['up', 'down'] * (L // 2) + ['up'] * (L % 2)
    st = np.random.get_state()
    np.random.seed(case['psi_seed'])
    try:
        bc = 'infinite' if case['bc'] in ('infinite', 'segment') else 'finite'
        dt = np.complex128 if case['dtype'] == 'complex' else np.float64
        psi = quiet(lambda: MPS.from_random_unitary_evolution([site] * L, case['chi'], p_state, bc=bc, dtype=dt))
        if case['bc'] == 'segment':
            psi = psi.extract_segment(0, 2 * L - 1)  # two unit cells of the infinite state, open boundary legs
    finally:
        np.random.set_state(st)
    if len(_PSI_CACHE) > 40:
        _PSI_CACHE.clear()
    _PSI_CACHE[key] = psi
    return psi


def mps_two_site(case):
    """theta = S[i0] B[i0] B[i1] after a random charge-conserving two-site gate, legs [(vL.p0), (p1.vR)]"""
    import tenpy.linalg.np_conserved as npc
    from tenpy.linalg.random_matrix import CUE
    psi = make_psi(case)
    i0 = case['bond'] % (psi.L if not psi.finite else psi.L - 1)
    i1 = i0 + 1
    C = psi.get_theta(i0, n=2, formL=0.0)  # the two B tensors
    st = np.random.get_state()
    np.random.seed(case['seed'] % (2 ** 32))
    try:
        pipe = npc.LegPipe([C.get_leg('p0'), C.get_leg('p1')])
        Ug = npc.Array.from_func_square(CUE, pipe, labels=['(p0.p1)', '(p0*.p1*)']).split_legs()
    finally:
        np.random.set_state(st)
    C = npc.tensordot(Ug, C, axes=(['p0*', 'p1*'], ['p0', 'p1']))
    C.itranspose(['vL', 'p0', 'p1', 'vR'])
    theta = C.scale_axis(psi.get_SL(i0), 'vL').combine_legs([('vL', 'p0'), ('p1', 'vR')], qconj=[+1, -1])
    TL = psi.get_B(i0, 'B').replace_label('p', 'p0')
    TR = psi.get_B(i1, 'B').replace_label('p', 'p1')
    return TL, TR, theta


def check_mps(case):
    """QR-based and SVD-based splitting of the same physical two-site tensor"""
    from tenpy.linalg.truncation import svd_theta
    try:
        TL, TR, theta = mps_two_site(case)
    except Exception as e:  # building the state runs TEBD, i.e. svd_theta/truncate themselves
        return 'mps.construction-raises', f'{type(e).__name__}: {str(e)[:200]}', {}
    sig, det, info = check_qr(case, tensors=(TL, TR, theta))
    info['bc'] = case['bc']
    if sig:
        return sig.replace('qr_based.', 'qr_based.mps.'), det, info
    # the way TEBD splits: charges of U fixed to the old left tensor's
    th = theta.to_ndarray()
    try:
        U, S, VH, err, renorm = quiet(lambda: svd_theta(theta.copy(deep=True), trunc_opts(case),
                                                        [TL.qtotal, None], inner_labels=['vR', 'vL']))
    except Exception as e:
        return 'svd_theta.mps.raises', f'{type(e).__name__}: {e}', info
    rel2 = np.linalg.norm(th - (U.to_ndarray() * (S * renorm)) @ VH.to_ndarray()) ** 2 / np.linalg.norm(th) ** 2
    if abs(rel2 - err.eps) > TOL:
        return 'svd_theta.mps.eps-vs-reconstruction', f'{rel2!r} vs {float(err.eps)!r}', info
    if not np.array_equal(U.qtotal, TL.qtotal):
        return 'svd_theta.mps.qtotal_LR-ignored', f'{U.qtotal} vs {TL.qtotal}', info
    # the QR-based result can not beat the optimal (SVD) truncation at the same bond dimension
    base = run_qr(case, False, tensors=(TL, TR, theta))
    if 'raise' not in base and len(base['S']) <= len(S) and base['eps'] < err.eps - 1e-9 and len(base['S']) == len(S):
        return 'qr_based.mps.better-than-svd', f'eps {base["eps"]!r} < optimal {float(err.eps)!r}', info
    return None, None, info


# --------------------------------------------------------------------------------------------
# generators

KINDS = ['none', 'none', 'U1', 'U1', 'U1', 'Z2', 'Z3', 'U1xZ2']


def gen_trunc(rng, light=False):
    t = {}
    r = rng.random()
    if r < 0.75:
        t['chi_max'] = rng.choice([None, 1, 2, 3, 4, 6, 100])
    if rng.random() < 0.2:
        t['chi_min'] = rng.choice([None, 1, 2, 3])
    if rng.random() < 0.6:
        t['svd_min'] = rng.choice([None, 1e-12, 1e-12] if light else [None, 1e-12, 0.05, 0.2, 0.4])
    if rng.random() < 0.5:
        t['trunc_cut'] = rng.choice([None, 1e-12] if light else [None, 1e-12, 0.05, 0.2, 0.4])
    if not light and rng.random() < 0.2:
        t['degeneracy_tol'] = rng.choice([None, 1e-6, 1e-3])
    return t


def gen_matrix_case(rng, part):
    kind = rng.choice(KINDS)
    dL, dR = rng.randint(1, 7), rng.randint(1, 7)
    if part == 'eigh':
        dR = max(dR, 2)
    blocked = rng.random() < 0.5
    case = {'part': part, 'charge': kind, 'qL': gen_qflat(rng, kind, dL, blocked), 'qR': gen_qflat(rng, kind, dR, blocked),
            'qtotal': gen_q(rng, kind) if (part == 'svd' and rng.random() < 0.4) else [0] * nq(kind),
            'dtype': rng.choice(['real', 'real', 'complex']), 'seed': rng.randrange(10 ** 9), 'trunc': gen_trunc(rng)}
    if part == 'svd' and rng.random() < 0.3:
        case['spectrum'] = [rng.choice([1.0, 0.5, 0.5, 0.25, 0.25, 0.125, 0.0]) for _ in range(rng.randint(1, 4))]
        if not any(case['spectrum']):
            case['spectrum'][0] = 1.0
    if part == 'svd':
        r = rng.random()
        n = nq(kind)
        if r < 0.45:  # requested total charges of the factors
            qt = case['qtotal']
            qa = gen_q(rng, kind)
            mode = rng.choice(['L', 'R', 'both', 'both', 'bad'] if n else ['L', 'both'])
            if mode == 'L':
                case['qtotal_LR'] = [qa, None]
            elif mode == 'R':
                case['qtotal_LR'] = [None, qa]
            else:
                qb = [int(t) - int(a) for t, a in zip(qt, qa)]
                if mode == 'bad':
                    qb[0] += 1
                case['qtotal_LR'] = [qa, qb]
        if rng.random() < 0.4:
            case['inner_labels'] = rng.choice([['vR', 'vL'], ['a', 'b'], ['x', None], [None, None], ['vR*', 'w']])
        if rng.random() < 0.1:
            case['as_config'] = True
        if rng.random() < 0.25:  # rank-deficient: exact zero singular values are kept or cut
            case['spectrum'] = [rng.choice([1.0, 0.5, 0.0, 0.0]) for _ in range(rng.randint(2, 4))]
            case['spectrum'][0] = 1.0
            if rng.random() < 0.6:
                case['trunc'] = dict(case['trunc'], svd_min=None, trunc_cut=None)
    if part == 'eigh':
        case['trace'] = rng.choice([1.0, 1.0, 2.0, 0.5])
        if rng.random() < 0.6:
            case['UPLO'] = rng.choice(['L', 'U'])
            case['bunch'] = rng.random() < 0.8  # on blocked legs the other triangle is spoiled before the call
        if rng.random() < 0.7:
            case['sort'] = rng.choice([None, 'm>', 'm<', '>', '<'])
    return case


def gen_big_case(rng, part):
    """more than 100 values of which one survives: the 'catastrophic reduction' diagnostic branch"""
    kind = rng.choice(['none', 'none', 'Z2'])
    d = rng.randint(101, 115)
    q = sorted(gen_q(rng, kind) for _ in range(d))
    case = {'part': part, 'charge': kind, 'qL': q, 'qR': q if part == 'svd' else [q[0]],
            'qtotal': [0] * nq(kind), 'dtype': 'real', 'seed': rng.randrange(10 ** 9), 'spectrum': [1.0], 'rank1': True,
            'trunc': rng.choice([{'svd_min': 1e-8}, {'svd_min': 1e-8, 'chi_max': None}, {'svd_min': 1e-8, 'chi_max': 1},
                                 {'svd_min': 1e-8, 'chi_max': 7}, {'chi_max': 1, 'svd_min': None, 'trunc_cut': None}])}
    if part == 'eigh':
        case['trace'] = 1.0
    return case


def gen_eigsvd_case(rng):
    kind = rng.choice(KINDS)
    blocked = rng.random() < 0.5
    nu = rng.choice(['U', 'U', 'V', 'V', 'none', 'both'])
    return {'part': 'eigsvd', 'charge': kind, 'qL': gen_qflat(rng, kind, rng.randint(1, 6), blocked),
            'qR': gen_qflat(rng, kind, rng.randint(1, 6), blocked), 'qtotal': gen_q(rng, kind) if rng.random() < 0.3 else [0] * nq(kind),
            'dtype': rng.choice(['real', 'complex']), 'seed': rng.randrange(10 ** 9),
            'need_U': nu in ('U', 'both'), 'need_Vd': nu in ('V', 'both'),
            'trunc': rng.choice([None, None, {'chi_max': 2, 'svd_min': None, 'trunc_cut': None}, {'chi_max': None, 'svd_min': 1e-6},
                                 {'chi_max': 3}])}


def gen_mps_case(rng):
    bc = rng.choice(['finite', 'infinite', 'infinite', 'segment'])
    return {'part': 'mps', 'charge': 'mps', 'bc': bc, 'conserve': rng.choice(['Sz', 'Sz', 'parity', 'None']), 'L': rng.choice([2, 4]) if bc != 'finite' else 4,
            'chi': rng.choice([2, 4]), 'dtype': 'complex', 'psi_seed': rng.randrange(3), 'bond': rng.randrange(8),
            'seed': rng.randrange(10 ** 9), 'move_right': rng.random() < 0.5, 'expand': rng.choice([0.1, 0.5, 1.0]),
            'min_block_increase': rng.choice([0, 1, 2]), 'eig_based': rng.random() < 0.2, 'bond_from': rng.choice(['R', 'L']),
            'trunc': rng.choice([{'chi_max': 4, 'svd_min': 1e-12}, {'chi_max': 2}, {'chi_max': None, 'svd_min': 1e-10}, {'chi_max': 8}])}


def gen_qr_case(rng):
    kind = rng.choice(['none', 'U1', 'U1', 'U1', 'Z2', 'Z3', 'U1xZ2'])
    n = nq(kind)
    qp = gen_qflat(rng, kind, rng.choice([2, 2, 3]), True)
    qvL = gen_qflat(rng, kind, rng.randint(1, 4), True)
    qvR = gen_qflat(rng, kind, rng.randint(1, 4), True)
    # bond charges reachable from both sides (as in an MPS): q_vL + q_p = q_vM = q_vR - q_p
    mods = {'none': [], 'U1': [1], 'Z2': [2], 'Z3': [3], 'U1xZ2': [1, 2]}[kind]

    def norm(q):
        return tuple(int(x) % m if m > 1 else int(x) for x, m in zip(q, mods))
    left = {norm([a + b for a, b in zip(x, y)]) for x in qvL for y in qp}
    right = {norm([a - b for a, b in zip(x, y)]) for x in qvR for y in qp}
    both = sorted(left & right)
    if not both:
        return None
    qvM = sorted(list(rng.choice(both)) for _ in range(rng.randint(1, 5)))
    case = {'part': 'qr', 'charge': kind, 'qvL': qvL, 'qp': qp, 'qvM': qvM, 'qvR': qvR,
            'dtype': rng.choice(['real', 'real', 'complex']), 'seed': rng.randrange(10 ** 9),
            'move_right': rng.random() < 0.5, 'expand': rng.choice([0.1, 0.1, 0.5, 1.0, 2.0]),
            'min_block_increase': rng.choice([0, 0, 1, 1, 2]), 'eig_based': rng.random() < 0.2,
            'bond_from': rng.choice(['R', 'L']), 'trunc': gen_trunc(rng, light=True), 'gauge_q': None}
    if rng.random() < 0.35:
        case['flags'] = True  # also run the other compute_err / return_both_T combinations
    if rng.random() < 0.04:
        case['expand'] = rng.choice([None, 0])
    if n and rng.random() < 0.7:
        qL, qR = gen_q(rng, kind), gen_q(rng, kind)
        if rng.random() < 0.3:
            qL = [0] * n
        elif rng.random() < 0.3:
            qR = [0] * n
        if any(qL) or any(qR):
            case['gauge_q'] = [qL, qR]
    return case


CHECKS = {'svd': check_svd, 'eigh': check_eigh, 'qr': check_qr, 'eigsvd': check_eigsvd, 'mps': check_mps}


def failing_sig(case):
    try:
        return CHECKS[case['part']](case)[0]
    except Exception:
        return None


def shrink(case, sig):
    """drop indices of legs, drop options, simplify parameters while the same thing fails"""
    cur = dict(case)
    legkeys = [k for k in ('qL', 'qR', 'qvL', 'qp', 'qvM', 'qvR') if k in cur]
    changed = True
    while changed:
        changed = False
        cands = []
        for k in legkeys:
            for i in range(len(cur[k])):
                if len(cur[k]) > 1:
                    cands.append(dict(cur, **{k: cur[k][:i] + cur[k][i + 1:]}))
        for k in list(cur['trunc'] or {}):
            t = dict(cur['trunc'])
            del t[k]
            cands.append(dict(cur, trunc=t))
        for k in ('qtotal_LR', 'inner_labels', 'sort', 'flags', 'as_config'):
            if cur.get(k) is not None:
                cands.append({kk: vv for kk, vv in cur.items() if kk != k})
        if cur.get('dtype') == 'complex' and cur['part'] != 'mps':
            cands.append(dict(cur, dtype='real'))
        if cur.get('spectrum'):
            cands.append(dict(cur, spectrum=None))
        if cur.get('eig_based'):
            cands.append(dict(cur, eig_based=False))
        if cur.get('gauge_q'):
            qL, qR = cur['gauge_q']
            if any(qL) and any(qR):
                cands.append(dict(cur, gauge_q=[[0] * len(qL), qR]))
                cands.append(dict(cur, gauge_q=[qL, [0] * len(qR)]))
        for c in cands:
            if failing_sig(c) == sig:
                cur, changed = c, True
                break
    return cur


def run_cases(ctx, cases, deadline=None):
    import time
    res = core.Result()
    seen = {}
    for case in cases:
        if deadline and time.time() > deadline:
            res.count('decomp.stopped-at-budget')
            break
        sig, detail, info = CHECKS[case['part']](case)
        if info.get('empty'):
            res.count(f'decomp.{case["part"]}.empty-matrix')
            continue
        res.note_case(case, nontrivial=('kept' in info and info['kept'] < info.get('full', 10 ** 9)) or case['part'] in ('qr', 'mps'))
        res.count(f'decomp.{case["part"]}.charge={case["charge"]}')
        res.count(f'decomp.{case["part"]}.dtype={case["dtype"]}')
        if info.get('rejected'):
            res.count(f'decomp.{case["part"]}.rejected-as-documented')
        if case['part'] == 'svd':
            q = case.get('qtotal_LR')
            res.count('decomp.svd.qtotal_LR=' + ('default' if q is None else 'L' if q[1] is None else 'R' if q[0] is None else 'both'))
            res.count('decomp.svd.inner_labels=' + ('default' if case.get('inner_labels') is None else 'given'))
            res.count('decomp.svd.zero-singular-values=' + str(bool(case.get('spectrum')) and (0.0 in case['spectrum'] or bool(case.get('rank1')))))
            res.count('decomp.svd.catastrophic-warning=' + str(info.get('catastrophic', False)))
            res.count('decomp.svd.options-as-Config=' + str(bool(case.get('as_config'))))
        if case['part'] == 'eigh':
            res.count('decomp.eigh.UPLO=' + str(case.get('UPLO', 'default')))
            res.count('decomp.eigh.sort=' + (repr(case['sort']) if 'sort' in case else 'default'))
            res.count('decomp.eigh.catastrophic-warning=' + str(info.get('catastrophic', False)))
        if case['part'] == 'eigsvd':
            res.count('decomp.eigsvd.need=' + ('both' if case['need_U'] and case['need_Vd'] else 'U' if case['need_U'] else 'Vd' if case['need_Vd'] else 'none'))
            res.count('decomp.eigsvd.trunc_params=' + ('None' if case['trunc'] is None else 'given'))
        if case['part'] == 'mps':
            res.count('decomp.mps.bc=' + case['bc'])
            res.count('decomp.mps.conserve=' + case['conserve'])
            res.count('decomp.mps.move_right=' + str(case['move_right']))
        if case['part'] == 'qr':
            res.count('decomp.qr.flag-combinations=' + str(bool(case.get('flags'))))
            res.count('decomp.qr.expand=' + ('None/0' if not case['expand'] else 'number'))
            res.count('decomp.qr.min_block_increase=%d' % case['min_block_increase'])
            res.count('decomp.qr.gauged=' + str(case.get('gauge_q') is not None))
            res.count('decomp.qr.move_right=' + str(case['move_right']))
            res.count('decomp.qr.eig_based=' + str(case['eig_based']))
        elif 'kept' in info and 'full' in info:
            res.count(f'decomp.{case["part"]}.truncated=' + str(info['kept'] < info['full']))
        if sig:
            seen[sig] = seen.get(sig, 0) + 1
            res.count('decomp.fail.' + sig)
            if seen[sig] <= 2:
                small = shrink(case, sig)
                sig2, det2, _ = CHECKS[case['part']](small)
                small['original'] = dict(case)
                res.fail('property', sig2 or sig, det2 or detail, small)
            elif seen[sig] <= 10:
                res.fail('property', sig, detail, case)
    return res


CORPUS = [
    # QR-based decomposition of a two-site tensor whose right tensor carries total charge 1
    {'part': 'qr', 'charge': 'U1', 'qvL': [[0], [0], [1], [1], [2]], 'qp': [[0], [1]],
     'qvM': [[0], [1], [1], [2], [2], [3]], 'qvR': [[0], [1], [1], [2], [2], [3], [3], [4]], 'dtype': 'real', 'seed': 1,
     'move_right': True, 'expand': 0.1, 'min_block_increase': 0, 'eig_based': False, 'bond_from': 'R',
     'trunc': {'chi_max': 6, 'svd_min': 1e-12}, 'gauge_q': [[0], [1]]},
    {'part': 'qr', 'charge': 'U1', 'qvL': [[0], [0], [1], [1], [2]], 'qp': [[0], [1]],
     'qvM': [[0], [1], [1], [2], [2], [3]], 'qvR': [[0], [1], [1], [2], [2], [3], [3], [4]], 'dtype': 'real', 'seed': 1,
     'move_right': False, 'expand': 0.1, 'min_block_increase': 0, 'eig_based': False, 'bond_from': 'R',
     'trunc': {'chi_max': 6, 'svd_min': 1e-12}, 'gauge_q': [[1], [0]]},
    {'part': 'svd', 'charge': 'U1', 'qL': [[0], [0], [1], [1]], 'qR': [[0], [1], [1], [2]], 'qtotal': [0], 'dtype': 'real',
     'seed': 3, 'trunc': {'chi_max': 2, 'svd_min': None, 'trunc_cut': None}},
    {'part': 'eigh', 'charge': 'Z2', 'qL': [[0], [1], [1]], 'qR': [[0], [0], [1], [1]], 'qtotal': [0], 'dtype': 'complex',
     'seed': 4, 'trace': 1.0, 'trunc': {'chi_max': 2, 'svd_min': None, 'trunc_cut': None}},
]


def load_corpus():
    import json
    out = [dict(c) for c in CORPUS]
    d = core.CORPUS_DIR / 'C15'
    if d.exists():
        for f in sorted(d.glob('*.json')):
            c = json.loads(f.read_text())
            c = c.get('case', c)
            if c.get('part') in CHECKS:
                c.pop('original', None)
                out.append(c)
    return out


def gen_cases(rng, n_svd, n_eigh, n_qr):
    cases = [gen_matrix_case(rng, 'svd') for _ in range(n_svd)] + [gen_matrix_case(rng, 'eigh') for _ in range(n_eigh)]
    cases += [gen_big_case(rng, 'svd') for _ in range(max(3, n_svd // 60))]
    cases += [gen_big_case(rng, 'eigh') for _ in range(max(3, n_eigh // 60))]
    cases += [gen_eigsvd_case(rng) for _ in range(n_qr // 3)]
    cases += [gen_mps_case(rng) for _ in range(max(12, n_qr // 8))]
    k = 0
    while k < n_qr:
        c = gen_qr_case(rng)
        if c is not None:
            cases.append(c)
            k += 1
    return cases


def _chunk(args):
    prop, tier, seed, tag, sizes, deadline = args
    core.use_repo()
    ctx = core.Ctx(prop, tier, seed, 0)
    return run_cases(ctx, gen_cases(ctx.sub_rng(tag), *sizes), deadline=deadline)


def run_parallel(ctx, tag, n_chunks, sizes, deadline):
    import multiprocessing as mp
    res = core.Result()
    jobs = [(ctx.prop, ctx.tier, ctx.seed, f'{tag}:{i}', sizes, deadline) for i in range(n_chunks)]
    with mp.get_context('fork').Pool(min(16, mp.cpu_count() or 1)) as pool:
        for r in pool.imap(_chunk, jobs):
            res.merge(r)
    return res


def run(ctx, budget_s):
    import time
    deadline = time.time() + budget_s
    res = run_cases(ctx, load_corpus(), deadline=deadline)
    if ctx.quick:
        res.merge(run_cases(ctx, gen_cases(ctx.sub_rng('decomp'), 400, 250, 350), deadline=deadline))
    else:
        res.merge(run_parallel(ctx, 'decomp', c15_truncate.n_chunks(32), (600, 300, 500), deadline))
    return res


def search(ctx, budget_s):
    import time
    deadline = time.time() + budget_s
    res = run_cases(ctx, load_corpus(), deadline=deadline)
    if ctx.quick:
        res.merge(run_cases(ctx, gen_cases(ctx.sub_rng('decomp-search'), 400, 200, 400), deadline=deadline))
    else:
        res.merge(run_parallel(ctx, 'decomp-search', c15_truncate.n_chunks(32), (400, 200, 400), deadline))
    return res
