"""C07 — an MPS always denotes the state it was built from.

Real code: every constructor of tenpy.networks.mps.MPS on generated inputs, canonical_form, random sequences of
convert_form, infinite MPS on a window, segments.
Oracle (no model): the dense construction input vs `get_theta(0, L) * norm`, vs an independent numpy contraction
of the stored tensors with the form bookkeeping redone in numpy, `norm`, `norm_test`, numpy SVD at every cut vs the
stored singular values / entropies / spectrum, total charge.
Model: the Lean driver contracts the implementation's stored tensors (`toState`, Float or exact Gaussian-rational
instance), redoes `get_B`/`convert_form`/`norm_test`/constructors and everything is diffed.
"""
import copy
import itertools
import random
import sys
import warnings
from fractions import Fraction
from pathlib import Path

import numpy as np

from vlib import core
from harness import mps_common as mc
from harness import mps_extra as mx
from harness import c07_ext as cx

sys.path.insert(0, str(core.ROOT / 'tools'))

PROP = 'C07'
MODEL_MODULES = ['TenpyModel.Util.J', 'TenpyModel.MPS.Eval', 'TenpyModel.C07.ExtCover', 'TenpyModel.C07.ExtCharge',
                 'TenpyModel.C07.ExtGlue']
PROPS_MODULES = ['TenpyModel.C07.Props', 'TenpyModel.C07.Props2', 'TenpyModel.C07.PropsExtCover',
                 'TenpyModel.C07.PropsExtCharge', 'TenpyModel.C07.PropsExtGlue', 'TenpyModel.C07.PropsExtPerm']
LEVEL = 'proof'
BUDGET = {'quick': 200, 'thorough': 1500}
RULE = ('states by every constructor (from_product_state with labels/ints/local vectors and permute on/off, from_full on '
        'random charge-sector vectors, from_Bflat and direct MPS(...) on random block-sparse tensors with non-uniform '
        'bond dimensions followed by canonical_form, from_singlets, from_product_mps_covering with interleaved and '
        'unsorted index maps) on L=1..8 over 19 site/conservation kinds incl. mixed chains; then random sequences of '
        'convert_form (single names and per-site lists over A,B,C,G,Th); exact family: integer tensors with '
        'power-of-4 singular values and arbitrary declared forms (compared exactly in Gaussian rationals); infinite '
        'unit cells of 1-3 sites (canonical_form_infinite1/2) compared through reduced density matrices on a window; '
        'segments. A case is non-trivial when some bond dimension is > 1; distinct by content hash. Extension part '
        '(harness/c07_ext.py): coverings by 1-4 interleaved local states incl. malformed index maps, charged MPS of '
        'every kind with gauge_total_charge requests (total / per-site / outer legs / malformed), form arguments '
        '(names, None, tuples, lists of wrong length), get_theta windows, entropy cuts; p_state entries (int / 1D array / '
        'label, permute on/off, 2D lattice arrays) on every predefined site class x conserve option (half of the draws '
        'with a non-involutive basis permutation) through from_product_state, from_lat_product_state, from_singlets, '
        'from_product_mps_covering, from_random_unitary_evolution.')
TRUSTED = ['Lean 4.33 kernel; axioms of every C07_* theorem ⊆ {propext, Classical.choice, Quot.sound}',
           'hand-written model lean/TenpyModel/MPS/{Scalar,Chain,Basic}.lean tied to tenpy/networks/mps.py by this run; '
           'form table regenerated from MPS._valid_forms by tools/gen_C07.py',
           'driver evaluates the model through the array-memoised evaluator MPS/Eval.lean, cross-checked against the '
           'literal definitions on every run (selfcheck lines)',
           'serialiser harness/mps_common.py (to_ndarray of stored tensors, IEEE bit patterns), numpy as dense oracle',
           'extension models lean/TenpyModel/C07/Ext{Cover,Charge,Glue}.lean tied by lean/drivers/C07ext.lean + '
           'harness/c07_ext.py (exact entry-wise / integer comparison); charge sorting of combine_legs is compared at '
           'state level only']
ASSUMPTIONS = ['LAPACK SVD/QR/eig results are only used through checked post-conditions (state preserved, isometry, '
               'Schmidt values = numpy SVD of the dense state) with tolerance 1e-9',
               'Float instance of the scalar-generic model is not a ring: cross-validated by the exact Gaussian-rational '
               'instance on the exactly representable family']

TOL = 1e-9
INF_KINDS = [('SpinHalf', None), ('SpinHalf', 'parity'), ('Spin1', None), ('Spin1', 'parity'), ('Fermion', None),
             ('Fermion', 'parity'), ('Boson2', None), ('Boson2', 'parity'), ('SHFermion', (None, None))]
KINDS = ['product', 'full', 'full', 'randB', 'randB', 'bflat', 'singlets', 'covering', 'covering', 'book', 'book', 'inf', 'segment']


def regenerate(ctx):
    import gen_C07
    return gen_C07.regenerate(ctx.repo, core.LEAN_DIR)


# ----------------------------------------------------------------------------------------------------------------


def gen_cases(rng, n, quick):
    cases = []
    Lmax = 5 if quick else 7
    while len(cases) < n:
        kind = rng.choice(KINDS)
        dmax = 256 if quick else (4096 if rng.random() < 0.05 else 1024)
        if kind == 'inf':
            L = rng.randint(1, 3)
            k = rng.choice(INF_KINDS)
            lo = rng.choice([1, 2])
            case = dict(kind='inf', seed=rng.getrandbits(31), complex=rng.random() < 0.3,
                        sites={'kinds': [[k[0], list(k[1]) if isinstance(k[1], tuple) else k[1]]] * L},
                        chi=[rng.randint(lo, lo + 1) for _ in range(L)], method=rng.choice([1, 1, 2]),
                        renormalize=rng.random() < 0.5, window=rng.randint(1, 2))
            if max(case['chi']) == 1:
                case['chi'][0] = 2
        elif kind == 'segment':
            base = mc.gen_case(rng, ['full', 'randB'], Lmax=max(3, Lmax), dmax=dmax)
            if base['kind'] == 'randB':
                base['canon'] = True
            L = len(base['sites']['kinds'])
            first = rng.randint(0, L - 2)
            last = rng.randint(first + 1, L - 1)
            case = dict(kind='segment', seed=base['seed'], base=base, first=first, last=last, sites=base['sites'],
                        complex=base['complex'])
        else:
            case = mc.gen_case(rng, [kind], Lmax=Lmax, dmax=dmax)
        L = len(case['sites']['kinds'])
        if kind == 'segment':
            L = case['last'] - case['first'] + 1
        # history: 0-3 conversions, each a single name or a per-site list
        hist = []
        for _ in range(rng.choice([0, 1, 2, 3])):
            if rng.random() < 0.5:
                hist.append([rng.choice(['A', 'B', 'C', 'G', 'Th'])] * L)
            else:
                hist.append([rng.choice(['A', 'B', 'C', 'G', 'Th']) for _ in range(L)])
        case['history'] = hist
        cases.append(case)
    return cases


def dense_schmidt(ref):
    """singular values at every cut of the normalised dense state (list for bonds 1..L-1)."""
    v = ref / np.linalg.norm(ref)
    dims = v.shape
    out = []
    for b in range(1, len(dims)):
        m = v.reshape(int(np.prod(dims[:b])), -1)
        out.append(np.linalg.svd(m, compute_uv=False))
    return out


def cmp_sv(stored, dense):
    a = np.sort(np.asarray(stored))[::-1]
    b = np.sort(np.asarray(dense))[::-1]
    n = max(len(a), len(b))
    a = np.pad(a, (0, n - len(a)))
    b = np.pad(b, (0, n - len(b)))
    return float(np.max(np.abs(a - b)))


def impl_state(psi):
    th = psi.get_theta(0, psi.L)
    th = th.itranspose(['vL'] + ['p%d' % i for i in range(psi.L)] + ['vR']).to_ndarray()
    return th.reshape(th.shape[1:-1]) * psi.norm


def forms_arg(names):
    return names[0] if len(set(names)) == 1 else list(names)


def eval_case(case):
    if case['kind'] == 'extra':
        return mx.eval_c07(case)
    if case['kind'] == 'ext':
        return cx.eval_ext(case)
    kind = case['kind']
    if kind == 'inf':
        return eval_inf(case)
    if kind == 'segment':
        return eval_segment(case)
    if kind == 'book':
        return eval_book(case)
    return eval_finite(case)


def eval_finite(case):
    kind = case['kind']
    oracle, lines, expects = [], [], []
    hist = ['kind=' + kind, 'L=%d' % len(case['sites']['kinds']),
            'sites=' + '+'.join(sorted({'%s/%s' % (k, c) for k, c in map(tuple, map(lambda x: (x[0], str(x[1])), case['sites']['kinds']))}))[:60],
            'complex=%s' % case.get('complex', False), 'history=%d' % len(case.get('history', []))]
    try:
        st = mc.build_state(case)
    except Exception as e:
        sig = 'C07.%s.raises:%s:%s' % (kind, type(e).__name__, str(e).splitlines()[0][:40])
        return dict(oracle=[(sig, repr(e)[:300])], hist=hist, nontrivial=True)
    psi, ref, rk = st['psi'], st['ref'], st['ref_kind']
    tag = ''
    cross = 0
    if kind == 'covering':
        cross = max(sum(1 for m in case['index_map'] if min(m) <= b < max(m)) for b in range(max(1, psi.L - 1)))
    if kind == 'covering' and psi.chinfo.qnumber > 0 and all(int(m) == 1 for m in psi.chinfo.mod) \
            and not case.get('local_canon', False) and cross >= 2:
        # U(1): local MPS straight from from_full (virtual legs not in ascending charge order) — normally refused with
        # 'incompatible LegCharge' (known finding); rarely (an unsorted index-map entry among crossing local MPS) the legs
        # happen to pass test_sanity and another state is returned
        tag = '[local MPS with virtual legs not in ascending charge order, several local MPS cross one bond]'
    elif kind == 'covering' and any(list(np.argsort(np.argsort(m))) != list(np.argsort(m)) for m in case['index_map']):
        tag = '[index_map entry whose sorting permutation is not self-inverse]'
    elif kind == 'covering' and any(int(m) != 1 for m in psi.chinfo.mod):
        if cross >= 2:
            tag = '[Z_N charges, several local MPS cross one bond]'
    L = psi.L
    chi = psi.chi
    hist.append('chimax=%d' % (max(chi) if chi else 1))
    hist.append('form=' + ','.join(sorted({str(f) for f in psi.form}))[:40])
    nontrivial = bool(chi) and max(chi) > 1
    dump = mc.dump_mps(psi)
    scale = max(1.0, float(np.max(np.abs(ref))))
    if rk == 'plain':
        # no form declared: the MPS denotes the contraction of its tensors as they are
        got = mc.np_plain(mc.stored_tensors(psi)[0])
        if not mc.close(got, ref, TOL):
            oracle.append(('C07.%s.stored-tensors-vs-input' % kind, 'max err %.3g' % mc.maxerr(got, ref)))
        lines.append({'op': 'plain', 'num': 'f', 'mps': dump})
        expects.append(('state', ref.ravel(), 'C07.model.plain-state'))
    else:
        try:
            ist = impl_state(psi)
        except Exception as e:
            oracle.append(('C07.%s.get_theta-raises:%s' % (kind, type(e).__name__), repr(e)[:200]))
            ist = None
        if ist is not None and not mc.close(ist, ref, TOL * scale):
            oracle.append(('C07.%s.state-vs-input%s' % (kind, tag), 'get_theta(0,L)*norm differs from the construction input: '
                           'max err %.3g' % mc.maxerr(ist, ref)))
        nps = mc.np_state(psi)
        if not mc.close(nps, ref, TOL * scale):
            oracle.append(('C07.%s.stored-tensors-vs-input%s' % (kind, tag), 'stored B,S,form,norm do not denote the input: '
                           'max err %.3g' % mc.maxerr(nps, ref)))
        lines.append({'op': 'theta', 'num': 'f', 'mps': dump, 'i': 0, 'n': L, 'norm': True})
        expects.append(('state', ref.ravel(), 'C07.model.state'))
        # norm
        exp_norm = 1.0
        if kind == 'full' and not case.get('normalize', True):
            exp_norm = float(np.linalg.norm(st['info']['input']))
        if kind == 'randB' and case.get('canon') is False:
            exp_norm = float(np.linalg.norm(st['info']['plain']))
        if abs(psi.norm - exp_norm) > TOL * max(1.0, exp_norm):
            oracle.append(('C07.%s.norm' % kind, 'psi.norm=%r expected %r' % (psi.norm, exp_norm)))
        canonical = rk == 'svd' or (kind == 'product' and all(m != 'vec' for m in case['p_modes']))
        state_ok = not oracle
        if canonical and not oracle:
            nt = psi.norm_test()
            if np.max(nt) > 1e-8:
                oracle.append(('C07.%s.norm_test' % kind, 'max %.3g' % np.max(nt)))
            lines.append({'op': 'normtest', 'num': 'f', 'mps': dump})
            expects.append(('normtest', nt ** 2, 'C07.model.norm_test'))
            if L >= 2 and np.linalg.norm(ref) > 0:
                ds = dense_schmidt(ref)
                for b in range(1, L):
                    e = cmp_sv(psi.get_SL(b), ds[b - 1])
                    if e > 1e-8:
                        oracle.append(('C07.%s.schmidt-values' % kind, 'bond %d: stored S vs numpy SVD of the dense state: %.3g' % (b, e)))
                        break
                ee = psi.entanglement_entropy()
                want = np.array([-np.sum((s[s > 1e-14] ** 2) * np.log(s[s > 1e-14] ** 2)) for s in ds])
                if not mc.close(ee, want, 1e-7):
                    oracle.append(('C07.%s.entanglement_entropy' % kind, 'err %.3g' % mc.maxerr(ee, want)))
                spec = psi.entanglement_spectrum()
                for b in range(1, L):
                    s = np.sort(ds[b - 1])[::-1][:len(spec[b - 1])]
                    big = s > 1e-6
                    w = np.sort(-2 * np.log(s[big]))
                    g = np.sort(spec[b - 1])[:len(w)]
                    if not mc.close(g, w, 1e-6):
                        oracle.append(('C07.%s.entanglement_spectrum' % kind, 'bond %d err %.3g' % (b, mc.maxerr(g, w))))
                        break
        if canonical and state_ok and L >= 2 and np.linalg.norm(ref) > 0:
            vn = ref / np.linalg.norm(ref)
            dims_ = list(vn.shape)
            # local expectation values of a diagonal operator (uses the stored S through get_theta(i, 1))
            for nme in ('Sz', 'N', 'Ntot'):
                if all(nme in s_.opnames for s_ in psi.sites):
                    got_e = psi.expectation_value(nme)
                    want_e = []
                    p2_ = np.abs(vn) ** 2
                    for i_, s_ in enumerate(psi.sites):
                        dg = np.real(np.diag(s_.get_op(nme).to_ndarray()))
                        sh = [1] * L
                        sh[i_] = dims_[i_]
                        want_e.append(float(np.sum(p2_ * dg.reshape(sh))))
                    if not mc.close(np.asarray(got_e, dtype=float), np.array(want_e), 1e-8):
                        oracle.append(('C07.%s.expectation_value' % kind, '<%s_i> from the MPS %s vs dense %s' % (
                            nme, np.round(got_e, 6).tolist(), np.round(want_e, 6).tolist())))
                    break
            # charge-resolved entanglement spectrum: singular values per charge sector of the cut
            if psi.chinfo.qnumber > 0:
                qs_ = [s_.leg.to_qflat() for s_ in psi.sites]
                spec_q = psi.entanglement_spectrum(by_charge=True)
                for b in range(1, L):
                    ql = np.zeros((1, psi.chinfo.qnumber), dtype=np.int64)
                    for i_ in range(b):
                        ql = (ql[:, None, :] + qs_[i_][None, :, :]).reshape(-1, psi.chinfo.qnumber)
                    ql = psi.chinfo.make_valid(ql)
                    m_ = vn.reshape(len(ql), -1)
                    dense_sec = []
                    for q in np.unique(ql, axis=0):
                        sv = np.linalg.svd(m_[np.all(ql == q, axis=1)], compute_uv=False)
                        sv = sv[sv > 1e-7]
                        if len(sv):
                            dense_sec.append(np.sort(sv))
                    mps_sec = []
                    for (_, sub) in spec_q[b - 1]:
                        sv = np.exp(-0.5 * np.asarray(sub))
                        sv = sv[sv > 1e-7]
                        if len(sv):
                            mps_sec.append(np.sort(sv))
                    key_ = lambda x: (len(x), tuple(np.round(x, 6)))  # noqa: E731
                    dense_sec, mps_sec = sorted(dense_sec, key=key_), sorted(mps_sec, key=key_)
                    same = [len(x) for x in dense_sec] == [len(x) for x in mps_sec] and \
                        all(np.max(np.abs(x - y)) < 1e-7 for x, y in zip(dense_sec, mps_sec))
                    if not same:
                        oracle.append(('C07.%s.schmidt-values-per-charge' % kind,
                                       'bond %d: singular values per charge sector differ from the dense state' % b))
                        break
        # total charge of the physical legs
        chinfo = psi.chinfo
        if chinfo.qnumber > 0 and np.any(ref != 0):
            idx = tuple(int(x) for x in np.argwhere(np.abs(ref) > 1e-12)[0])
            q = np.sum([s.leg.to_qflat()[i] for s, i in zip(psi.sites, idx)], axis=0)
            want_q = chinfo.make_valid(q)
            try:
                got_q = psi.get_total_charge(only_physical_legs=True)
                if np.any(got_q != want_q):
                    oracle.append(('C07.%s.total_charge' % kind, 'get_total_charge(only_physical_legs)=%r expected %r' % (got_q, want_q)))
            except Exception as e:
                oracle.append(('C07.%s.total_charge-raises' % kind, repr(e)[:200]))
    # ---- history of form conversions (only for states with declared forms)
    if rk != 'plain' and case.get('history') and not oracle:
        p2 = psi.copy()
        seq = []
        for names in case['history']:
            try:
                p2.convert_form(forms_arg(names))
            except Exception as e:
                oracle.append(('C07.convert.raises:%s' % type(e).__name__, repr(e)[:200]))
                break
            seq.append([list(mc.HALF[n]) for n in names])
            ist2 = impl_state(p2)
            if not mc.close(ist2, ref, TOL * scale):
                oracle.append(('C07.convert.state-changed', 'after convert_form%r: max err %.3g' % (seq and names, mc.maxerr(ist2, ref))))
                break
            nps2 = mc.np_state(p2)
            if not mc.close(nps2, ref, TOL * scale):
                oracle.append(('C07.convert.stored-tensors', 'after convert_form(%r) the stored tensors/forms denote another state: %.3g' % (names, mc.maxerr(nps2, ref))))
                break
            if p2.norm != psi.norm:
                oracle.append(('C07.convert.norm-changed', '%r -> %r' % (psi.norm, p2.norm)))
                break
        if seq:
            lines.append({'op': 'convert', 'num': 'f', 'mps': dump, 'forms': seq})
            expects.append(('mps', mc.stored_tensors(p2), 'C07.model.convert_form'))
        # back to canonical_form: still the same state, norm untouched with renormalize=True
        if not oracle and rk == 'svd' and L > 1:
            p3 = p2.copy()
            p3.canonical_form()
            ist3 = impl_state(p3)
            if not mc.close(ist3, ref, 1e-8 * scale):
                oracle.append(('C07.recanonicalize.state-changed', 'max err %.3g' % mc.maxerr(ist3, ref)))

    def compare(outs):
        bad = []
        for (what, want, sig), out in zip(expects, outs):
            if 'error' in out:
                bad.append((sig, 'driver error ' + str(out['error'])[:200]))
                continue
            if what == 'state':
                got = mc.dec_list(out['v'])
                if not mc.close(got, want, TOL * scale):
                    bad.append((sig, 'Lean toState of the stored tensors vs input: max err %.3g' % mc.maxerr(got, want)))
            elif what == 'normtest':
                got = np.array([[mc.dec_scalar(e).real for e in row] for row in out['err2']])
                if not mc.close(got, want, 1e-9):
                    bad.append((sig, 'norm_test^2 model %r impl %r' % (got.tolist(), np.asarray(want).tolist())))
            elif what == 'mps':
                Bs, Ss, forms, norm = mc.mps_from_dump(out['mps'])
                wB, wS, wf, wn = want
                for i, (a, b) in enumerate(zip(Bs, wB)):
                    if not mc.close(a, b, 1e-10 * max(1.0, float(np.max(np.abs(b))))):
                        bad.append((sig, 'site %d tensor differs: %.3g' % (i, mc.maxerr(a, b))))
                        break
                if [mc.form_half(f) for f in wf] != forms:
                    bad.append((sig, 'forms %r vs model %r' % (wf, forms)))
        return bad

    return dict(oracle=oracle, lines=lines, compare=compare, nontrivial=nontrivial, hist=hist)


def frac_arr(a):
    a = np.asarray(a)
    return [(Fraction(float(z.real)), Fraction(float(z.imag))) for z in a.ravel().astype(complex)]


def eval_book(case):
    """exact family: integer tensors, power-of-4 singular values, arbitrary declared forms."""
    oracle, lines, expects = [], [], []
    L = len(case['sites']['kinds'])
    hist = ['kind=book', 'L=%d' % L, 'complex=%s' % case.get('complex', False), 'history=%d' % len(case.get('history', []))]
    try:
        st = mc.build_state(case)
    except Exception as e:
        return dict(oracle=[('C07.book.raises:%s' % type(e).__name__, repr(e)[:300])], hist=hist, nontrivial=True)
    psi = st['psi']
    nontrivial = max(psi.chi) > 1 if psi.chi else False
    hist.append('chimax=%d' % (max(psi.chi) if psi.chi else 1))
    dump = mc.dump_mps(psi)
    ist = impl_state(psi)
    nps = mc.np_state(psi)
    scale = max(1.0, float(np.max(np.abs(nps))))
    if not mc.close(ist, nps, 1e-10 * scale):
        oracle.append(('C07.book.get_theta', 'get_theta(0,L) vs numpy S^(1-nu) bookkeeping: max err %.3g' % mc.maxerr(ist, nps)))
    lines.append({'op': 'theta', 'num': 'q', 'mps': dump, 'i': 0, 'n': L, 'norm': True})
    expects.append(('exact-state', frac_arr(ist), 'C07.model.get_theta-exact'))
    # get_B in a random form at a random site
    rnd = random.Random(case['seed'])
    i = rnd.randrange(L)
    fname = rnd.choice(['A', 'B', 'C', 'G', 'Th'])
    B = psi.get_B(i, fname).to_ndarray()
    lines.append({'op': 'getB', 'num': 'q', 'mps': dump, 'i': i, 'form': list(mc.HALF[fname])})
    expects.append(('exact-tensor', frac_arr(B), 'C07.model.get_B-exact'))
    p2 = psi.copy()
    seq = []
    for names in case.get('history', []):
        p2.convert_form(forms_arg(names))
        seq.append([list(mc.HALF[n]) for n in names])
        ist2 = impl_state(p2)
        if not mc.close(ist2, ist, 1e-12 * scale):
            oracle.append(('C07.convert.state-changed', 'exact family, after %r: max err %.3g' % (names, mc.maxerr(ist2, ist))))
            break
        nps2 = mc.np_state(p2)
        if not mc.close(nps2, ist, 1e-10 * scale):
            oracle.append(('C07.convert.stored-tensors', 'exact family, after %r: %.3g' % (names, mc.maxerr(nps2, ist))))
            break
    if seq and not oracle:
        lines.append({'op': 'convert', 'num': 'q', 'mps': dump, 'forms': seq})
        Bs = mc.stored_tensors(p2)[0]
        expects.append(('exact-mps', [frac_arr(b) for b in Bs], 'C07.model.convert_form-exact'))

    def compare(outs):
        bad = []
        for (what, want, sig), out in zip(expects, outs):
            if 'error' in out:
                bad.append((sig, 'driver error ' + str(out['error'])[:200]))
                continue
            if what == 'exact-state':
                got = mc.dec_list(out['v'], exact=True)
            elif what == 'exact-tensor':
                got = mc.dec_list(out['t'], exact=True)
            else:
                got = [mc.dec_list(s, exact=True) for s in out['mps']['sites']]
            if got != want:
                bad.append((sig, 'exact (Gaussian rational) model value differs from the implementation'))
        return bad

    return dict(oracle=oracle, lines=lines, compare=compare, nontrivial=nontrivial, hist=hist)


def eval_inf(case):
    oracle, lines, expects = [], [], []
    L = len(case['sites']['kinds'])
    hist = ['kind=inf', 'L=%d' % L, 'method=%d' % case['method'], 'complex=%s' % case.get('complex', False)]
    b = mc.build_infinite(case)
    psi, dense = b['psi'], b['dense']
    w = mc.transfer_spectrum(dense)[0]
    if len(w) > 1 and abs(w[1]) > 0.9 * abs(w[0]):
        return dict(skip='inf: nearly degenerate transfer matrix (generator)')
    if abs(w[0]) < 1e-8:
        return dict(skip='inf: zero state (generator)')
    n = L * case['window']
    want = mc.np_rho_window(dense, n)
    norm0 = psi.norm
    try:
        if case['method'] == 1:
            psi.canonical_form_infinite1(renormalize=case['renormalize'])
        else:
            psi.canonical_form_infinite2(renormalize=case['renormalize'])
    except Exception as e:
        return dict(oracle=[('C07.inf.canonical_form%d-raises:%s' % (case['method'], type(e).__name__), repr(e)[:200])],
                    hist=hist, nontrivial=True)
    nt = psi.norm_test()
    tolc = 1e-6  # canonical_form_infinite1 documents half machine precision
    if np.max(nt) > tolc:
        oracle.append(('C07.inf.norm_test', 'method %d: %.3g' % (case['method'], np.max(nt))))
    rho = psi.get_rho_segment(list(range(n)))
    rho = rho.itranspose(['p%d' % k for k in range(n)] + ['p%d*' % k for k in range(n)]).to_ndarray()
    D = int(np.prod(rho.shape[:n]))
    rho = rho.reshape(D, D)
    if not mc.close(rho, want, tolc):
        oracle.append(('C07.inf.rho-window', 'reduced density matrix of %d sites after canonical_form_infinite%d vs '
                       'numpy transfer-matrix reference: %.3g' % (n, case['method'], mc.maxerr(rho, want))))
    if not case['renormalize']:
        eta = abs(w[0])
        # norm picks up sqrt(eta) per unit cell
        if abs(psi.norm - norm0 * np.sqrt(eta)) > 1e-6 * max(1, np.sqrt(eta)):
            oracle.append(('C07.inf.norm', 'norm %r expected %r' % (psi.norm, norm0 * np.sqrt(eta))))
    elif psi.norm != norm0:
        oracle.append(('C07.inf.norm', 'renormalize=True changed norm %r -> %r' % (norm0, psi.norm)))
    # model: window theta of the canonical tensors vs the implementation's get_theta, norm_test
    dump = mc.dump_mps(psi)
    th = psi.get_theta(0, n).itranspose(['vL'] + ['p%d' % k for k in range(n)] + ['vR']).to_ndarray()
    lines.append({'op': 'theta', 'num': 'f', 'mps': dump, 'i': 0, 'n': n})
    expects.append(('state', th.ravel(), 'C07.model.inf-theta'))
    th1 = psi.get_theta(L, n).itranspose(['vL'] + ['p%d' % k for k in range(n)] + ['vR']).to_ndarray()
    lines.append({'op': 'theta', 'num': 'f', 'mps': dump, 'i': L - 1 if L > 1 else 1, 'n': n})
    j = L - 1 if L > 1 else 1
    thj = psi.get_theta(j, n).itranspose(['vL'] + ['p%d' % k for k in range(n)] + ['vR']).to_ndarray()
    expects.append(('state', thj.ravel(), 'C07.model.inf-theta-across-cell'))
    lines.append({'op': 'normtest', 'num': 'f', 'mps': dump})
    expects.append(('normtest', nt ** 2, 'C07.model.norm_test'))
    # independent numpy check of the window theta (unit-cell boundary bookkeeping)
    npj = mc.np_theta(psi, j, n)
    if not mc.close(thj, npj, 1e-9):
        oracle.append(('C07.inf.get_theta-across-cell', 'get_theta(%d,%d) vs numpy bookkeeping: %.3g' % (j, n, mc.maxerr(thj, npj))))
    p2 = psi.copy()
    for names in case.get('history', []):
        p2.convert_form(forms_arg(names))
        t2 = p2.get_theta(j, n).itranspose(['vL'] + ['p%d' % k for k in range(n)] + ['vR']).to_ndarray()
        if not mc.close(t2, thj, 1e-9):
            oracle.append(('C07.convert.state-changed', 'infinite, after %r: %.3g' % (names, mc.maxerr(t2, thj))))
            break

    def compare(outs):
        bad = []
        for (what, want_, sig), out in zip(expects, outs):
            if 'error' in out:
                bad.append((sig, 'driver error ' + str(out['error'])[:200]))
            elif what == 'state':
                got = mc.dec_list(out['v'])
                if not mc.close(got, want_, 1e-9):
                    bad.append((sig, 'max err %.3g' % mc.maxerr(got, want_)))
            elif what == 'normtest':
                got = np.array([[mc.dec_scalar(e).real for e in row] for row in out['err2']])
                if not mc.close(got, want_, 1e-9):
                    bad.append((sig, 'norm_test^2 differs'))
        return bad

    return dict(oracle=oracle, lines=lines, compare=compare, nontrivial=True, hist=hist)


def eval_segment(case):
    oracle, lines, expects = [], [], []
    hist = ['kind=segment', 'L=%d' % len(case['sites']['kinds'])]
    st = mc.build_state(case['base'])
    parent = st['psi']
    first, last = case['first'], case['last']
    n = last - first + 1
    seg = parent.extract_segment(first, last)
    want = mc.np_theta(parent, first, n) * parent.norm
    th = seg.get_theta(0, n).itranspose(['vL'] + ['p%d' % k for k in range(n)] + ['vR']).to_ndarray() * seg.norm
    if not mc.close(th, want, TOL):
        oracle.append(('C07.segment.theta', 'extract_segment(%d,%d): segment theta vs parent window: %.3g' % (first, last, mc.maxerr(th, want))))
    if seg.bc != 'segment':
        oracle.append(('C07.segment.bc', seg.bc))
    dump = mc.dump_mps(seg)
    lines.append({'op': 'theta', 'num': 'f', 'mps': dump, 'i': 0, 'n': n, 'norm': True})
    expects.append(('state', want.ravel(), 'C07.model.segment-theta'))
    # canonical_form on the segment: theta changes by the returned boundary unitaries only
    s2 = seg.copy()
    for names in case.get('history', []):
        s2.convert_form(forms_arg(names))
    try:
        U, V = s2.canonical_form_finite()
        th2 = s2.get_theta(0, n).itranspose(['vL'] + ['p%d' % k for k in range(n)] + ['vR']).to_ndarray() * s2.norm
        Ud = U.itranspose(['vL', 'vR']).to_ndarray()
        Vd = V.itranspose(['vL', 'vR']).to_ndarray()
        back = np.tensordot(np.tensordot(Ud, th2, axes=(1, 0)), Vd, axes=(-1, 0))
        if not mc.close(back, want, 1e-8):
            oracle.append(('C07.segment.canonical_form', 'U_L theta_new V_R vs theta_old: %.3g' % mc.maxerr(back, want)))
        nt = s2.norm_test()
        if np.max(nt) > 1e-8:
            oracle.append(('C07.segment.norm_test', '%.3g' % np.max(nt)))
    except Exception as e:
        oracle.append(('C07.segment.canonical_form-raises:%s' % type(e).__name__, repr(e)[:200]))

    def compare(outs):
        bad = []
        for (what, want_, sig), out in zip(expects, outs):
            if 'error' in out:
                bad.append((sig, 'driver error ' + str(out['error'])[:200]))
            else:
                got = mc.dec_list(out['v'])
                if not mc.close(got, want_, TOL):
                    bad.append((sig, 'max err %.3g' % mc.maxerr(got, want_)))
        return bad

    return dict(oracle=oracle, lines=lines, compare=compare, nontrivial=max(seg.chi) > 1, hist=hist)


# ----------------------------------------------------------------------------------------------------------------


def shrink(case, sig):
    """shorten the chain / drop history while the same signature is still produced (oracle only)."""
    def fails(c):
        try:
            with warnings.catch_warnings():
                warnings.simplefilter('ignore')
                ev = eval_case(c)
        except Exception:
            return False
        return any(s == sig for s, _ in ev.get('oracle', []))
    cur = copy.deepcopy(case)
    if cur.get('history'):
        c2 = copy.deepcopy(cur)
        c2['history'] = []
        if fails(c2):
            cur = c2
        else:
            for k in range(len(cur['history'])):
                c2 = copy.deepcopy(cur)
                c2['history'] = cur['history'][:k + 1]
                if fails(c2):
                    cur = c2
                    break
    if cur['kind'] in ('full', 'randB', 'book', 'bflat', 'product'):
        while len(cur['sites']['kinds']) > 2:
            c2 = copy.deepcopy(cur)
            c2['sites']['kinds'] = c2['sites']['kinds'][:-1]
            for key in ('p_modes', 'forms'):
                if key in c2:
                    c2[key] = c2[key][:-1]
            c2['history'] = [h[:-1] for h in c2.get('history', [])]
            if fails(c2):
                cur = c2
            else:
                break
    if cur.get('complex'):
        c2 = copy.deepcopy(cur)
        c2['complex'] = False
        if fails(c2):
            cur = c2
    return cur


SELFCHECK_CASE = dict(kind='randB', seed=7, complex=True, sites={'kinds': [['SpinHalf', None]] * 3}, max_mult=1,
                      canon=True, history=[])


def selfcheck():
    """the memoised evaluator of the driver against the literal model definitions (tiny chain)."""
    st = mc.build_state(SELFCHECK_CASE)
    out = core.run_driver('C07', [{'op': 'selfcheck', 'num': 'f', 'mps': mc.dump_mps(st['psi'])},
                                  {'op': 'forms'}])
    o = out[0]
    probs = []
    if 'error' in o:
        return ['driver selfcheck error: ' + str(o['error'])]
    d, f, a = mc.dec_list(o['direct']), mc.dec_list(o['fast']), mc.dec_list(o['all'])
    if not (mc.close(d, f, 1e-13) and mc.close(d, a, 1e-13)):
        probs.append('driver evaluator: memoised contraction differs from the literal definition')
    if abs(mc.dec_scalar(o['tmD']) - mc.dec_scalar(o['tmE'])) > 1e-12:
        probs.append('driver evaluator: memoised transfer matrix differs from the literal definition')
    if out[1] != {k: list(v) for k, v in mc.HALF.items()}:
        probs.append('form table of the source differs from A,B,C,G,Th = (1,0),(0,1),(.5,.5),(0,0),(1,1): %r' % (out[1],))
    return probs


def corpus_cases():
    out = []
    for f in sorted((core.CORPUS_DIR / PROP).glob('*.json')) if (core.CORPUS_DIR / PROP).exists() else []:
        import json
        out.append(json.loads(f.read_text()))
    return out


ANCHOR_COVERAGE_NOTE = ("coverage round 2026-09-26 (measured outside the check, quick tier seed 0, coverage --branch on tenpy/networks/mps.py): this property's quick tier 32.4% -> 44.4% (lines 35.8% -> 47.7%, branches 24.2% -> 36.3%); C07+C08+C09 together 57.5% -> 83.5% (lines 61.2% -> 85.5%, branches 48.5% -> 78.6%). 12 extra mechanisms with dense oracles in harness/mps_extra.py (C07_SUBS; segment_history added later the same day, not in the measured numbers); see notes/C07.md 'Coverage round'.")


def run(ctx):
    res = core.Result()
    res.extra['anchor_coverage_note'] = ANCHOR_COVERAGE_NOTE
    for p in selfcheck():
        res.fail('correspondence', 'C07.driver.selfcheck', p, {})
    rng = ctx.sub_rng('cases')
    n = 220 if ctx.quick else 6000
    corpus = corpus_cases()
    cases = [c for c in corpus if c.get('kind') != 'ext'] + gen_cases(rng, n, ctx.quick)
    xr = ctx.sub_rng('extra')
    cases += mx.gen_extras(xr, mx.C07_SUBS, 60 if ctx.quick else 900)
    results, derrs = mc.run_cases(ctx, PROP, 'harness.C07', 'eval_case', cases,
                                  budget_s=ctx.budget_s * 0.7 if not ctx.quick else None)
    # extension round: newly modelled code (covering assembly, charge bookkeeping, argument handling) through its
    # own driver (drivers/C07ext.lean; drivers/C07.lean is shared with C08/C09)
    er = ctx.sub_rng('ext')
    ecases = [c for c in corpus if c.get('kind') == 'ext'] + cx.gen_ext(er, 400 if ctx.quick else 12000)
    eres, ederrs = mc.run_cases(ctx, PROP, 'harness.c07_ext', 'eval_ext', ecases, driver='C07ext',
                                budget_s=ctx.budget_s * 0.15 if not ctx.quick else None)
    res.extra['ext_cases'] = len([r for r in eres if not r['skip']])
    return mc.fold_results(res, results + eres, derrs + ederrs, PROP, shrink=shrink)


def search(ctx, reasons):
    """failing-input search with the oracle only (no model)."""
    res = core.Result()
    rng = ctx.sub_rng('search')
    cases = corpus_cases() + gen_cases(rng, 300 if ctx.quick else 4000, ctx.quick)
    cases += cx.gen_ext(ctx.sub_rng('ext-search'), 300 if ctx.quick else 4000)
    results, _ = mc.run_cases(ctx, PROP, 'harness.C07', 'eval_oracle_only', cases)
    for r in results:
        if r['skip']:
            continue
        res.note_case(r['case'], r['nontrivial'])
        for sig, detail in r['oracle']:
            res.fail('property', sig, detail, shrink(r['case'], sig))
    return res


def eval_oracle_only(case):
    ev = eval_case(case)
    ev.pop('lines', None)
    ev.pop('compare', None)
    return ev


def replay(ctx, payload):
    res = core.Result()
    case = payload.get('case') or {}
    if not case:
        return run(ctx)
    if case.get('kind') == 'ext':
        results, derrs = mc.run_cases(ctx, PROP, 'harness.c07_ext', 'eval_ext', [case], driver='C07ext', procs=1)
    else:
        results, derrs = mc.run_cases(ctx, PROP, 'harness.C07', 'eval_case', [case], procs=1)
    return mc.fold_results(res, results, derrs, PROP)
