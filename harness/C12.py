"""C12 — local Hilbert spaces: operator algebra, basis bookkeeping and fermionic signs."""
import json

from vlib import core
from harness import c12_sites, c12_jw, c12_grouped, c12_model, c12_api

PROP = 'C12'
MODEL_MODULES = ['TenpyModel.Util.J', 'TenpyModel.C12.Mat', 'TenpyModel.C12.Sites', 'TenpyModel.C12.JW']
PROPS_MODULES = ['TenpyModel.C12.PropsSites', 'TenpyModel.C12.PropsCharges', 'TenpyModel.C12.PropsHc',
                 'TenpyModel.C12.PropsCAR', 'TenpyModel.C12.PropsJW']
PROPS_MODULES = PROPS_MODULES + ['TenpyModel.C12.Props2']   # second round of theorems (Props2.lean + P2_*.lean)
LEAN_MODULES = PROPS_MODULES
LEVEL = 'proof'
BUDGET = {'quick': 170, 'thorough': 1500}
RULE = ('site: every predefined site class over its parameter range (2S<=6, Nmax<=4, q<=5; thorough 9/7/8; '
        'fillings drawn from dyadic rationals) x every conserve option (x sort_charge where it is a parameter); '
        'grouped: random 2-3 heterogeneous sites x charges in {same, drop, independent} (x preparation by '
        'set_common_charges, custom labels), set_common_charges with same/drop/independent/explicit linear '
        'combinations x sort_charge; chain: chains of 2-6 sites (uniform fermion chains with conserve N/parity/None, '
        'spinful chains, heterogeneous chains with bosonic fillers incl. interleaved boson/fermion patterns, common charges '
        'via set_common_charges; term correlation functions / apply_local_term / _term_to_ops_list with non-zero offsets): all '
        'ordered pairs of atomic fermionic operators on all site pairs (sampled operator choice when >150), sampled '
        'products of 2-6 operators incl. compound names, repeated sites, odd parity, unit-cell indices outside '
        '[0,L); random MPS with definite charge; model: CouplingModel.add_local_term / add_coupling / '
        'add_multi_coupling on finite lattices (uniform fermion chains L<=6, heterogeneous unit cells), plus_hc x '
        'explicit_plus_hc, complex strengths, every ordered pair of sites x atomic operators on the uniform chains, '
        'sampled products of 2-5 operators in any order incl. repeated sites and negative dx, several calls per '
        'model, odd-parity calls; api: every class x conserve option once per run through the Site bookkeeping methods '
        '(add_op/rename_op/remove_op/change_charge/sort_charge/get_op products/state_index), spin_half_species, '
        'GroupedSite/kron/set_common_charges option and error branches. A chain term is non-trivial when it touches >=2 sites and contains '
        'a JW-odd operator; a grouped case when the sites have different dimensions; distinct by content hash.')
TRUSTED = ['Lean 4.33 kernel; axioms of every C12_* theorem within {propext, Classical.choice, Quot.sound}',
           'hand-written model TenpyModel/C12/{Mat,Sites,JW}.lean, tied to tenpy/networks/{site,terms,mps}.py by this '
           'correspondence run: operator tables entry by entry (exact for rational entries, 4e-15 relative for '
           'sqrt / roots of unity), charges, perm, labels, hc pairs, need_JW flags; output strings of '
           'order_combine_term / coupling_term_handle_JW / multi_coupling_term_handle_JW / _term_to_ops_list '
           'compared exactly',
           'independent oracle: numpy on the dense matrices of the real operators (defining algebra, conjugate '
           'transposes, charge rule) and explicit Jordan-Wigner by np.kron from 2x2 mode operators',
           'irrational entries are represented by their rational squares; theorems quantify over every field '
           'element with that square',
           'the model-API layer (CouplingModel.add_* incl. the plus_hc recursion) has no Lean model: it is checked by the '
           'dense oracle only (MPO -> ExactDiag and H_bond -> ExactDiag against explicit Jordan-Wigner operators, '
           'Hermiticity when the h.c. was requested)',
           'JSON line driver lean/drivers/C12.lean and the serialisers in harness/c12_*.py']
ASSUMPTIONS = ['numpy dense linear algebra (matmul, kron) on matrices of dimension <= 1100',
               'np.lexsort is stable (model: stable insertion sort, last charge most significant)',
               'np.sqrt is correctly rounded (entries compared to 4e-15 relative)']


def _corpus_cases():
    out = []
    d = core.CORPUS_DIR / 'C12'
    if d.exists():
        for f in sorted(d.glob('*.json')):
            try:
                out.append(json.loads(f.read_text()))
            except Exception:
                pass
    return out


def _replay_case(ctx, case):
    res = core.Result()
    part = case.get('part', '')
    if part == 'site':
        res.merge(c12_sites.run_cases(ctx, [case['spec']]))
    elif part in ('grouped', 'scc'):
        lines, pend = [], []
        if part == 'grouped':
            c12_grouped.check_group(res, {k: case[k] for k in ('specs', 'policy', 'prep', 'labels')}, lines, pend)
        else:
            c12_grouped.check_scc(res, {k: case[k] for k in ('specs', 'policy', 'sort', 'new_mod')}, lines, pend)
        c12_grouped.finish(res, lines, pend, True)
    elif part.startswith('chain'):
        res.merge(c12_jw.run_case(ctx, case))
    elif part == 'api-species':
        c12_api.check_spin_half_species(res, [], [])
    elif part.startswith('api'):
        res.merge(c12_api.run(ctx))
    elif part == 'model':
        res.merge(c12_model.run_case(ctx, case))
    elif part == 'needjw':
        c12_jw.run_needjw(ctx, res)
    elif part == 'grouped-chain':
        c12_grouped.check_grouped_chain(res, ctx.sub_rng('replay'), ctx.quick)
    return res


ANCHOR_COVERAGE_NOTE = ('2026-09-26, quick tier seed 0, coverage --branch: executed/executable lines of the anchored functions '
                        'site.py 645/770 -> 761/771, terms.py (JW functions) 150/168 -> 166/168, mps.py (JW paths) 169/446 -> 351/446, '
                        'model.py (add_*) 105/217 -> 213/219; whole-file line+branch cover site.py 82% -> 98%. Unexercised: '
                        'infinite-MPS branches, MPSEnvironment variant of expectation_value_terms_sum, multi-site npc operators.')


def run(ctx):
    res = core.Result()
    res.extra['anchor_coverage_note'] = ANCHOR_COVERAGE_NOTE
    for case in _corpus_cases():
        res.merge(_replay_case(ctx, case.get('case', case)))
    res.merge(c12_sites.run(ctx))
    res.merge(c12_api.run(ctx))
    res.merge(c12_grouped.run(ctx))
    res.merge(c12_model.run(ctx))
    res.merge(c12_jw.run(ctx))
    return res


def search(ctx, reasons):
    res = core.Result()
    res.merge(c12_sites.search(ctx))
    res.merge(c12_api.search(ctx))
    res.merge(c12_grouped.search(ctx))
    res.merge(c12_model.search(ctx))
    res.merge(c12_jw.search(ctx))
    return res


def replay(ctx, payload):
    return _replay_case(ctx, payload.get('case', {}))
