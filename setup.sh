#!/bin/bash
# Build the framework from files on disk only (offline). Run once after a fresh restore, cwd = /verif.
set -e
cd "$(dirname "$0")"
(cd lean && lake build 2>&1 | tail -5)
echo '{"k":"events","ops":[["connect",1,0],["emit"]]}' | (cd lean && lake env lean --run drivers/C20.lean)
echo "setup ok"
