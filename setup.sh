#!/bin/bash
# Build the framework from files on disk only (offline). Run once after a fresh restore, cwd = /verif.
set -e
cd "$(dirname "$0")"
(cd lean && lake build 2>&1 | tail -15)
echo '{"k":"events","ops":[["connect",1,0],["emit"]]}' | (cd lean && lake env lean --run drivers/C20.lean)
# compiled tensor kernels, built from /repo's current .pyx into .cache/ (checks rebuild when the source changes)
/venv/bin/python -m vlib.cybuild || echo "WARNING: compiled kernels did not build; tensor checks will report it"
echo "setup ok"
