import TenpyModel.Util.J
import TenpyModel.C18.FS
import TenpyModel.C18.Loop
open Lean TenpyModel TenpyModel.J
open TenpyModel.C18

def nameStr : C18.Name → String
  | .out => "out"
  | .backup => "backup"

def fileJson : Option File → Json
  | none => Json.null
  | some (.complete c) => Json.arr #["complete", c]
  | some (.partialW c k) => Json.arr #["partial", c, k]
  | some .other => Json.arr #["other"]

def parseFile (j : Json) : Except String (Option File) := do
  if j.isNull then return none
  let a ← getArr j
  match a with
  | [t] => if (← getStr t) == "other" then return some .other else throw "bad-file"
  | [t, c] => if (← getStr t) == "complete" then return some (.complete (← getNat c)) else throw "bad-file"
  | [t, c, k] => if (← getStr t) == "partial" then return some (.partialW (← getNat c) (← getNat k)) else throw "bad-file"
  | _ => throw "bad-file"

def evJson : Ev → Json
  | .exists n b => Json.arr #["exists", nameStr n, b]
  | .did (.unlink n) => Json.arr #["unlink", nameStr n]
  | .did (.rename s d) => Json.arr #["rename", nameStr s, nameStr d]
  | .did (.create n _) => Json.arr #["create", nameStr n]
  | .did (.write n _ k) => Json.arr #["write", nameStr n, k]
  | .did (.close n _) => Json.arr #["close", nameStr n]
  | .did (.stub n) => Json.arr #["stub", nameStr n]

def parseSave (j : Json) : Except String (Nat × List Nat) := do
  match (← getArr j) with
  | [c, ch] => return (← getNat c, ← natList ch)
  | _ => throw "bad-save"

def handleFs (j : Json) : Except String Json := do
  let fsj ← field j "fs"
  let fs : FS := ⟨← parseFile (fieldD fsj "out" Json.null), ← parseFile (fieldD fsj "backup" Json.null)⟩
  let safe ← getBool (← field j "safe")
  let startup ← getBool (← field j "startup")
  let saves ← listOf parseSave (← field j "saves")
  let prog := if startup then runProg safe saves else processProg safe saves
  let budget ← optOf getNat (fieldD j "budget" Json.null)
  let r := exec prog fs (budget.getD (prog.size + 1))
  return obj [("trace", ofList evJson r.2.1),
              ("fs", obj [("out", fileJson r.1.out), ("backup", fileJson r.1.backup)]),
              ("completed", r.2.2)]

/-- loop machine: a plain run, the snapshot saved at checkpoint `ck`, the run resumed from it -/
def measJson (m : Loop.Meas) : Json := Json.arr #[m.index, m.tag, m.psi, m.eps]

def simJson : Option Loop.Sim → Json
  | none => Json.null
  | some s => obj [("meas", ofList measJson s.meas), ("steps", s.st.steps), ("psi", s.st.psi),
                   ("err", s.st.err), ("finished", s.finished)]

def handleLoop (j : Json) : Except String Json := do
  let kind ← getStr (← field j "kind")
  let k ← getNat (← field j "ck")
  let errs ← natList (← field j "errs")
  let convAt ← natList (fieldD j "conv_at" (Json.arr #[]))
  let cfg : Loop.Cfg := {
    kind := if kind == "te" then .te else .gs
    n := ← getNat (fieldD j "n" (0 : Nat))
    maxSweeps := ← getNat (fieldD j "max_sweeps" (0 : Nat))
    minSweeps := ← getNat (fieldD j "min_sweeps" (0 : Nat))
    conv := fun s => convAt.contains s
    guardEmpty := ← getBool (fieldD j "guard_empty" true)
    measureInitial := ← getBool (← field j "measure_initial")
    measureAtCheckpoints := ← getBool (← field j "measure_at_checkpoints")
    prioMeasure := ← getInt (← field j "prio_measure")
    prioSave := ← getInt (← field j "prio_save")
    carryErr := ← getBool (← field j "carry_err")
    stepErr := fun i => errs.getD i 0 }
  return obj [("plain", simJson (Loop.run cfg)),
              ("snapshot", match Loop.snapshotAt cfg k with
                | none => Json.null
                | some s => obj [("meas", ofList measJson s.meas), ("steps", s.steps), ("psi", s.psi),
                                 ("err", match s.err with | none => Json.null | some e => (e : Json))]),
              ("resumed", simJson (Loop.resumeFrom cfg k)),
              ("order", ofList (fun (s : String) => Json.str s) (Loop.checkpointOrder cfg))]

def handle (j : Json) : Except String Json := do
  let k ← getStr (← field j "k")
  if k == "fs" then handleFs j
  else if k == "loop" then handleLoop j
  else throw s!"unknown kind {k}"

def main : IO Unit := serve handle
