import TenpyModel.Util.J
import TenpyModel.C12.Sites
import TenpyModel.C12.JW
open Lean TenpyModel TenpyModel.J
open TenpyModel.C12

/-! line protocol of the C12 model: one JSON object in, one JSON object out -/

def getRat (j : Json) : Except String Rat := do
  let a ← getArr j
  match a with
  | [n, d] => return mkRat (← getInt n) (← getNat d)
  | _ => throw "bad-rat"

def parseCons (j : Json) : Except String Cons := do
  if j.isNull then return .none
  let s ← getStr j
  if s == "None" then return .none
  else if s == "parity" then return .parity
  else if s == "dipole" then return .dipole
  else if s == "Sz" || s == "N" || s == "Z" then return .full
  else throw s!"bad-conserve {s}"

def parseSpec (j : Json) : Except String SiteSpec := do
  let cls ← getStr (← field j "cls")
  let cons := fieldD j "cons" Json.null
  let filling : Except String Rat := do getRat (fieldD j "filling" (Json.arr #[0, 1]))
  if cls == "spinHalf" then return .spinHalf (← parseCons cons)
  else if cls == "spin" then return .spin (← getNat (← field j "twoS")) (← parseCons cons)
  else if cls == "fermion" then return .fermion (← parseCons cons) (← filling)
  else if cls == "shFermion" then
    return .shFermion (← parseCons (fieldD j "consN" Json.null)) (← parseCons (fieldD j "consSz" Json.null)) (← filling)
  else if cls == "shHole" then
    return .shHole (← parseCons (fieldD j "consN" Json.null)) (← parseCons (fieldD j "consSz" Json.null)) (← filling)
  else if cls == "boson" then return .boson (← getNat (← field j "nmax")) (← parseCons cons) (← filling)
  else if cls == "clock" then return .clock (← getNat (← field j "q")) (← parseCons cons)
  else throw s!"bad-class {cls}"

def entryJson : Entry → Json
  | .sq s r im => if s == 0 then (0 : Int) else Json.arr #[s, r.num, (r.den : Nat), im]
  | .omega l => obj [("w", ofNatList l)]

def wordJson (w : Word) : Json := Json.str (" ".intercalate w)
def optStr : Option String → Json
  | some s => Json.str s
  | none => Json.null

def siteJson (s : SiteSpec) (sortCharge : Bool) : Json :=
  let d := siteDim s
  let perm := sitePerm s sortCharge
  let ops := (siteOps s).map (fun o =>
    (o.name, obj [("jw", o.needJW), ("hc", o.hc),
                  ("m", ofList (ofList entryJson) (tab d o.ent)),
                  ("q", ofIntList (opCharge s o)), ("qok", opChargeOk s o)]))
  obj [("dim", d), ("ops", obj ops), ("mod", ofNatList (siteMod s)),
       ("qnames", ofList Json.str (siteQNames s)),
       ("charges", ofList ofIntList ((List.range d).map (siteCharge s))),
       ("perm", ofNatList perm),
       ("labels", obj ((permutedLabels perm (siteLabels s)).map (fun (l, i) => (l, (i : Json))))),
       ("c2jw", match siteC2JW s with | some l => ofIntList l | none => Json.null)]

def parseWord (j : Json) : Except String Word := do return splitWS (← getStr j)
def parseSites (j : Json) : Except String JWSites := listOf (listOf getStr) j
def parseTerm (j : Json) : Except String (List (Word × Int)) :=
  listOf (fun t => do
    let a ← getArr t
    match a with
    | [o, i] => return (← parseWord o, ← getInt i)
    | _ => throw "bad-term") j
def termJson (t : List (Word × Int)) : Json := ofList (fun (p : Word × Int) => Json.arr #[wordJson p.1, p.2]) t
def parseOptStr (j : Json) : Except String (Option String) := optOf getStr j

def parseSubOp (j : Json) : Except String SubOp := do
  let a ← getArr j
  match a with
  | [n, jw, hc] => return ⟨← getStr n, ← getBool jw, ← parseOptStr hc⟩
  | _ => throw "bad-subop"

def parseCTerm (j : Json) : Except String CTerm := do
  let a ← getArr j
  match a with
  | [f, s, i] => return (← getInt f, ← getNat s, ← getNat i)
  | _ => throw "bad-cterm"

def handle (j : Json) : Except String Json := do
  let k ← getStr (← field j "k")
  if k == "site" then
    let s ← parseSpec j
    let sortCharge ← getBool (fieldD j "sort" true)
    return siteJson s sortCharge
  else if k == "needjw" then
    let njw ← listOf getStr (← field j "njw")
    let w ← parseWord (← field j "op")
    return obj [("need", opNeedsJW njw w)]
  else if k == "oc" then
    let sites ← parseSites (← field j "sites")
    let term ← parseTerm (← field j "term")
    let r := orderCombineTerm sites term
    return obj [("term", termJson r.1), ("sign", r.2)]
  else if k == "cjw" then
    let sites ← parseSites (← field j "sites")
    let term ← parseTerm (← field j "term")
    let os ← parseOptStr (fieldD j "op_string" Json.null)
    match term with
    | [ti, tj] =>
      match couplingHandleJW sites ti tj os with
      | .ok (i, jj, oi, oj, s) => return obj [("ok", Json.arr #[i, jj, wordJson oi, wordJson oj, s])]
      | .error e => return obj [("err", e)]
    | _ => throw "bad-coupling-term"
  else if k == "mjw" then
    let sites ← parseSites (← field j "sites")
    let term ← parseTerm (← field j "term")
    let os ← parseOptStr (fieldD j "op_string" Json.null)
    match multiHandleJW sites term os with
    | .ok (ijkl, ops, strs) =>
      return obj [("ok", Json.arr #[ofIntList ijkl, ofList wordJson ops, ofList Json.str strs])]
    | .error e => return obj [("err", e)]
  else if k == "t2o" then
    let sites ← parseSites (← field j "sites")
    let term ← parseTerm (← field j "term")
    let autoJW ← getBool (fieldD j "autoJW" true)
    let off ← getInt (fieldD j "i_offset" (0 : Int))
    let fr ← optOf getBool (fieldD j "from_right" false)
    let r := termToOpsList sites term autoJW off fr
    return obj [("ops", ofList (ofList wordJson) r.1), ("i_min", r.2.1), ("extra", r.2.2)]
  else if k == "corr" then
    let sites ← parseSites (← field j "sites")
    let ops1 ← listOf parseWord (← field j "ops1")
    let ops2 ← listOf parseWord (← field j "ops2")
    let s1 ← intList (← field j "sites1")
    let s2 ← intList (← field j "sites2")
    let sof ← getBool (fieldD j "str_on_first" true)
    match corrAutoJW sites ops1 ops2 s1 s2 sof with
    | .ok o => return obj [("ok", optStr o)]
    | .error e => return obj [("err", e)]
  else if k == "grouped" then
    let subs ← listOf (listOf parseSubOp) (← field j "subs")
    let labels ← listOf getStr (← field j "labels")
    let r := groupedOps subs labels
    return obj [("ops", ofList (fun (g : GOp) =>
      Json.arr #[g.name, g.needJW, optStr g.hc, ofList Json.str g.factors]) r)]
  else if k == "scc" then
    -- per site: names, mods, old flat charges, c2jw
    let names ← listOf (listOf (optOf getStr)) (← field j "names")
    let mods ← listOf natList (← field j "mods")
    let olds ← listOf (listOf intList) (← field j "charges")
    let c2 ← listOf (optOf intList) (← field j "c2jw")
    let pol := fieldD j "policy" Json.null
    let newCharges : List (List CTerm) ←
      match pol.getStr? with
      | .ok "same" => pure (commonSame names)
      | .ok "drop" => pure []
      | .ok "independent" => pure (commonIndependent (mods.map List.length))
      | .ok p => throw s!"bad-policy {p}"
      | .error _ => listOf (listOf parseCTerm) pol
    let newMod? : Option (List Nat) ←
      match (fieldD j "new_mod" Json.null) with
      | Json.null => pure (commonMod mods newCharges)
      | m => some <$> natList m
    match newMod? with
    | none => return obj [("err", "ValueError: different mod")]
    | some newMod =>
      let per := olds.zipIdx.map (fun (old, s) =>
        let ch := old.map (commonCharge newCharges newMod s)
        let perm := chargePerm ch.length (fun n => ch.getD n [])
        (perm, perm.map (fun n => ch.getD n [])))
      return obj [("new_charges", ofList (ofList (fun (t : CTerm) => Json.arr #[t.1, t.2.1, t.2.2])) newCharges),
                  ("mod", ofNatList newMod),
                  ("perms", ofList (fun p => ofNatList p.1) per),
                  ("charges", ofList (fun p => ofList ofIntList p.2) per),
                  ("c2jw", match commonC2JW c2 newCharges newMod with | some l => ofIntList l | none => Json.null)]
  else throw s!"unknown kind {k}"

def main : IO Unit := serve handle
