import TenpyModel.Util.J
import TenpyModel.C14.Accounting
import TenpyModel.Gen.C14Trotter
/-!
Line-protocol driver of C14 (run interpreted: `lake env lean --run drivers/C14.lean`).

  {"k":"tables"}
      -> {"orders":[name…],"nts":[…],"zeroGuard":b,"symbols":[src…],"variant":[b,b,b,b,b]}
  {"k":"sched","order":"4_opt","N":5,"syms":["p/q",…]}
      -> {"steps":[[j,par],…],"ts":["p/q",…],"time":[even,odd],"valid":b,"alt":b}
  {"k":"acct","kind":{"t":"tebd","order":"2","L":6,"finite":true} | {"t":"tdvp","nupd":9} | {"t":"mpo","nU":2},
   "td":b,"variant":null | [b,b,b,b,b],"start":{"time":[re,im],"eps":q,"ov":q},
   "calls":[{"N":n,"dt":[re,im],"errs":[[eps,ov],…]},…]}
      -> {"trace":[{"time":[re,im],"eps":q,"ov":q,"left":n},…],"expected":[n,…],"updates":[[[j,bond],…],…]}

Rationals travel as strings "p/q" (or "p").
-/
open Lean TenpyModel TenpyModel.J
open TenpyModel.C14

def parseRat (s : String) : Except String Rat := do
  let parts := s.splitOn "/"
  let toI (t : String) : Except String Int :=
    match t.trimAscii.toString.toInt? with
    | some i => pure i
    | none => throw s!"bad-rational {s}"
  match parts with
  | [p] => return ((← toI p : Int) : Rat)
  | [p, q] =>
    let qi ← toI q
    if qi ≤ 0 then throw s!"bad-rational {s}" else return mkRat (← toI p) qi.toNat
  | _ => throw s!"bad-rational {s}"

def getRat (j : Json) : Except String Rat := do
  match j with
  | .str s => parseRat s
  | _ => return ((← getInt j : Int) : Rat)

def ratStr (r : Rat) : String := if r.den == 1 then s!"{r.num}" else s!"{r.num}/{r.den}"
def ofRat (r : Rat) : Json := Json.str (ratStr r)

def findTable (name : String) : Except String OrderTable :=
  match Gen.C14.tables.find? (fun t => t.name == name) with
  | some t => pure t
  | none => throw s!"unknown-order {name}"

def getCTime (j : Json) : Except String CTime := do
  match ← getArr j with
  | [a, b] => return ⟨← getRat a, ← getRat b⟩
  | _ => throw "bad-time"

def getTErr (j : Json) : Except String TErr := do
  match ← getArr j with
  | [a, b] => return ⟨← getRat a, ← getRat b⟩
  | _ => throw "bad-err"

def getKind (j : Json) : Except String Kind := do
  let t ← getStr (← field j "t")
  if t == "tebd" then
    return .tebd (← findTable (← getStr (← field j "order"))) (← getNat (← field j "L")) (← getBool (← field j "finite"))
  else if t == "tdvp" then return .tdvp (← getNat (← field j "nupd"))
  else if t == "mpo" then return .expMPO (← getNat (← field j "nU"))
  else throw s!"unknown-kind {t}"

def getVariant (j : Json) : Except String Variant := do
  if j.isNull then return Gen.C14.variant
  match ← listOf getBool j with
  | [a, b, c, d, e] => return ⟨a, b, c, d, e⟩
  | _ => throw "bad-variant"

def getCall (j : Json) : Except String Call := do
  return ⟨← getNat (← field j "N"), ← getCTime (← field j "dt"), ← listOf getTErr (← field j "errs")⟩

def pairJson (p : Nat × Nat) : Json := Json.arr #[p.1, p.2]

def updatesOf (k : Kind) (td : Bool) (N : Nat) : List (Nat × Nat) :=
  match k with
  | .tebd tab L fin =>
    if td then (List.replicate N (tebdUpdates tab L fin 1)).flatten else tebdUpdates tab L fin N
  | _ => []

def handle (j : Json) : Except String Json := do
  let k ← getStr (← field j "k")
  if k == "tables" then
    let v := Gen.C14.variant
    return obj [("orders", ofList (fun (t : OrderTable) => Json.str t.name) Gen.C14.tables),
                ("nts", ofNatList (Gen.C14.tables.map (·.timeSteps.length))),
                ("zeroGuard", Gen.C14.zeroGuard),
                ("symbols", ofList Json.str Gen.C14.symbolSources),
                ("variant", ofList (fun (b : Bool) => (b : Json))
                  [v.baseEvolveAdds, v.tdvpEvolveAdds, v.tebdEvolveAdds, v.runEvolutionAdds, v.tdRunEvolutionAdds])]
  else if k == "sched" then
    let t ← findTable (← getStr (← field j "order"))
    let N ← getNat (← field j "N")
    let syms ← listOf getRat (← field j "syms")
    let ts : List Rat := t.timeSteps.map (CExpr.eval (fun i => syms.getD i 0))
    let d := decomposition t N
    return obj [("steps", ofList pairJson d), ("ts", ofList ofRat ts),
                ("time", ofList ofRat [bondTime ts 0 d, bondTime ts 1 d]),
                ("valid", stepsValid t.timeSteps.length d), ("alt", alternates d)]
  else if k == "acct" then
    let kind ← getKind (← field j "kind")
    let td ← getBool (← field j "td")
    let v ← getVariant (fieldD j "variant" Json.null)
    let st ← field j "start"
    let e0 : Eng := ⟨← getCTime (← field st "time"), ⟨← getRat (← field st "eps"), ← getRat (← field st "ov")⟩⟩
    let calls ← listOf getCall (← field j "calls")
    let tr := runTrace v kind td e0 calls
    return obj [("trace", ofList (fun (p : Eng × Nat) =>
                    obj [("time", ofList ofRat [p.1.time.re, p.1.time.im]), ("eps", ofRat p.1.terr.eps),
                         ("ov", ofRat p.1.terr.ov), ("left", p.2)]) tr),
                ("expected", ofNatList (calls.map (fun c => expectedCount kind td c.N))),
                ("updates", ofList (fun (c : Call) => ofList pairJson (updatesOf kind td c.N)) calls)]
  else throw s!"unknown kind {k}"

def main : IO Unit := serve handle
