import TenpyModel.Util.J
import TenpyModel.C03.Calls
import TenpyModel.C03.ExtNet
open Lean TenpyModel TenpyModel.J
open TenpyModel.C03

/-! line protocol for C03: one history per line.
in : {"cy": bool, "steps": [[call, …], …]}  with call = {"name", "a":[…], "g":[…], "n":[…], "l":[[…]], "b":[…], "res": "a"|"g"|"t"|"-"}
     "a" entries: i ≥ 0 live tensor #i (in creation order), i < 0 temporary #(-1-i) of the current step; "g": live leg #i
out: {"steps": [{"arrs": [fingerprint of every live tensor], "legs": [fingerprint of every live leg]}, …]}
fingerprints consist of tagged cell addresses (5*ref + store). -/

structure DSt where
  h    : Heap := {}
  amap : List Ref := []
  lmap : List Ref := []

def tagB (r : Ref) : Nat := 5 * r
def tagLB (r : Ref) : Nat := 5 * r + 1
def tagL (r : Ref) : Nat := 5 * r + 2
def tagG (r : Ref) : Nat := 5 * r + 3

def fpLeg (h : Heap) (l : Ref) : Json :=
  let L := h.leg l
  Json.arr #[tagG l, tagLB L.slices, tagLB L.charges, ofNatList (L.sub.map tagG)]

def fpArr (h : Heap) (a : Ref) : Json :=
  let A := h.arr a
  obj [("legs_list", tagL A.legs), ("legs", ofList (fpLeg h) (h.list A.legs)), ("qtotal", tagB A.qtotal),
       ("labels", tagB A.labels), ("data", tagL A.data), ("blocks", ofNatList ((h.list A.data).map tagB)),
       ("qdata", tagB A.qdata), ("nq", (h.buf A.qdata).length), ("keys", ofNatList (h.buf A.qdata))]

def intsOf (j : Json) : Except String (List Int) := listOf getInt j

def parseArgs (st : DSt) (tmps : List Ref) (j : Json) : Except String Args := do
  let a ← intsOf (fieldD j "a" (Json.arr #[]))
  let g ← natList (fieldD j "g" (Json.arr #[]))
  let n ← natList (fieldD j "n" (Json.arr #[]))
  let l ← listOf natList (fieldD j "l" (Json.arr #[]))
  let b ← listOf getBool (fieldD j "b" (Json.arr #[]))
  let a' ← a.mapM fun i =>
    if i ≥ 0 then match st.amap[i.toNat]? with
      | some r => pure r
      | none => throw s!"unknown tensor {i}"
    else match tmps[(-1 - i).toNat]? with
      | some r => pure r
      | none => throw s!"unknown temporary {i}"
  let g' ← g.mapM fun i => match st.lmap[i]? with
      | some r => pure r
      | none => throw s!"unknown leg {i}"
  return { a := a', g := g', n := n, l := l, b := b }

def doStep (cy : Bool) (st : DSt) (calls : List Json) : Except String DSt := do
  let mut st := st
  let mut tmps : List Ref := []
  for c in calls do
    let name ← getStr (← field c "name")
    let x ← parseArgs st tmps c
    let cn ← match CN.ofString name with
      | some c => pure c
      | none => throw s!"unknown call {name}"
    let (s, r) := callSt cy { h := st.h } cn x
    let res ← getStr (fieldD c "res" (Json.str "-"))
    st := { st with h := s.h }
    if res == "a" then st := { st with amap := st.amap ++ [r] }
    else if res == "g" then st := { st with lmap := st.lmap ++ [r] }
    else if res == "t" then tmps := tmps ++ [r]
  return st

def handle (j : Json) : Except String Json := do
  let cy ← getBool (← field j "cy")
  let steps ← getArr (← field j "steps")
  let mut st : DSt := {}
  let mut outs : Array Json := #[]
  for sj in steps do
    let calls ← getArr sj
    st ← doStep cy st calls
    outs := outs.push (obj [("arrs", ofList (fpArr st.h) st.amap), ("legs", ofList (fpLeg st.h) st.lmap)])
  return obj [("steps", Json.arr outs)]

/-! ## extension: network level (`"net": true`), model `TenpyModel.C03.ExtNet`

in : {"net": true, "cy": bool, "steps": [{"op": …, …}, …]}   — one step = one real call (or one edit by the caller)
out: {"steps": [{"res": …, "arrs": […], "tls": […], "ss": […], "sls": […], "vls": […], "mps": […], "mpo": […]}, …]}
Registered objects are addressed by their index in creation order: tensors ("a"), tensor lists ("tl"), singular value
arrays ("s"), lists of those ("sl"), value lists ("vl"), MPS ("p"), MPO ("H"). After every step the tensors / arrays
stored in the registered MPS and MPO that are not registered yet are registered in a fixed scan order (the harness
does the same scan on the real objects). -/

structure NSt where
  n    : Net := {}
  amap : List Ref := []
  tlm  : List Ref := []
  sm   : List Ref := []
  slm  : List Ref := []
  vlm  : List Ref := []
  pm   : List Ref := []
  om   : List Ref := []
  -- import maps: harness cell id -> reference (bufs, lbufs, lists, legs)
  bmap  : List (Nat × Ref) := []
  lbmap : List (Nat × Ref) := []
  lsmap : List (Nat × Ref) := []
  gmap  : List (Nat × Ref) := []

def tagA (r : Ref) : Nat := 5 * r + 4

def lk (m : List Ref) (what : String) (i : Nat) : Except String Ref :=
  match m[i]? with
  | some r => pure r
  | none => throw s!"unknown {what} {i}"

def optNat (j : Json) : Except String (Option Nat) := optOf getNat j

def parseForm? (j : Json) : Except String Form := do
  if j.isNull then return none
  let l ← listOf optNat j
  return some (l.getD 0 none, l.getD 1 none)

def parseTr (j : Json) : Except String TrHint := do
  let ok ← getBool (fieldD j "ok" (Json.bool true))
  let perm ← natList (fieldD j "perm" (Json.arr #[]))
  let keys ← natList (fieldD j "keys" (Json.arr #[]))
  let vf ← natList (fieldD j "vf" (Json.arr #[]))
  return { ok := ok, perm := perm, keys := keys, vf := vf }

def parseRawArgs (j : Json) : Except String Args := do
  let n ← natList (fieldD j "n" (Json.arr #[]))
  let l ← listOf natList (fieldD j "l" (Json.arr #[]))
  let b ← listOf getBool (fieldD j "b" (Json.arr #[]))
  return { n := n, l := l, b := b }

/-- allocate / look up an imported cell -/
def impCell (m : List (Nat × Ref)) (id : Nat) (next : Nat) : (List (Nat × Ref)) × Ref × Bool :=
  match m.lookup id with
  | some r => (m, r, false)
  | none => (m ++ [(id, next)], next, true)

def importLeg (st : NSt) (j : Json) : Except String NSt := do
  let id ← getNat (← field j "id")
  if (st.gmap.lookup id).isSome then return st
  let sl ← getNat (← field j "sl")
  let ch ← getNat (← field j "ch")
  let sub ← natList (fieldD j "sub" (Json.arr #[]))
  let qconj ← getInt (← field j "qconj")
  let sorted ← getBool (← field j "sorted")
  let bunched ← getBool (← field j "bunched")
  let mut st := st
  let mut h := st.n.h
  let (m1, rs, new1) := impCell st.lbmap sl h.lbufs.length
  if new1 then h := { h with lbufs := h.lbufs ++ [[sl]] }
  let (m2, rc, new2) := impCell m1 ch h.lbufs.length
  if new2 then h := { h with lbufs := h.lbufs ++ [[ch]] }
  let subs ← sub.mapM fun s => match st.gmap.lookup s with
    | some r => pure r
    | none => throw s!"import: unknown sub leg {s}"
  let g := h.legs.length
  h := { h with legs := h.legs ++ [{ slices := rs, charges := rc, qconj := qconj, sorted := sorted, bunched := bunched, sub := subs }] }
  st := { st with n := { st.n with h := h }, lbmap := m2, gmap := st.gmap ++ [(id, g)] }
  return st

def importArr (st : NSt) (j : Json) : Except String NSt := do
  let legsList ← getNat (← field j "legs_list")
  let legs ← natList (← field j "legs")
  let qtotal ← getNat (← field j "qtotal")
  let labels ← getNat (← field j "labels")
  let data ← getNat (← field j "data")
  let blocks ← natList (← field j "blocks")
  let qdata ← getNat (← field j "qdata")
  let keys ← natList (← field j "keys")
  let dtype ← getNat (← field j "dtype")
  let qsorted ← getBool (← field j "qsorted")
  let mut h := st.n.h
  let mut bm := st.bmap
  let mut lm := st.lsmap
  let legRefs ← legs.mapM fun s => match st.gmap.lookup s with
    | some r => pure r
    | none => throw s!"import: unknown leg {s}"
  let (lm1, rLegs, n1) := impCell lm legsList h.lists.length
  lm := lm1
  if n1 then h := { h with lists := h.lists ++ [legRefs] }
  let (bm1, rQt, n2) := impCell bm qtotal h.bufs.length
  bm := bm1
  if n2 then h := { h with bufs := h.bufs ++ [[qtotal]] }
  let (bm2, rLab, n3) := impCell bm labels h.bufs.length
  bm := bm2
  if n3 then h := { h with bufs := h.bufs ++ [[labels]] }
  let (bm3, rQd, n4) := impCell bm qdata h.bufs.length
  bm := bm3
  if n4 then h := { h with bufs := h.bufs ++ [keys] }
  let mut blkRefs : List Ref := []
  for b in blocks do
    let (bm4, rb, n5) := impCell bm b h.bufs.length
    bm := bm4
    if n5 then h := { h with bufs := h.bufs ++ [[b]] }
    blkRefs := blkRefs ++ [rb]
  let (lm2, rData, n6) := impCell lm data h.lists.length
  lm := lm2
  if n6 then h := { h with lists := h.lists ++ [blkRefs] }
  let a := h.arrs.length
  h := { h with arrs := h.arrs ++ [{ legs := rLegs, qtotal := rQt, labels := rLab, data := rData, qdata := rQd,
                                      dtype := dtype, qsorted := qsorted }] }
  return { st with n := { st.n with h := h }, bmap := bm, lsmap := lm, amap := st.amap ++ [a] }

def resJson (st : NSt) (kind : String) : Res → Json
  | .none_ => obj [("none", Json.bool true)]
  | .err c => obj [("err", c)]
  | .ok r =>
    let idx (m : List Ref) : Json := match m.findIdx? (· == r) with
      | some i => (i : Nat)
      | none => Json.null
    if kind == "a" then obj [("a", idx st.amap)]
    else if kind == "s" then obj [("s", idx st.sm)]
    else if kind == "p" then obj [("p", idx st.pm)]
    else if kind == "H" then obj [("H", idx st.om)]
    else obj [("v", r)]

/-- register unseen tensors / singular value arrays stored in the registered MPS and MPO (fixed scan order) -/
def scan (st : NSt) : NSt := Id.run do
  let mut st := st
  for p in st.pm do
    let P := st.n.mpsO p
    for b in st.n.tlist P.B do
      if !st.amap.contains b then st := { st with amap := st.amap ++ [b] }
    for s in st.n.slist P.S do
      match s with
      | some r => if !st.sm.contains r then st := { st with sm := st.sm ++ [r] }
      | none => pure ()
  for H in st.om do
    for w in st.n.tlist (st.n.mpoO H).W do
      if !st.amap.contains w then st := { st with amap := st.amap ++ [w] }
  return st

def tagS (r : Ref) : Nat := 7 * r + 1
def tagTL (r : Ref) : Nat := 7 * r + 2
def tagSL (r : Ref) : Nat := 7 * r + 3
def tagVL (r : Ref) : Nat := 7 * r + 4

def fpArrN (h : Heap) (a : Ref) : Json :=
  let A := h.arr a
  obj [("id", tagA a), ("legs_list", tagL A.legs), ("legs", ofList (fpLeg h) (h.list A.legs)), ("qtotal", tagB A.qtotal),
       ("labels", tagB A.labels), ("data", tagL A.data), ("blocks", ofNatList ((h.list A.data).map tagB)),
       ("qdata", tagB A.qdata), ("nq", (h.buf A.qdata).length), ("keys", ofNatList (h.buf A.qdata)), ("dtype", A.dtype)]

def fpTL (n : Net) (r : Ref) : Json := obj [("id", tagTL r), ("items", ofNatList ((n.tlist r).map tagA))]
def fpSL (n : Net) (r : Ref) : Json :=
  obj [("id", tagSL r), ("items", ofList (fun (s : Option Ref) => match s with | some x => (tagS x : Json) | none => Json.null) (n.slist r))]
def fpVL (n : Net) (r : Ref) : Json := obj [("id", tagVL r), ("vals", ofNatList (n.vlist r))]
def fpS (n : Net) (r : Ref) : Json := obj [("id", tagS r), ("vals", ofNatList (n.sbuf r))]

def fpMps (n : Net) (p : Ref) : Json :=
  let P := n.mpsO p
  obj [("B", fpTL n P.B), ("S", fpSL n P.S), ("form", fpVL n P.form), ("sites", fpVL n P.sites), ("bc", P.bc), ("dtype", P.dtype)]
def fpMpo (n : Net) (H : Ref) : Json :=
  let O := n.mpoO H
  obj [("W", fpTL n O.W), ("IdL", fpVL n O.IdL), ("IdR", fpVL n O.IdR), ("sites", fpVL n O.sites), ("bc", O.bc), ("dtype", O.dtype)]

def parseIdArg (st : NSt) (j : Json) : Except String IdArg := do
  if j.isNull then return .none_
  match (j.getObjVal? "list").toOption with
  | some l => return .list (← lk st.vlm "value list" (← getNat l))
  | none => return .scalar (← getNat (← field j "scalar"))

def netStep (cy : Bool) (st : NSt) (j : Json) : Except String (NSt × Json) := do
  let op ← getStr (← field j "op")
  let nat (k : String) : Except String Nat := do getNat (← field j k)
  let int (k : String) : Except String Int := do getInt (← field j k)
  let bool (k : String) : Except String Bool := do getBool (← field j k)
  let n := st.n
  if op == "import" then
    let mut st := st
    for l in ← getArr (fieldD j "legs" (Json.arr #[])) do st ← importLeg st l
    for a in ← getArr (fieldD j "arrs" (Json.arr #[])) do st ← importArr st a
    return (st, resJson st "-" .none_)
  else if op == "arr" then
    let ds : DSt := { h := n.h, amap := st.amap }
    let ds ← doStep cy ds (← getArr (← field j "calls"))
    let st := { st with n := { n with h := ds.h }, amap := ds.amap }
    return (st, resJson st "-" .none_)
  else if op == "mk_tl" then
    let items ← (← natList (← field j "items")).mapM (lk st.amap "tensor")
    let st := { st with n := { n with tl := n.tl ++ [items] }, tlm := st.tlm ++ [n.tl.length] }
    return (st, resJson st "-" .none_)
  else if op == "edit_tl" then
    let r ← lk st.tlm "tensor list" (← nat "tl")
    let item ← lk st.amap "tensor" (← nat "item")
    let st := { st with n := { n with tl := n.tl.set r ((n.tlist r).set (← nat "pos") item) } }
    return (st, resJson st "-" .none_)
  else if op == "mk_s" then
    let vals ← natList (← field j "vals")
    let st := { st with n := { n with sb := n.sb ++ [vals] }, sm := st.sm ++ [n.sb.length] }
    return (st, resJson st "-" .none_)
  else if op == "edit_s" then
    let r ← lk st.sm "array" (← nat "s")
    let st := { st with n := { n with sb := n.sb.set r (← natList (← field j "vals")) } }
    return (st, resJson st "-" .none_)
  else if op == "mk_sl" then
    let items ← (← listOf optNat (← field j "items")).mapM fun (x : Option Nat) => match x with
      | some i => do return some (← lk st.sm "array" i)
      | none => pure none
    let st := { st with n := { n with sl := n.sl ++ [items] }, slm := st.slm ++ [n.sl.length] }
    return (st, resJson st "-" .none_)
  else if op == "edit_sl" then
    let r ← lk st.slm "array list" (← nat "sl")
    let item ← match ← optNat (← field j "item") with
      | some i => do pure (some (← lk st.sm "array" i))
      | none => pure none
    let st := { st with n := { n with sl := n.sl.set r ((n.slist r).set (← nat "pos") item) } }
    return (st, resJson st "-" .none_)
  else if op == "mk_vl" then
    let st := { st with n := { n with vl := n.vl ++ [← natList (← field j "vals")] }, vlm := st.vlm ++ [n.vl.length] }
    return (st, resJson st "-" .none_)
  else if op == "edit_vl" then
    let r ← lk st.vlm "value list" (← nat "vl")
    let st := { st with n := { n with vl := n.vl.set r ((n.vlist r).set (← nat "pos") (← nat "val")) } }
    return (st, resJson st "-" .none_)
  else if op == "mps_init" then
    let sites ← natList (← field j "sites")
    let Bs ← lk st.tlm "tensor list" (← nat "Bs")
    let SVs ← lk st.slm "array list" (← nat "SVs")
    let fj ← field j "form"
    let form ← match (fj.getObjVal? "list").toOption with
      | some l => do pure (FormArg.list (← lk st.vlm "value list" (← getNat l)))
      | none => do pure (FormArg.one (← getNat (← field fj "one")))
    let ts ← listOf parseTr (fieldD j "ts" (Json.arr #[]))
    let (n', r) := mpsInit cy n sites Bs SVs (← nat "bc") form ts (← bool "sane")
    let st := { st with n := n' }
    let st := match r with | .ok p => { st with pm := st.pm ++ [p] } | _ => st
    let st := scan st
    return (st, resJson st "p" r)
  else if op == "mps_copy" then
    let (n', r) := mpsCopy cy n (← lk st.pm "MPS" (← nat "p")) (← getBool (fieldD j "sane" (Json.bool true)))
    let st := { st with n := n' }
    let st := match r with | .ok p => { st with pm := st.pm ++ [p] } | _ => st
    let st := scan st
    return (st, resJson st "p" r)
  else if op == "get_B" then
    let fit ← listOf getBool (fieldD j "fit" (Json.arr #[]))
    let (n', r) := getB cy n (← lk st.pm "MPS" (← nat "p")) (← int "i") (← parseForm? (← field j "form")) (← bool "copy") (← bool "label_p")
      (fit.getD 0 true) (fit.getD 1 true)
    let st := { st with n := n' }
    let st := match r with | .ok a => if st.amap.contains a then st else { st with amap := st.amap ++ [a] } | _ => st
    return (st, resJson st "a" r)
  else if op == "set_B" then
    let (n', r) := setB cy n (← lk st.pm "MPS" (← nat "p")) (← int "i") (← lk st.amap "tensor" (← nat "B")) (← parseForm? (← field j "form")) (← parseTr (fieldD j "t" (Json.mkObj [])))
    let st := scan { st with n := n' }
    return (st, resJson st "-" r)
  else if op == "get_S" then
    let r := getS n (← lk st.pm "MPS" (← nat "p")) (← int "i") (← bool "left")
    return (st, resJson st "s" r)
  else if op == "set_S" then
    let s ← match ← optNat (← field j "s") with
      | some i => do pure (some (← lk st.sm "array" i))
      | none => pure none
    let (n', r) := setS n (← lk st.pm "MPS" (← nat "p")) (← int "i") (← bool "left") s
    let st := scan { st with n := n' }
    return (st, resJson st "-" r)
  else if op == "mps_enlarge" then
    let (n', r) := mpsEnlarge n (← lk st.pm "MPS" (← nat "p")) (← int "factor") (← getBool (fieldD j "sane" (Json.bool true)))
    let st := scan { st with n := n' }
    return (st, resJson st "-" r)
  else if op == "mps_roll" then
    let (n', r) := mpsRoll n (← lk st.pm "MPS" (← nat "p")) (← int "shift")
    let st := scan { st with n := n' }
    return (st, resJson st "-" r)
  else if op == "mpo_init" then
    let sites ← natList (← field j "sites")
    let Ws ← lk st.tlm "tensor list" (← nat "Ws")
    let (n', r) := mpoInit cy n sites Ws (← nat "bc") (← parseIdArg st (← field j "IdL")) (← parseIdArg st (← field j "IdR")) (← bool "sane")
    let st := { st with n := n' }
    let st := match r with | .ok H => { st with om := st.om ++ [H] } | _ => st
    let st := scan st
    return (st, resJson st "H" r)
  else if op == "mpo_copy" then
    let (n', r) := mpoCopy n (← lk st.om "MPO" (← nat "H"))
    let st := { st with n := n' }
    let st := match r with | .ok H => { st with om := st.om ++ [H] } | _ => st
    let st := scan st
    return (st, resJson st "H" r)
  else if op == "get_W" then
    let (n', r) := getW cy n (← lk st.om "MPO" (← nat "H")) (← int "i") (← bool "copy")
    let st := { st with n := n' }
    let st := match r with | .ok a => if st.amap.contains a then st else { st with amap := st.amap ++ [a] } | _ => st
    return (st, resJson st "a" r)
  else if op == "set_W" then
    let (n', r) := setW n (← lk st.om "MPO" (← nat "H")) (← int "i") (← lk st.amap "tensor" (← nat "W"))
    let st := scan { st with n := n' }
    return (st, resJson st "-" r)
  else if op == "get_Id" then
    let r := getIdLR n (← lk st.om "MPO" (← nat "H")) (← int "i") (← bool "left")
    return (st, resJson st "v" r)
  else if op == "edit_Id" then
    let (n', r) := editId n (← lk st.om "MPO" (← nat "H")) (← bool "left") (← nat "b") (← nat "v")
    return ({ st with n := n' }, resJson st "-" r)
  else if op == "mpo_enlarge" then
    let (n', r) := mpoEnlarge n (← lk st.om "MPO" (← nat "H")) (← int "factor") (← getBool (fieldD j "sane" (Json.bool true)))
    let st := scan { st with n := n' }
    return (st, resJson st "-" r)
  else if op == "mpo_sort" then
    let hs ← listOf (fun h => do
      let tr ← parseRawArgs (← field h "tr")
      let fr ← parseRawArgs (← field h "fresh")
      let axes ← natList (← field h "axes")
      return ({ tr := tr, fresh := fr, axes := axes } : SortHint)) (← field j "hs")
    let perms ← listOf natList (← field j "perms")
    let (n', r) := mpoSort cy n (← lk st.om "MPO" (← nat "H")) hs perms
    let st := scan { st with n := n' }
    return (st, resJson st "-" r)
  else throw s!"unknown net op {op}"

def fpNet (st : NSt) (res : Json) : Json :=
  let n := st.n
  obj [("res", res), ("arrs", ofList (fpArrN n.h) st.amap), ("tls", ofList (fpTL n) st.tlm), ("ss", ofList (fpS n) st.sm),
       ("sls", ofList (fpSL n) st.slm), ("vls", ofList (fpVL n) st.vlm), ("mps", ofList (fpMps n) st.pm),
       ("mpo", ofList (fpMpo n) st.om)]

def handleNet (j : Json) : Except String Json := do
  let cy ← getBool (← field j "cy")
  let steps ← getArr (← field j "steps")
  let mut st : NSt := {}
  let mut outs : Array Json := #[]
  for sj in steps do
    let (st', res) ← netStep cy st sj
    st := st'
    outs := outs.push (fpNet st res)
  return obj [("steps", Json.arr outs)]

def handleAll (j : Json) : Except String Json :=
  match (j.getObjVal? "net").toOption with
  | some _ => handleNet j
  | none => handle j

def main : IO Unit := serve handleAll
