import TenpyModel.Util.J
import TenpyModel.C03.Calls
open Lean TenpyModel TenpyModel.J
open TenpyModel.C03

/-! line protocol for C03: one history per line.
in : {"cy": bool, "steps": [[call, …], …]}  with call = {"name", "a":[…], "g":[…], "n":[…], "l":[[…]], "b":[…], "res": "a"|"g"|"t"|"-"}
     "a" entries: i ≥ 0 live tensor #i (in creation order), i < 0 temporary #(-1-i) of the current step; "g": live leg #i
out: {"steps": [{"arrs": [fingerprint of every live tensor], "legs": [fingerprint of every live leg]}, …]}
fingerprints consist of tagged cell addresses (5*ref + store). -/

structure DSt where
  h    : Heap := {}
  amap : List Ref := []
  lmap : List Ref := []

def tagB (r : Ref) : Nat := 5 * r
def tagLB (r : Ref) : Nat := 5 * r + 1
def tagL (r : Ref) : Nat := 5 * r + 2
def tagG (r : Ref) : Nat := 5 * r + 3

def fpLeg (h : Heap) (l : Ref) : Json :=
  let L := h.leg l
  Json.arr #[tagG l, tagLB L.slices, tagLB L.charges, ofNatList (L.sub.map tagG)]

def fpArr (h : Heap) (a : Ref) : Json :=
  let A := h.arr a
  obj [("legs_list", tagL A.legs), ("legs", ofList (fpLeg h) (h.list A.legs)), ("qtotal", tagB A.qtotal),
       ("labels", tagB A.labels), ("data", tagL A.data), ("blocks", ofNatList ((h.list A.data).map tagB)),
       ("qdata", tagB A.qdata), ("nq", (h.buf A.qdata).length), ("keys", ofNatList (h.buf A.qdata))]

def intsOf (j : Json) : Except String (List Int) := listOf getInt j

def parseArgs (st : DSt) (tmps : List Ref) (j : Json) : Except String Args := do
  let a ← intsOf (fieldD j "a" (Json.arr #[]))
  let g ← natList (fieldD j "g" (Json.arr #[]))
  let n ← natList (fieldD j "n" (Json.arr #[]))
  let l ← listOf natList (fieldD j "l" (Json.arr #[]))
  let b ← listOf getBool (fieldD j "b" (Json.arr #[]))
  let a' ← a.mapM fun i =>
    if i ≥ 0 then match st.amap[i.toNat]? with
      | some r => pure r
      | none => throw s!"unknown tensor {i}"
    else match tmps[(-1 - i).toNat]? with
      | some r => pure r
      | none => throw s!"unknown temporary {i}"
  let g' ← g.mapM fun i => match st.lmap[i]? with
      | some r => pure r
      | none => throw s!"unknown leg {i}"
  return { a := a', g := g', n := n, l := l, b := b }

def doStep (cy : Bool) (st : DSt) (calls : List Json) : Except String DSt := do
  let mut st := st
  let mut tmps : List Ref := []
  for c in calls do
    let name ← getStr (← field c "name")
    let x ← parseArgs st tmps c
    let cn ← match CN.ofString name with
      | some c => pure c
      | none => throw s!"unknown call {name}"
    let (s, r) := callSt cy { h := st.h } cn x
    let res ← getStr (fieldD c "res" (Json.str "-"))
    st := { st with h := s.h }
    if res == "a" then st := { st with amap := st.amap ++ [r] }
    else if res == "g" then st := { st with lmap := st.lmap ++ [r] }
    else if res == "t" then tmps := tmps ++ [r]
  return st

def handle (j : Json) : Except String Json := do
  let cy ← getBool (← field j "cy")
  let steps ← getArr (← field j "steps")
  let mut st : DSt := {}
  let mut outs : Array Json := #[]
  for sj in steps do
    let calls ← getArr sj
    st ← doStep cy st calls
    outs := outs.push (obj [("arrs", ofList (fpArr st.h) st.amap), ("legs", ofList (fpLeg st.h) st.lmap)])
  return obj [("steps", Json.arr outs)]

def main : IO Unit := serve handle
