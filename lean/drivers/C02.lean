import TenpyModel.Core.Codec
import TenpyModel.C02.Struct
/-! Line protocol for C02: one JSON step description in, the structure model's result out. -/
open Lean TenpyModel TenpyModel.J TenpyModel.Core TenpyModel.Core.Codec TenpyModel.C02

def natListList := listOf natList
def boolList := listOf getBool

def pipeOfJson (j : Json) : Except String Pipe := do
  return { leg := ← legOfJson (← field j "leg"), legs := ← listOf legOfJson (← field j "legs"),
           qMap := ← natListList (← field j "q_map"), qMapSlices := ← natList (← field j "q_map_slices"),
           perm := ← optOf natList (← field j "perm"), strides := ← natList (← field j "strides") }

def legSOfJson (j : Json) : Except String LegS := do
  let pj := fieldD j "pipe" Json.null
  if pj.isNull then return .plain (← legOfJson (← field j "leg"))
  else return .pipe (← pipeOfJson pj)

def legSToJson : LegS → Json
  | .plain l => obj [("leg", legToJson l), ("pipe", Json.null)]
  | .pipe p => obj [("leg", legToJson p.leg), ("pipe", pipeToJson p)]

def arrOfJson (j : Json) : Except String ArrS := do
  return { legs := ← listOf legSOfJson (← field j "legs"), qtotal := ← intList (← field j "qtotal"),
           qdata := ← natListList (← field j "qdata"), sorted := ← getBool (← field j "sorted") }

def arrToJson (a : ArrS) : Json :=
  obj [("legs", ofList legSToJson a.legs), ("qtotal", ofIntList a.qtotal),
       ("qdata", ofList ofNatList a.qdata), ("sorted", a.sorted)]

def optInt (j : Json) (k : String) : Except String (Option Int) := optOf getInt (fieldD j k Json.null)
def optIntList (j : Json) (k : String) : Except String (Option (List Int)) := optOf intList (fieldD j k Json.null)
def optNatList' (j : Json) (k : String) : Except String (Option (List Nat)) := optOf natList (fieldD j k Json.null)

inductive Res where
  | err
  | scalar
  | one (a : ArrS)
  | two (a b : ArrS)

def resOfOpt : Option ArrS → Res
  | none => .err
  | some a => .one a
def resOfOpt2 : Option (Option ArrS) → Res
  | none => .err
  | some none => .scalar
  | some (some a) => .one a
def resOfPair : Option (ArrS × ArrS) → Res
  | none => .err
  | some (a, b) => .two a b

def resToJson (ins : List ArrS) : Res → Json
  | .err => obj [("res", Json.null), ("wf_in", ofList (fun (a : ArrS) => (decide a.WF : Json)) ins)]
  | .scalar => obj [("res", "scalar"), ("wf_in", ofList (fun (a : ArrS) => (decide a.WF : Json)) ins)]
  | .one a => obj [("res", arrToJson a), ("wf_res", decide a.WF),
                   ("wf_in", ofList (fun (a : ArrS) => (decide a.WF : Json)) ins)]
  | .two a b => obj [("res", arrToJson a), ("b", arrToJson b), ("wf_res", decide a.WF && decide b.WF),
                     ("wf_in", ofList (fun (a : ArrS) => (decide a.WF : Json)) ins)]

def handle (j : Json) : Except String Json := do
  let op ← getStr (← field j "op")
  let cy ← getBool (fieldD j "cy" (Json.bool false))
  let getA : Except String ArrS := do arrOfJson (← field j "a")
  let getB : Except String ArrS := do arrOfJson (← field j "b")
  match op with
  | "wf" => let a ← getA; return resToJson [a] (.one a)
  | "zeros" =>
    return resToJson [] (resOfOpt (zeros (← listOf legSOfJson (← field j "legs")) (← optIntList j "qtotal")))
  | "from_func" =>
    return resToJson [] (resOfOpt (fromFunc (← listOf legSOfJson (← field j "legs")) (← optIntList j "qtotal")))
  | "diag" => return resToJson [] (.one (diag (← legSOfJson (← field j "leg"))))
  | "copy" => let a ← getA; return resToJson [a] (.one a.copy)
  | "zeros_like" => let a ← getA; return resToJson [a] (.one a.zerosLike)
  | "itranspose" => let a ← getA; return resToJson [a] (resOfOpt (a.itranspose (← optIntList j "axes")))
  | "iswapaxes" =>
    let a ← getA
    return resToJson [a] (resOfOpt (a.iswapaxes (← getInt (← field j "i")) (← getInt (← field j "j"))))
  | "conj" => let a ← getA; return resToJson [a] (.one a.conj)
  | "take_slice" =>
    let a ← getA
    return resToJson [a] (resOfOpt (a.takeSlice (← intList (← field j "indices")) (← intList (← field j "axes"))))
  | "add_trivial_leg" =>
    let a ← getA
    return resToJson [a] (.one (a.addTrivialLeg (← getInt (← field j "axis")) (← getInt (← field j "qconj"))))
  | "squeeze" => let a ← getA; return resToJson [a] (resOfOpt2 (a.squeeze (← optIntList j "axes")))
  | "isort_qdata" => let a ← getA; return resToJson [a] (.one a.isortQdata)
  | "ipurge_zeros" => let a ← getA; return resToJson [a] (.one (a.ipurgeZeros (← boolList (← field j "keep"))))
  | "iscale_prefactor" =>
    let a ← getA; return resToJson [a] (.one (a.iscalePrefactor (← getBool (← field j "zero"))))
  | "setitem" => let a ← getA; return resToJson [a] (resOfOpt (a.setItem (← intList (← field j "idx"))))
  | "add_leg" =>
    let a ← getA
    return resToJson [a] (resOfOpt (a.addLeg (← legSOfJson (← field j "leg")) (← getInt (← field j "i"))
      (← getInt (← field j "axis")) (← boolList (← field j "nz"))))
  | "flip_leg" => let a ← getA; return resToJson [a] (resOfOpt (a.flipLeg (← getNat (← field j "k"))))
  | "charge_map" =>
    let a ← getA
    let kind ← getStr (← field j "kind")
    if kind == "scale" then
      return resToJson [a] (.one (a.applyChargeMapping (ArrS.scaleMap a.mods (← getInt (← field j "k")))))
    else
      let pairs ← listOf natList (← field j "pairs")
      let ps := pairs.map (fun p => (p.getD 0 0, p.getD 1 0))
      return resToJson [a] (.one (a.applyChargeMapping (ArrS.shiftMap a.mods ps (← getInt (← field j "dx")))))
  | "extend" =>
    let a ← getA
    return resToJson [a] (resOfOpt (a.extend (← getInt (← field j "axis")) (← legOfJson (← field j "extra"))))
  | "gauge" =>
    let a ← getA
    return resToJson [a] (resOfOpt (a.gaugeTotalCharge (← getInt (← field j "axis")) (← optIntList j "newq")
      (← optInt j "qconj")))
  | "iproject" =>
    let a ← getA
    return resToJson [a] (resOfOpt (a.iproject (← listOf boolList (← field j "masks")) (← intList (← field j "axes"))))
  | "permute" =>
    let a ← getA
    return resToJson [a] (resOfOpt (a.permute (← natList (← field j "perm")) (← getInt (← field j "axis"))))
  | "add_charge" =>
    let a ← getA
    return resToJson [a] (resOfOpt (a.addCharge (← listOf legOfJson (← field j "legs")) (← intList (← field j "q2"))
      (← boolList (← field j "nz"))))
  | "drop_charge" =>
    let a ← getA
    match ← optOf getNat (fieldD j "k" Json.null) with
    | some k => return resToJson [a] (resOfOpt (a.dropCharge k))
    | none => return resToJson [a] (.one (a.dropChargeAll (← boolList (← field j "nz"))))
  | "change_charge" =>
    let a ← getA
    return resToJson [a] (resOfOpt (a.changeCharge (← getNat (← field j "k")) (← getNat (← field j "mod"))))
  | "ibinary" =>
    let a ← getA; let b ← getB
    return resToJson [a, b] (resOfPair (a.ibinary b (← optNatList' j "perm")))
  | "iadd" =>
    let a ← getA; let b ← getB
    return resToJson [a, b] (resOfPair (ArrS.iaddPrefactorOther cy a b (← optNatList' j "perm") (← getBool (← field j "zero"))))
  | "combine" =>
    let a ← getA
    return resToJson [a] (resOfOpt (a.combineLegs (← natListList (← field j "groups")) (← optIntList j "new_axes")
      (← listOf (optOf getInt) (← field j "qconjs"))))
  | "combine_pipes" =>
    let a ← getA
    return resToJson [a] (resOfOpt (a.combineGivenPipes (← natListList (← field j "groups")) (← optIntList j "new_axes")
      (← listOf pipeOfJson (← field j "pipes"))))
  | "make_pipe" =>
    let legs ← listOf legOfJson (← field j "legs")
    let p := Pipe.init legs (← getInt (← field j "qconj")) (← getBool (← field j "sort")) (← getBool (← field j "bunch"))
    return obj [("pipe", pipeToJson p), ("res", Json.null), ("wf_in", Json.arr #[])]
  | "sort_legcharge" =>
    let a ← getA
    return resToJson [a] (resOfOpt (a.sortLegcharge (← boolList (← field j "sort")) (← boolList (← field j "bunch"))))
  | "split" => let a ← getA; return resToJson [a] (resOfOpt (a.splitLegs (← optIntList j "axes")))
  | "concatenate" =>
    let arrs ← listOf arrOfJson (← field j "arrs")
    return resToJson arrs (resOfOpt (concatenate arrs (← getInt (← field j "axis"))))
  | "outer" => let a ← getA; let b ← getB; return resToJson [a, b] (resOfOpt (outer a b))
  | "tensordot" =>
    let a ← getA; let b ← getB
    let ax ← field j "axes"
    match ax.getNat? with
    | .ok n => return resToJson [a, b] (resOfOpt2 (tensordot cy a b (.inl n)))
    | .error _ =>
      let l ← getArr ax
      match l with
      | [x, y] => return resToJson [a, b] (resOfOpt2 (tensordot cy a b (.inr (← intList x, ← intList y))))
      | _ => throw "tensordot: bad axes"
  | "trace" =>
    let a ← getA
    return resToJson [a] (resOfOpt2 (trace a (← getInt (← field j "l1")) (← getInt (← field j "l2"))))
  | _ => throw s!"unknown op {op}"

def main : IO Unit := serve handle
