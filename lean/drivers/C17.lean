import TenpyModel.Util.J
import TenpyModel.C17.Graph
import TenpyModel.C17.Legs
open Lean TenpyModel TenpyModel.J
open TenpyModel.C17

def parseKind (s : String) : Except String Kind :=
  match s with
  | "leaf" => pure .leaf | "list" => pure .list | "tuple" => pure .tuple | "set" => pure .set
  | "dictS" => pure .dictS | "dictG" => pure .dictG | "inst" => pure .inst | "reduce" => pure .reduce
  | "other" => pure .other
  | _ => throw s!"bad kind {s}"

def kindStr : Kind → String
  | .leaf => "leaf" | .list => "list" | .tuple => "tuple" | .set => "set" | .dictS => "dictS"
  | .dictG => "dictG" | .inst => "inst" | .reduce => "reduce" | .other => "other"

def parseName (j : Json) : Except String C17.Name :=
  match j.getNat? with
  | .ok n => pure (.idx n)
  | .error _ => do return .key (← getStr j)

def nameJson : C17.Name → Json
  | .idx i => Json.num (JsonNumber.fromNat i)
  | .key s => Json.str s

def parseKid (j : Json) : Except String (C17.Name × Nat) := do
  match ← getArr j with
  | [n, c] => return (← parseName n, ← getNat c)
  | _ => throw "bad kid"

def parseNode (j : Json) : Except String Node := do
  let kind ← parseKind (← getStr (← field j "kind"))
  let info ← getStr (fieldD j "info" (Json.str ""))
  let early ← getBool (fieldD j "early" (Json.bool false))
  let len ← getNat (fieldD j "len" (Json.num 0))
  let kids ← listOf parseKid (← field j "kids")
  return ⟨⟨kind, info, early, len⟩, kids⟩

def nodeJson (n : Node) : Json :=
  obj [("kind", Json.str (kindStr n.label.kind)), ("info", Json.str n.label.info), ("early", Json.bool n.label.early),
       ("len", Json.num (JsonNumber.fromNat n.label.len)),
       ("kids", ofList (fun (k : C17.Name × Nat) => Json.arr #[nameJson k.1, Json.num (JsonNumber.fromNat k.2)]) n.kids)]

def graphJson : Option (Graph × Nat) → Json
  | none => Json.null
  | some (g, r) => obj [("nodes", ofList nodeJson g), ("root", Json.num (JsonNumber.fromNat r))]

def rowsOf (j : Json) : Except String (List (List Int)) := listOf intList j
def rowsJson (r : List (List Int)) : Json := ofList ofIntList r

def parseLeg (j : Json) : Except String Leg := do
  return ⟨← getInt (← field j "ind_len"), ← getNat (← field j "block_number"), ← intList (← field j "slices"),
          ← rowsOf (← field j "charges"), ← getInt (← field j "qconj"), ← getBool (← field j "sorted"),
          ← getBool (← field j "bunched")⟩

def legJson (l : Leg) : Json :=
  obj [("ind_len", Json.num (JsonNumber.fromInt l.indLen)), ("block_number", Json.num (JsonNumber.fromNat l.blockNumber)),
       ("slices", ofIntList l.slices), ("charges", rowsJson l.charges), ("qconj", Json.num (JsonNumber.fromInt l.qconj)),
       ("sorted", Json.bool l.sorted), ("bunched", Json.bool l.bunched)]

def legFileJson : LegFile → Json
  | .blocks il qc bn s b sl ch =>
    obj [("format", "blocks"), ("ind_len", Json.num (JsonNumber.fromInt il)), ("qconj", Json.num (JsonNumber.fromInt qc)),
         ("block_number", Json.num (JsonNumber.fromNat bn)), ("sorted", Json.bool s), ("bunched", Json.bool b),
         ("slices", ofIntList sl), ("charges", rowsJson ch)]
  | .compact il qc bn s b bc =>
    obj [("format", "compact"), ("ind_len", Json.num (JsonNumber.fromInt il)), ("qconj", Json.num (JsonNumber.fromInt qc)),
         ("block_number", Json.num (JsonNumber.fromNat bn)), ("sorted", Json.bool s), ("bunched", Json.bool b),
         ("blockcharges", rowsJson bc)]
  | .flat il qc ch =>
    obj [("format", "flat"), ("ind_len", Json.num (JsonNumber.fromInt il)), ("qconj", Json.num (JsonNumber.fromInt qc)),
         ("charges", rowsJson ch)]

def optJson (f : α → Json) : Option α → Json
  | none => Json.null
  | some a => f a

def handle (j : Json) : Except String Json := do
  let k ← getStr (← field j "k")
  if k == "graph" then
    let g ← listOf parseNode (← field j "nodes")
    let r ← getNat (← field j "root")
    let s := save g r
    let l := match s with
      | none => none
      | some (f, fr) => load f fr
    return obj [("file", graphJson s), ("loaded", graphJson l), ("wf", Json.bool (wfB g))]
  else if k == "leg" then
    let l ← parseLeg (← field j "leg")
    let fmt ← getStr (← field j "fmt")
    let q ← getNat (← field j "qnumber")
    let f := l.encode fmt
    return obj [("file", optJson legFileJson f), ("decoded", optJson legJson (f.bind (LegFile.decode q))),
                ("qflat", rowsJson l.toQflat)]
  else if k == "chinfo" then
    let c : ChargeInfo := ⟨← intList (← field j "mod"), ← listOf getStr (← field j "names")⟩
    let rest := fieldD j "dipolar" Json.null
    if rest.isNull then
      let r := ChargeInfo.decode c.encode
      return obj [("num_charges", Json.num (JsonNumber.fromNat c.encode.numCharges)),
                  ("decoded", optJson (fun (c : ChargeInfo) => obj [("mod", ofIntList c.mod), ("names", ofList Json.str c.names)]) r)]
    else
      match ← listOf natList rest with
      | [a, b, d] =>
        let r := DipolarInfo.decode (DipolarInfo.encode ⟨c, a, b, d⟩)
        return obj [("decoded", optJson (fun (x : DipolarInfo) =>
          obj [("mod", ofIntList x.base.mod), ("names", ofList Json.str x.base.names),
               ("dipolar", ofList ofNatList [x.chargeIdcs, x.dipoleIdcs, x.dipoleDims])]) r)]
      | _ => throw "bad dipolar"
  else throw s!"unknown kind {k}"

def main : IO Unit := serve handle
