import TenpyModel.Util.J
import TenpyModel.C13.Sweep
open Lean TenpyModel TenpyModel.J
open TenpyModel.C13

def ofBool (b : Bool) : Json := Json.bool b

def ofSched (s : List (Nat × Bool × (Bool × Bool))) : Json :=
  ofList (fun (x : Nat × Bool × (Bool × Bool)) => Json.arr #[x.1, ofBool x.2.1, ofBool x.2.2.1, ofBool x.2.2.2]) s

/-- stored parts as `[[index, age], …]` -/
def ofStore (l : List (Option EnvPart)) : Json :=
  ofList (fun (x : Nat × Option EnvPart) => match x.2 with
    | some p => Json.arr #[x.1, p.age]
    | none => Json.null) ((List.range l.length).zip l |>.filter (fun x => x.2.isSome))

def ofLog (l : StepLog) (e : Env) : Json :=
  obj [("i0", l.i0), ("mr", ofBool l.moveRight), ("lenL", l.readLP.deps.length), ("lenR", l.readRP.deps.length),
       ("freshL", l.freshL), ("freshR", l.freshR), ("ageL", l.readLP.age), ("ageR", l.readRP.age),
       ("depsL", ofNatList ((l.readLP.deps.take l.freshL).map (·.1))),
       ("depsR", ofNatList ((l.readRP.deps.take l.freshR).map (·.1))),
       ("lp", ofStore e.lp), ("rp", ofStore e.rp), ("ver", ofNatList e.ver)]

/-- run the schedule step by step, reporting the state after every step -/
def trace (n : Nat) : Env → List (Nat × Bool × (Bool × Bool)) → List Json → Except String (Env × List Json)
  | e, [], acc => pure (e, acc.reverse)
  | e, st :: sts, acc =>
    match step n e st with
    | none => throw s!"environment missing at i0={st.1}"
    | some (e', l) => trace n e' sts (ofLog l e' :: acc)

def traceSweeps (n : Nat) : Nat → Env → List Json → Except String (List Json)
  | 0, _, acc => pure acc
  | k + 1, e, acc => do
    let (e', js) ← trace n e (Gen.schedule e.finite e.L n) []
    traceSweeps n k e' (acc ++ js)

def handle (j : Json) : Except String Json := do
  let k ← getStr (← field j "k")
  let L ← getNat (← field j "L")
  let n ← getNat (← field j "n")
  let finite ← getBool (← field j "finite")
  if k == "schedule" then
    return obj [("schedule", ofSched (Gen.schedule finite L n))]
  else if k == "sweeps" then
    let ns ← getNat (← field j "nsweeps")
    let ageL ← getNat (fieldD j "ageL" (0 : Nat))
    let ageR ← getNat (fieldD j "ageR" (0 : Nat))
    let steps ← traceSweeps n ns (Env.init L finite ageL ageR) []
    return obj [("steps", Json.arr steps.toArray)]
  else throw s!"unknown kind {k}"

def main : IO Unit := serve handle
