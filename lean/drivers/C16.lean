import TenpyModel.Util.J
import TenpyModel.C16.Lanczos
open Lean TenpyModel TenpyModel.J
open TenpyModel.C16

/-! Line protocol of the C16 model.  Rationals travel as integers or strings "p/q". -/

def parseRatStr (s : String) : Except String Rat :=
  match s.splitOn "/" with
  | [a] => match a.toInt? with
    | some n => pure (n : Rat)
    | none => throw s!"bad rational {s}"
  | [a, b] => match a.toInt?, b.toNat? with
    | some n, some d => if d = 0 then throw "zero denominator" else pure (mkRat n d)
    | _, _ => throw s!"bad rational {s}"
  | _ => throw s!"bad rational {s}"

def getRat (j : Json) : Except String Rat :=
  match j with
  | .str s => parseRatStr s
  | _ => do let n ← j.getInt?; pure (n : Rat)

def ofRat (r : Rat) : Json :=
  if r.den = 1 then Json.num (JsonNumber.fromInt r.num) else Json.str s!"{r.num}/{r.den}"

def ratList := listOf getRat
def vecList := listOf ratList
def ofVec (v : Vec) : Json := ofList ofRat v
def ofVecs (vs : List Vec) : Json := ofList ofVec vs

/-- square root: exact when numerator and denominator are perfect squares, else the floor of
`sqrt x * 2^p` divided by `2^p` (absolute error < 2^-p). -/
def sqApprox (p : Nat) (x : Rat) : Rat :=
  if x ≤ 0 then 0 else
  let n := x.num.toNat
  let d := x.den
  let sn := Nat.sqrt n
  let sd := Nat.sqrt d
  if sn * sn = n ∧ sd * sd = d then mkRat sn sd
  else mkRat (Nat.sqrt (n * 4 ^ p / d)) (2 ^ p)

/-- round down to a multiple of `2^-p` -/
def rndP (p : Nat) (x : Rat) : Rat := mkRat ((x.num * (2 ^ p : Nat)) / (x.den : Int)) (2 ^ p)

partial def parseOp (ar : Arith) (j : Json) : Except String Op := do
  match j.getObjVal? "mat" with
  | .ok m => return .mat (← vecList m)
  | .error _ =>
  match j.getObjVal? "shift" with
  | .ok a => match ← getArr a with
    | [o, s] => return .shift (← parseOp ar o) (← getRat s)
    | _ => throw "bad shift"
  | .error _ =>
  match j.getObjVal? "ortho" with
  | .ok a => match ← getArr a with
    | [o, vs, rc] => return .ortho (← parseOp ar o) (gramSchmidt ar (← getRat rc) (← vecList vs))
    | _ => throw "bad ortho"
  | .error _ =>
  match j.getObjVal? "sum" with
  | .ok a => match ← getArr a with
    | [x, y] => return .sum (← parseOp ar x) (← parseOp ar y)
    | _ => throw "bad sum"
  | .error _ => throw "bad op"

def parseOpts (j : Json) : Except String Opts := do
  return { nMin := ← getNat (← field j "N_min"), nMax := ← getNat (← field j "N_max"),
           nCache := ← getNat (← field j "N_cache"), reortho := ← getBool (← field j "reortho"),
           cutoff := ← getRat (← field j "cutoff") }

def handle (j : Json) : Except String Json := do
  let k ← getStr (← field j "k")
  let p ← getNat (fieldD j "prec" (200 : Nat))
  let exact ← getBool (fieldD j "exact" false)
  let ar : Arith := { sq := sqApprox p, rnd := if exact then id else rndP p }
  if k == "lanczos" || k == "evo" then
    let H ← parseOp ar (← field j "H")
    let psi0 ← ratList (← field j "psi0")
    let o ← parseOpts (← field j "opts")
    let esh ← optOf getRat (fieldD j "E_shift" Json.null)
    let nsteps ← getNat (← field j "nsteps")
    let vf ← ratList (← field j "vf")
    let conv : Nat → List Rat → List Rat → Bool := fun k _ _ => k + 1 == nsteps
    if k == "lanczos" then
      let E ← getRat (← field j "E")
      match runGS H ar o esh conv (fun _ _ _ => (E, vf)) psi0 with
      | none => return obj [("raise", "psi0-norm-too-small")]
      | some r => return obj [("N", r.N), ("E0", ofRat r.E0), ("psi", ofVec r.psi),
                              ("alphas", ofVec r.alphas), ("betas", ofVec r.betas)]
    else
      let rn ← getRat (← field j "rn")
      let nz ← getBool (← field j "normalize")
      match runEvo H ar o esh conv (fun _ _ _ => (vf, rn)) nz psi0 with
      | none => return obj [("raise", "psi0-norm-too-small")]
      | some (psi, N) => return obj [("N", N), ("psi", ofVec psi)]
  else if k == "arnoldi" then
    let H ← parseOp ar (← field j "H")
    let psi0 ← ratList (← field j "psi0")
    let nMin ← getNat (← field j "N_min")
    let nMax ← getNat (← field j "N_max")
    let cutoff ← getRat (← field j "cutoff")
    let nsteps ← getNat (← field j "nsteps")
    let vfs ← vecList (← field j "vfs")
    let (N, s) := arnoldiBuild H.apply ar nMin nMax cutoff (fun k _ => k + 1 == nsteps) psi0
    let psis := if N = 1 then [normalize ar (ar.sq (dot psi0 psi0)) psi0]
                else vfs.map (fun vf => arnoldiResult ar vf s.cache)
    return obj [("N", N), ("cols", ofVecs s.cols), ("psis", ofVecs psis)]
  else if k == "gmres" then
    let H ← parseOp ar (← field j "H")
    let x ← ratList (← field j "x")
    let b ← ratList (← field j "b")
    let n ← getNat (← field j "n")
    let (x', errs) := gmresCycle H.apply ar n x b
    return obj [("x", ofVec x'), ("errs", ofVec errs)]
  else if k == "gs" then
    let vecs ← vecList (← field j "vecs")
    let rc ← getRat (← field j "rcond")
    return obj [("vecs", ofVecs (gramSchmidt ar rc vecs))]
  else if k == "op" then
    let H ← parseOp ar (← field j "H")
    let v ← ratList (← field j "v")
    return obj [("v", ofVec (H.apply v))]
  else throw s!"unknown kind {k}"

def main : IO Unit := serve handle
