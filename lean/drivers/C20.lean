import TenpyModel.Util.J
import TenpyModel.C20.Events
open Lean TenpyModel TenpyModel.J
open TenpyModel.C20

def parseEvOp (j : Json) : Except String Events.Op := do
  let a ← getArr j
  match a with
  | [t, cb, p] => if (← getStr t) == "connect" then return .connect (← getNat cb) (← getInt p) else throw "bad-op"
  | [t, x] =>
    let s ← getStr t
    if s == "disconnect" then return .disconnect (← getNat x)
    else if s == "emit_until" then return .emitUntil (← natList x)
    else throw "bad-op"
  | [t] => if (← getStr t) == "emit" then return .emit else throw "bad-op"
  | _ => throw "bad-op"

def evOut : Events.Out → Json
  | .unit => Json.null
  | .warned w => obj [("warned", w)]
  | .called cbs => obj [("called", ofNatList cbs)]

def handle (j : Json) : Except String Json := do
  let k ← getStr (← field j "k")
  if k == "events" then
    let ops ← listOf parseEvOp (← field j "ops")
    let r := Events.run Events.init ops
    return obj [("outs", ofList evOut r.2),
                ("listeners", ofList (fun (l : Events.Listener) => Json.arr #[l.id, l.cb, l.prio]) r.1.listeners),
                ("counter", r.1.counter)]
  else throw s!"unknown kind {k}"

def main : IO Unit := serve handle
