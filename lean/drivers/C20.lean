import TenpyModel.Util.J
import TenpyModel.C20.Events
import TenpyModel.C20.Cache
import TenpyModel.C20.Threaded
open Lean TenpyModel TenpyModel.J
open TenpyModel.C20

/-! ## events -/

def parseEvOp (j : Json) : Except String Events.Op := do
  let a ← getArr j
  match a with
  | [t, cb, p] => if (← getStr t) == "connect" then return .connect (← getNat cb) (← getInt p) else throw "bad-op"
  | [t, x] =>
    let s ← getStr t
    if s == "disconnect" then return .disconnect (← getNat x)
    else if s == "emit_until" then return .emitUntil (← natList x)
    else throw "bad-op"
  | [t] => if (← getStr t) == "emit" then return .emit else throw "bad-op"
  | _ => throw "bad-op"

def evOut : Events.Out → Json
  | .unit => Json.null
  | .warned w => obj [("warned", w)]
  | .called cbs => obj [("called", ofNatList cbs)]

/-! ## sequential cache: ops are `[cache id, name, args..]` -/

def parseCacheOp (j : Json) : Except String (Nat × Cache.Op) := do
  let a ← getArr j
  match a with
  | c :: t :: args =>
    let c ← getNat c
    let s ← getStr t
    match s, args with
    | "set", [k, v] => return (c, .set (← getNat k) (← getNat v))
    | "get", [k] => return (c, .get (← getNat k))
    | "getitem", [k] => return (c, .getitem (← getNat k))
    | "del", [k] => return (c, .del (← getNat k))
    | "contains", [k] => return (c, .contains (← getNat k))
    | "len", [] => return (c, .len)
    | "iter", [] => return (c, .iter)
    | "stk", [ks] => return (c, .setShortTermKeys (← natList ks))
    | "preload", [ks, r] => return (c, .preload (← natList ks) (← getBool r))
    | "sub", [n] => return (c, .createSubcache (← getNat n))
    | "close", [] => return (c, .close)
    | "bool", [] => return (c, .isOpen)
    | _, _ => throw s!"bad cache op {s}"
  | _ => throw "bad cache op"

def errName : Cache.Err → String
  | .keyError => "KeyError"
  | .closed => "closed"
  | .alreadyClosed => "alreadyClosed"
  | .subExists => "subExists"
  | .missing => "missing"
  | .badCache => "badCache"

def insertSorted (x : Nat) : List Nat → List Nat
  | [] => [x]
  | y :: ys => if x ≤ y then x :: y :: ys else y :: insertSorted x ys

def sortNat (l : List Nat) : List Nat := l.foldr insertSorted []

def cacheOut : Cache.Out → Json
  | .unit => Json.null
  | .val none => obj [("val", Json.null)]
  | .val (some v) => obj [("val", v)]
  | .bool b => obj [("bool", b)]
  | .nat n => obj [("nat", n)]
  | .keys l => obj [("keys", ofNatList (sortNat l))]
  | .sub c => obj [("sub", c)]
  | .err e => obj [("err", errName e)]

def scallJson : Cache.SCall → Json
  | .load c k => Json.arr #[0, c, k]
  | .preload c k => Json.arr #[1, c, k]
  | .save c k v => Json.arr #[2, c, k, v]
  | .delete c k => Json.arr #[3, c, k]
  | .close => Json.arr #[4]

/-- run the sequential model, returning outputs and the storage calls of every operation -/
def runCache (s : Cache.Sys) : List (Nat × Cache.Op) → List Cache.Out × List (List Cache.SCall)
  | [] => ([], [])
  | (i, op) :: ops =>
    let cs := Cache.calls s i op
    let r := Cache.step s i op
    let rs := runCache r.1 ops
    (r.2 :: rs.1, cs :: rs.2)

/-! ## threaded storage -/

/-- keys of container `c` are `16 * c + k` in the threaded model -/
def encKey (c k : Nat) : Nat := 16 * c + k

def parseCall (j : Json) : Except String Threaded.Call := do
  let a ← natList j
  match a with
  | [0, k] => return .load k
  | [1, k] => return .preload k
  | [2, k, v] => return .save k v
  | [3, k] => return .delete k
  | _ => throw "bad call"

def scallToCall : Cache.SCall → List Threaded.Call
  | .load c k => [.load (encKey c k)]
  | .preload c k => [.preload (encKey c k)]
  | .save c k v => [.save (encKey c k) v]
  | .delete c k => [.delete (encKey c k)]
  | .close => []

def tid (n : Nat) : Threaded.Tid := if n == 0 then .main else .worker

def outJson : Threaded.Out → Json
  | .ret none => Json.null
  | .ret (some v) => obj [("val", v)]
  | .err .workerDied => obj [("err", "WorkerDied")]
  | .err .assertion => obj [("err", "AssertionError")]

def threadedRun (prog : List Threaded.Call) (maxsize : Nat) (failAt : Option Nat) (sched : List Nat) : Json :=
  let s0 := Threaded.init prog maxsize failAt
  let r := Threaded.trace (sched.map tid) s0 []
  let s := r.1
  obj [("trace", ofList (fun (x : Threaded.Lab × Bool × Bool) =>
          Json.arr #[ofNatList x.1, x.2.1, x.2.2]) r.2.1),
       ("ok", r.2.2),
       ("outs", ofList outJson s.outs.reverse),
       ("main_enabled", Threaded.enabled .main s),
       ("worker_enabled", Threaded.enabled .worker s),
       ("main_done", decide (s.mpc = .done)),
       ("worker_dead", decide (s.wpc = .dead)),
       ("next_main", ofNatList (Threaded.labelMain s)),
       ("next_worker", ofNatList (Threaded.labelWorker s)),
       ("reads_ok", s.reads.all (fun x => match x.2.2 with | none => true | some a => a == x.2.1)),
       ("queue_len", s.queue.length),
       ("unfinished", s.unfinished)]

def handle (j : Json) : Except String Json := do
  let k ← getStr (← field j "k")
  if k == "events" then
    let ops ← listOf parseEvOp (← field j "ops")
    let r := Events.run Events.init ops
    return obj [("outs", ofList evOut r.2),
                ("listeners", ofList (fun (l : Events.Listener) => Json.arr #[l.id, l.cb, l.prio]) r.1.listeners),
                ("counter", r.1.counter)]
  else if k == "cache" then
    let ops ← listOf parseCacheOp (← field j "ops")
    let uniq ← getBool (← field j "unique")
    let r := runCache (Cache.init ⟨uniq⟩) ops
    return obj [("outs", ofList cacheOut r.1), ("calls", ofList (ofList scallJson) r.2)]
  else if k == "threaded" then
    let prog ← listOf parseCall (← field j "prog")
    let maxsize ← getNat (← field j "maxsize")
    let failAt ← optOf getNat (fieldD j "failAt" Json.null)
    let sched ← natList (← field j "sched")
    return threadedRun prog maxsize failAt sched
  else if k == "tcache" then
    -- DictCache ops over a ThreadedStorage: sequential model gives outputs and storage calls,
    -- the calls are the program of the threaded model
    let ops ← listOf parseCacheOp (← field j "ops")
    let maxsize ← getNat (← field j "maxsize")
    let failAt ← optOf getNat (fieldD j "failAt" Json.null)
    let sched ← natList (← field j "sched")
    let r := runCache (Cache.init ⟨true⟩) ops
    let prog := (r.2.flatten).flatMap scallToCall
    return (threadedRun prog maxsize failAt sched).setObjVal! "seq_outs" (ofList cacheOut r.1)
      |>.setObjVal! "calls" (ofList (ofList scallJson) r.2)
  else throw s!"unknown kind {k}"

def main : IO Unit := serve handle
