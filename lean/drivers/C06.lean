import TenpyModel.Core.Codec
import TenpyModel.C06.ModelExt
open Lean TenpyModel TenpyModel.J TenpyModel.Core TenpyModel.Core.Codec

def boolList := listOf getBool

def optJ (f : α → Json) : Option α → Json
  | none => Json.null
  | some a => f a

def tripleOfJson (j : Json) : Except String (Nat × Nat × Nat) := do
  match ← natList j with
  | [a, b, c] => return (a, b, c)
  | _ => throw "triple expected"

/-- `[charge, start, stop]` -/
def qdEntryOfJson (j : Json) : Except String (Charge × Nat × Nat) := do
  match ← getArr j with
  | [c, b, e] => return (← intList c, ← getNat b, ← getNat e)
  | _ => throw "qdict entry expected"

def qdEntryToJson (e : Charge × Nat × Nat) : Json :=
  Json.arr #[ofIntList e.1, Json.num (JsonNumber.fromNat e.2.1), Json.num (JsonNumber.fromNat e.2.2)]

def sortJ (s : List Nat × Leg) : Json := obj [("perm", ofNatList s.1), ("leg", legToJson s.2)]
def bunchJ (b : List Nat × Leg) : Json := obj [("idx", ofNatList b.1), ("leg", legToJson b.2)]
def projectJ (pr : List Int × List (List Bool) × Leg) : Json :=
  obj [("map", ofIntList pr.1), ("masks", ofList (ofList (fun (x : Bool) => (x : Json))) pr.2.1), ("leg", legToJson pr.2.2)]

def optBool : Option Bool → Json
  | none => Json.null
  | some b => b

def handle (j : Json) : Except String Json := do
  let k ← getStr (← field j "k")
  if k == "pipe" then
    let legs ← listOf legOfJson (← field j "legs")
    let p := Pipe.init legs (← getInt (← field j "qconj")) (← getBool (← field j "sort")) (← getBool (← field j "bunch"))
    let idxs ← listOf intList (fieldD j "idx" (Json.arr #[]))
    let base := [("pipe", pipeToJson p), ("flat", ofList (fun i => optNat (p.mapIncomingFlat i)) idxs),
                ("qflat", ofCharges p.leg.toQflat), ("sane", p.leg.sane),
                ("conj", pipeToJson p.conj), ("outer_conj", pipeToJson p.outerConj)]
    -- conversions: `to_LegCharge`, and `sort` / `bunch` / `project`, which convert first
    let conv ← match (j.getObjVal? "psb").toOption with
      | none => pure []
      | some b => do
        let psb ← getBool b
        let mask ← boolList (← field j "pmask")
        let l := p.toLegCharge
        pure [("to_leg", legToJson l), ("psort", sortJ (l.sort psb)), ("pbunch", bunchJ l.bunch),
              ("pproject", projectJ (l.project mask))]
    let mp ← match (j.getObjVal? "dx").toOption with
      | none => pure []
      | some d => do
        let dx ← intList d
        let cd ← optOf (listOf tripleOfJson) (fieldD j "cd" Json.null)
        pure [("map", optJ pipeToJson (p.shift cd dx))]
    return obj (base ++ conv ++ mp)
  else if k == "leg" then
    let l ← legOfJson (← field j "leg")
    let mask ← boolList (← field j "mask")
    let extra ← legOfJson (← field j "extra")
    let gq ← intList (← field j "gq")
    let s1 := l.sort true
    let s0 := l.sort false
    let b := l.bunch
    let pr := l.project mask
    return obj [
      ("qflat", ofCharges l.toQflat), ("is_sorted", l.isSorted), ("is_bunched", l.isBunched),
      ("is_blocked", l.isBlocked), ("sane", l.sane),
      ("sort1", obj [("perm", ofNatList s1.1), ("leg", legToJson s1.2), ("pflat", ofNatList (l.permFlatFromPermQind s1.1))]),
      ("sort0", obj [("perm", ofNatList s0.1), ("leg", legToJson s0.2)]),
      ("bunch", obj [("idx", ofNatList b.1), ("leg", legToJson b.2)]),
      ("project", obj [("map", ofIntList pr.1), ("masks", ofList (ofList (fun (x : Bool) => (x : Json))) pr.2.1), ("leg", legToJson pr.2.2)]),
      ("extend", legToJson (l.extend extra)),
      ("conj", legToJson l.conj), ("flip", legToJson l.flipChargesQconj),
      ("contractible", l.testContractible l.conj), ("flip_equal", l.testEqual l.flipChargesQconj),
      ("gq", ofList (fun i => match l.getQindex i with
                      | none => Json.null
                      | some (a, b) => ofNatList [a, b]) gq)]
  else if k == "conv" then
    let l ← legOfJson (← field j "leg")
    let cd ← optOf (listOf tripleOfJson) (fieldD j "cd" Json.null)
    let dx ← intList (← field j "dx")
    -- from_trivial(n, chargeinfo or None, qconj)
    let t ← field j "trivial"
    let tmods := if (← getBool (← field t "ci")) then l.mods else []
    let triv := Leg.fromTrivial (← getNat (← field t "n")) tmods (← getInt (← field t "qconj"))
    -- from_qflat
    let qf ← field j "qflat"
    let qrows ← listOf intList (← field qf "rows")
    let qfq ← getInt (← field qf "qconj")
    let qfl : Option Leg :=
      if qrows.all (fun r => r.length == l.qnumber) then some (Leg.fromQflat l.mods qrows qfq)
      else none
    -- qdict
    let qde ← optOf (listOf qdEntryOfJson) (fieldD j "qd_entries" Json.null)
    let fromQd : Option Leg := qde.bind (fun es => Leg.fromQdict l.mods es l.qconj)
    -- add / drop / change
    let adds ← listOf legOfJson (← field j "adds")
    let drop ← optOf getNat (← field j "drop")
    let chg ← natList (← field j "change")
    let goc ← listOf intList (← field j "goc")
    let other ← legOfJson (← field j "other")
    let other2 ← legOfJson (← field j "other2")
    let raw ← field j "raw"
    let rawOk := Leg.ctorOk l.mods (← natList (← field raw "slices")) (← listOf intList (← field raw "charges"))
                   (← getInt (← field raw "qconj"))
    let eqs := obj [
      ("eq", optBool (l.eq? other)), ("ne", optBool ((l.eq? other).map (!·))),
      ("eq_copy", optBool (l.eq? l)), ("eq_conj", optBool (l.eq? l.conj)), ("eq2", optBool (l.eq? other2)),
      ("test_equal", optBool (if l.testEqual other then some true else none)),
      ("test_contractible", optBool (if l.testContractible other.conj then some true else none)),
      ("test_contractible_self", optBool (if l.testContractible l then some true else none))]
    return obj [
      ("trivial", legToJson triv), ("qflat", optJ legToJson qfl),
      ("to_qdict", optJ (ofList qdEntryToJson) l.toQdict), ("from_qdict", optJ legToJson fromQd),
      ("add", optJ legToJson (Leg.fromAddCharge (l :: adds))),
      ("drop", optJ legToJson (l.fromDropCharge drop)),
      ("change", optJ legToJson (l.fromChangeCharge (chg.getD 0 0) (chg.getD 1 1))),
      ("map", optJ legToJson (l.shift cd dx)),
      ("sectors", ofCharges l.chargeSectors),
      ("goc", ofList (fun c => optNat (l.getQindexOfCharges c)) goc),
      ("get_charge", ofCharges ((List.range l.blockNumber).map l.getCharge)),
      ("block_sizes", ofNatList l.blockSizes),
      ("get_slice", ofList (fun i => ofNatList [(l.getSlice i).1, (l.getSlice i).2]) (List.range l.blockNumber)),
      ("ext_int", legToJson (l.extendInt (← getNat (← field j "ext_n")))),
      ("eq", eqs), ("raw_ok", rawOk)]
  else throw s!"unknown kind {k}"

def main : IO Unit := serve handle
