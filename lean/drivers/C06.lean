import TenpyModel.Core.Codec
open Lean TenpyModel TenpyModel.J TenpyModel.Core TenpyModel.Core.Codec

def boolList := listOf getBool

def handle (j : Json) : Except String Json := do
  let k ← getStr (← field j "k")
  if k == "pipe" then
    let legs ← listOf legOfJson (← field j "legs")
    let p := Pipe.init legs (← getInt (← field j "qconj")) (← getBool (← field j "sort")) (← getBool (← field j "bunch"))
    let idxs ← listOf intList (fieldD j "idx" (Json.arr #[]))
    return obj [("pipe", pipeToJson p), ("flat", ofList (fun i => optNat (p.mapIncomingFlat i)) idxs),
                ("qflat", ofCharges p.leg.toQflat), ("sane", p.leg.sane),
                ("conj", pipeToJson p.conj), ("outer_conj", pipeToJson p.outerConj)]
  else if k == "leg" then
    let l ← legOfJson (← field j "leg")
    let mask ← boolList (← field j "mask")
    let extra ← legOfJson (← field j "extra")
    let gq ← intList (← field j "gq")
    let s1 := l.sort true
    let s0 := l.sort false
    let b := l.bunch
    let pr := l.project mask
    return obj [
      ("qflat", ofCharges l.toQflat), ("is_sorted", l.isSorted), ("is_bunched", l.isBunched),
      ("is_blocked", l.isBlocked), ("sane", l.sane),
      ("sort1", obj [("perm", ofNatList s1.1), ("leg", legToJson s1.2), ("pflat", ofNatList (l.permFlatFromPermQind s1.1))]),
      ("sort0", obj [("perm", ofNatList s0.1), ("leg", legToJson s0.2)]),
      ("bunch", obj [("idx", ofNatList b.1), ("leg", legToJson b.2)]),
      ("project", obj [("map", ofIntList pr.1), ("masks", ofList (ofList (fun (x : Bool) => (x : Json))) pr.2.1), ("leg", legToJson pr.2.2)]),
      ("extend", legToJson (l.extend extra)),
      ("conj", legToJson l.conj), ("flip", legToJson l.flipChargesQconj),
      ("contractible", l.testContractible l.conj), ("flip_equal", l.testEqual l.flipChargesQconj),
      ("gq", ofList (fun i => match l.getQindex i with
                      | none => Json.null
                      | some (a, b) => ofNatList [a, b]) gq)]
  else throw s!"unknown kind {k}"

def main : IO Unit := serve handle
