import TenpyModel.Util.J
import TenpyModel.C04.ExtKernels
import TenpyModel.C04.ExtSelect
open Lean TenpyModel TenpyModel.J
open TenpyModel.Core TenpyModel.C04Ext

/-! line protocol for the C04 extension part (the program stream of C04 itself goes through drivers/C01.lean).
in : {"op": <name>, …arguments…}     out: {"cy": …, "py": …[, "core": …]}  — the two coded forms of the helper and,
where it exists, the closed form of the Core model. -/

def chArgOfJson (j : Json) : Except String ChArg := do
  let k ← getStr (← field j "k")
  match k with
  | "none" => pure .none
  | "d0" => pure (.d0 (← getInt (← field j "x")))
  | "d1" => pure (.d1 (← intList (← field j "row")))
  | "d2" => pure (.d2 (← getNat (← field j "ncols")) (← listOf intList (← field j "rows")))
  | "dn" => pure (.dn (← getNat (← field j "ndim")))
  | _ => throw s!"bad charges argument {k}"

def chResToJson : Except KErr ChRes → Json
  | .error e => obj [("err", Json.str e.name)]
  | .ok (.d1 row) => obj [("d1", ofIntList row)]
  | .ok (.d2 n rows) => obj [("d2", ofList ofIntList rows), ("ncols", n)]

def optNatList (j : Json) : Except String (Option (List Nat)) := optOf natList j

def optVals : Option (Dense Int) → Json
  | none => Json.null
  | some d => ofIntList d.vals

def levelArgOfJson (j : Json) : Except String LevelArg :=
  if j.isNull then pure .none else
  match j.getStr? with
  | .ok s => pure (.str s)
  | .error _ => do pure (.int (← getInt j))

partial def progOfJson (j : Json) : Except String Prog := do
  let k ← getStr (← field j "k")
  match k with
  | "skip" => pure .skip
  | "set" => pure (.setLevel (← levelArgOfJson (← field j "a")))
  | "probe" => pure (.probe (← getNat (← field j "cmp")))
  | "raise" => pure .raise
  | "seq" => pure (.seq (← progOfJson (← field j "p")) (← progOfJson (← field j "q")))
  | "with" => pure (.withTemp (← levelArgOfJson (← field j "a")) (← progOfJson (← field j "body")))
  | _ => throw s!"bad program node {k}"

def errJson : Option KErr → Json
  | none => Json.null
  | some e => Json.str e.name

def docOfJson (j : Json) : Except String (Option (List String)) := optOf (listOf getStr) j

def envOfJson (j : Json) : Except String SelEnv := do
  let tbl ← (← getArr (← field j "table")).mapM fun e => do
    let l ← getArr e
    match l with
    | [n, d] => pure ((← getStr n), (← docOfJson d))
    | _ => throw "bad table entry"
  pure { noCython := ← getStr (← field j "no_cython"), importOK := ← getBool (← field j "import_ok"), table := tbl }

def callOfJson (j : Json) : Except String SelCall := do
  if (j.getObjVal? "set_level").toOption.isSome then
    pure (.setLevel (← levelArgOfJson (← field j "set_level")))
  else
    let env ← envOfJson (← field j "env")
    let d : Deco := { name := ← getStr (← field j "name"), doc := ← docOfJson (← field j "doc"),
                      replacement := ← optOf getStr (← field j "replacement"),
                      checkDoc := ← getBool (← field j "check_doc") }
    pure (.deco env d)

def selToJson : Except KErr Sel × Bool → Json
  | (.error e, w) => obj [("err", Json.str e.name), ("warned", w)]
  | (.ok .py, w) => obj [("sel", Json.str "py"), ("warned", w)]
  | (.ok (.cy n), w) => obj [("sel", Json.str "cy"), ("name", Json.str n), ("warned", w)]

def handle (j : Json) : Except String Json := do
  let op ← getStr (← field j "op")
  match op with
  | "make_valid" =>
      let mods ← natList (← field j "mods")
      let arg ← chArgOfJson (← field j "arg")
      return obj [("cy", chResToJson (makeValidCy mods arg)), ("py", chResToJson (makeValidPy mods arg)),
                  ("consistent", arg.consistent)]
  | "check_valid" =>
      let mods ← natList (← field j "mods")
      let rows ← listOf intList (← field j "rows")
      return obj [("cy", checkValidCy mods rows), ("py", checkValidPy mods rows),
                  ("core", rows.all (fun r => checkValid mods r))]
  | "find_row_differences" =>
      let M ← getNat (← field j "M")
      let rows ← listOf intList (← field j "rows")
      return obj [("cy", ofNatList (findRowDiffCy M rows)), ("py", ofNatList (findRowDiffPy M rows)),
                  ("core", ofNatList (findRowDifferences M rows))]
  | "map_blocks" =>
      let sizes ← natList (← field j "sizes")
      return obj [("cy", ofNatList (mapBlocksCy sizes)), ("py", ofNatList (mapBlocksPy sizes))]
  | "make_stride" =>
      let shape ← natList (← field j "shape")
      let c ← getBool (← field j "cstyle")
      let l := ofNatList (makeStrideLoop shape c)
      return obj [("cy", l), ("py", l), ("core", ofNatList (if c then makeStrideC shape else makeStrideF shape))]
  | "sliced_copy" =>
      let dest : Dense Int := ⟨← natList (← field j "dshape"), ← intList (← field j "dvals")⟩
      let src : Dense Int := ⟨← natList (← field j "sshape"), ← intList (← field j "svals")⟩
      let db ← optNatList (fieldD j "dbeg" Json.null)
      let sb ← optNatList (fieldD j "sbeg" Json.null)
      let sl ← natList (← field j "sl")
      return obj [("cy", optVals (slicedCopyCy dest db src sb sl)), ("py", optVals (slicedCopyPy dest db src sb sl))]
  | "level_prog" =>
      let l0 ← getNat (← field j "level0")
      let p ← progOfJson (← field j "prog")
      let st := p.run { level := l0 }
      let r := obj [("level", st.level), ("err", errJson st.err),
                    ("log", ofList (fun (x : Nat × Bool) => Json.arr #[x.1, x.2]) st.log)]
      return obj [("cy", r), ("py", r)]
  | "select" =>
      let l0 ← getNat (← field j "level0")
      let calls ← (← getArr (← field j "calls")).mapM callOfJson
      let (st, rs) := runCalls calls { level := l0 }
      let r := obj [("level", st.level), ("have", match st.hv with | none => Json.null | some b => Json.bool b),
                    ("results", ofList selToJson rs)]
      return obj [("cy", r), ("py", r)]
  | _ => throw s!"unknown op {op}"

def main : IO Unit := serve handle
