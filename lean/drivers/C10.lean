import TenpyModel.Util.J
import TenpyModel.Ops.Sym
import TenpyModel.Ops.Terms
import TenpyModel.Ops.Graph
import TenpyModel.Ops.GraphSpec
import TenpyModel.Ops.Bond
import TenpyModel.Ops.Model
import TenpyModel.Ops.Dense
import TenpyModel.C10.ExtMPO
import TenpyModel.C10.ExtOps
open Lean TenpyModel TenpyModel.J
open TenpyModel.Ops

/-! Line protocol of the C10 model (see harness/C10.py, harness/ops_common.py).
Coefficients travel as `[re, im]` with `re`, `im` integers or strings "p/q". -/

def parseRatStr (s : String) : Except String Rat :=
  match s.splitOn "/" with
  | [a] => match a.toInt? with
    | some n => pure (n : Rat)
    | none => throw s!"bad rational {s}"
  | [a, b] => match a.toInt?, b.toNat? with
    | some n, some d => if d = 0 then throw "zero denominator" else pure (mkRat n d)
    | _, _ => throw s!"bad rational {s}"
  | _ => throw s!"bad rational {s}"

def getRat (j : Json) : Except String Rat :=
  match j with
  | .str s => parseRatStr s
  | _ => do let n ← j.getInt?; pure (n : Rat)

def ofRat (r : Rat) : Json :=
  if r.den = 1 then Json.num (JsonNumber.fromInt r.num) else Json.str s!"{r.num}/{r.den}"

def getGQ (j : Json) : Except String GQ :=
  match j with
  | .arr a => match a.toList with
    | [x, y] => do return ⟨← getRat x, ← getRat y⟩
    | _ => throw "bad complex"
  | _ => do return ⟨← getRat j, 0⟩

def ofGQ (c : GQ) : Json := Json.arr #[ofRat c.re, ofRat c.im]

instance : Inhabited GQ := ⟨0⟩

def ofAtom : Atom → Json
  | .s v => Json.str v
  | .n v => Json.num (JsonNumber.fromInt v)

def ofKey : Key → Json
  | .str v => Json.str v
  | .tup l => ofList ofAtom l

def ofSited (t : SitedStr) : Json := ofList (fun (p : Int × String) => Json.arr #[Json.num (JsonNumber.fromInt p.1), Json.str p.2]) t
def ofCanon (s : List (SitedStr × GQ)) : Json := ofList (fun (p : SitedStr × GQ) => Json.arr #[ofSited p.1, ofGQ p.2]) s

def ofTermList (t : TermList GQ) : Json :=
  ofList (fun (p : List (String × Int) × GQ) =>
    Json.arr #[ofList (fun (o : String × Int) => Json.arr #[Json.str o.1, Json.num (JsonNumber.fromInt o.2)]) p.1, ofGQ p.2]) t

def parseSite (j : Json) : Except String SiteSpec := do
  let njw ← listOf getStr (← field j "njw")
  let hc ← listOf (fun p => do
    match ← getArr p with
    | [a, b] => return (← getStr a, ← getStr b)
    | _ => throw "bad hc pair") (← field j "hc")
  return ⟨njw, hc⟩

def optStr (j : Json) : Except String (Option String) := optOf getStr j

def parseSwitch (j : Json) : Except String MultiCouplingTerms.Switch :=
  match j with
  | .str "middle_i" => pure .middleI
  | .str "middle_op" => pure .middleOp
  | .null => pure .middleI
  | _ => do return .at (← getInt j)

def parsePairs (j : Json) : Except String (List (Int × Int × GQ)) :=
  listOf (fun p => do
    match ← getArr p with
    | [a, b, c] => return (← getInt a, ← getInt b, ← getGQ c)
    | _ => throw "bad pair") j

def parseMTerms (j : Json) : Except String (List (GQ × Int × List Int × List String × List String)) :=
  listOf (fun p => do
    match ← getArr p with
    | [c, sg, ijkl, ops, strs] =>
      return (← getGQ c, ← getInt sg, ← intList ijkl, ← listOf getStr ops, ← listOf getStr strs)
    | _ => throw "bad multi term") j

def siteAt (sites : List SiteSpec) (j : Json) : Except String SiteSpec := do
  let n ← getNat j
  match sites[n]? with
  | some s => pure s
  | none => throw "site index out of range"

def ofSign (s : Int) : GQ := ⟨(s : Rat), 0⟩

/-- apply one high-level call; `none` = python raises ValueError -/
def applyCall (sites : List SiteSpec) (m : Model GQ) (j : Json) : Except String (Option (Model GQ)) := do
  let a ← getArr j
  match a with
  | [.str "onsite", si, vals, op, cat, ph] =>
    let vals ← listOf (fun p => do
      match ← getArr p with
      | [i, c] => return (← getNat i, ← getGQ c)
      | _ => throw "bad val") vals
    return some (m.addOnsite GQ.half GQ.conj (← siteAt sites si) vals (← getStr op) (← optStr cat) (← getBool ph))
  | [.str "coupling", s1, s2, az, pairs, pairsHc, op1, op2, ostr, cat, ph] =>
    return m.addCoupling GQ.half (← siteAt sites s1) (← siteAt sites s2) (← getBool az)
      (← parsePairs pairs) (← parsePairs pairsHc) (← getStr op1) (← getStr op2) (← optStr ostr)
      (← optStr cat) (← getBool ph)
  | [.str "onsite_term", si, c, i, op, cat, ph] =>
    return some (m.addOnsiteTerm GQ.half GQ.conj (← siteAt sites si) (← getGQ c) (← getNat i) (← getStr op)
      (← optStr cat) (← getBool ph))
  | [.str "coupling_term", si, sj, c, i, jj, opi, opj, str, cat, ph] =>
    return some (m.addCouplingTerm GQ.half GQ.conj (← siteAt sites si) (← siteAt sites sj) (← getGQ c)
      (← getInt i) (← getInt jj) (← getStr opi) (← getStr opj) (← getStr str) (← optStr cat) (← getBool ph))
  | [.str "multi_term", sis, c, ijkl, ops, strs, cat, ph, sw] =>
    let ss ← listOf (siteAt sites) sis
    return some (m.addMultiCouplingTerm GQ.half GQ.conj ss (← getGQ c) (← intList ijkl) (← listOf getStr ops)
      (← listOf getStr strs) (← optStr cat) (← getBool ph) (← parseSwitch sw))
  | [.str "multi", terms, termsHc, cat, ph, sw] =>
    return some (m.addMultiCoupling GQ.half ofSign (← parseMTerms terms) (← parseMTerms termsHc) (← getStr cat)
      (← getBool ph) (← parseSwitch sw))
  | [.str "exp", si, sj, c, lam, opi, opj, subs, subsStart, ostr, ph] =>
    return m.addExpDecay GQ.half GQ.conj (← siteAt sites si) (← siteAt sites sj) (← getGQ c) (← listOf getGQ lam)
      (← getStr opi) (← getStr opj) (← natList subs) (← natList subsStart) (← optStr ostr) (← getBool ph)
  | [.str "centered", si, sj, c, lam, opi, opj, i, subs, ostr, ph] =>
    return some (m.addCentered GQ.half GQ.conj (← siteAt sites si) (← siteAt sites sj) (← getGQ c)
      (← listOf getGQ lam) (← getStr opi) (← getStr opj) (← getNat i) (← natList subs) (← optStr ostr) (← getBool ph))
  | _ => throw "unknown call"

/-! ### canonical output of the containers -/

def jInt (i : Int) : Json := Json.num (JsonNumber.fromInt i)

def onsiteEntries (ot : OnsiteTerms GQ) : Json :=
  ofList (fun (p : Dict String GQ × Nat) =>
    ofList (fun (q : String × GQ) => Json.arr #[Json.str q.1, ofGQ q.2]) (Dict.sortedItems Ops.strLt p.1)) ot.terms.zipIdx

def couplingEntries (ct : CouplingTerms GQ) : Json :=
  ofList (fun (p : List SOp × GQ) =>
    match p.1 with
    | [a, b] => Json.arr #[jInt a.site, Json.str a.op, Json.str a.str, jInt b.site, Json.str b.op, ofGQ p.2]
    | _ => Json.null) ct.toTermListS

def ofMKey (k : MKey) : Json := Json.arr #[jInt k.1, Json.str k.2.1, Json.str k.2.2]

/-- connections with the left and right path of every live counter, in counter order -/
def multiEntries (mt : MultiCouplingTerms GQ) : Json :=
  ofList (fun (p : Option (Conn GQ) × Nat) =>
    match p.1 with
    | none => Json.null
    | some k => obj [("left", ofList ofMKey ((MultiCouplingTerms.pathOf mt.left p.2).getD [])),
                     ("right", ofList ofMKey ((MultiCouplingTerms.pathOf mt.right p.2).getD [])),
                     ("switchLR", jInt k.switchLR), ("op_switch", Json.str k.opSwitch),
                     ("shift", jInt k.shift), ("strength", ofGQ k.strength)]) mt.conns.zipIdx

def ctJson : CT GQ → Json
  | .plain c => obj [("multi", false), ("entries", couplingEntries c), ("max_range", jInt c.maxRange)]
  | .multi mt => obj [("multi", true), ("conns", multiEntries mt), ("max_range", jInt mt.maxRange)]

def expJson (e : ExpDecayTerms GQ) : Json :=
  obj [("terms", ofList (fun (t : ExpTerm GQ) => Json.arr #[ofGQ t.strength, ofList ofGQ t.lam, Json.str t.opi,
          Json.str t.opj, ofNatList t.subsites, ofNatList t.subsitesStart, Json.str t.str]) e.terms),
       ("centered", ofList (fun (t : CenteredTerm GQ) => Json.arr #[ofGQ t.strength, ofList ofGQ t.lam,
          Json.str t.opi, Json.str t.opj, t.i, ofNatList t.subsites, Json.str t.str]) e.centered)]

def edgeLt (a b : Json) : Bool := a.compress < b.compress

def edgesJson (g : Graph GQ) : Json :=
  let es := (g.layers.zipIdx).flatMap (fun (l, i) =>
    l.map (fun e => Json.arr #[i, ofKey e.kL, ofKey e.kR, Json.str e.op, ofGQ e.c]))
  Json.arr (es.toArray.qsort edgeLt)

def maxRangeJson : MaxRange → Json
  | .unknown => Json.null
  | .fin r => jInt r
  | .inf => Json.str "inf"

def canonEq (a b : List (SitedStr × GQ)) : Bool := a == b

def sortCanon (s : List (SitedStr × GQ)) : List (SitedStr × GQ) := s

def toCF (c : GQ) : CF := ⟨Float.ofInt c.re.num / Float.ofNat c.re.den, Float.ofInt c.im.num / Float.ofNat c.im.den⟩

def parseMats (j : Json) : Except String (List SiteMats) :=
  listOf (fun s => do
    let d ← getNat (← field s "d")
    let ops ← listOf (fun p => do
      match ← getArr p with
      | [n, es] =>
        let es ← listOf (fun e => do
          match ← getArr e with
          | [r, c, x, y] =>
            let fx := Float.ofBits (← getNat x).toUInt64
            let fy := Float.ofBits (← getNat y).toUInt64
            return (← getNat r, ← getNat c, (⟨fx, fy⟩ : CF))
          | _ => throw "bad entry") es
        return (← getStr n, es)
      | _ => throw "bad op") (← field s "ops")
    return (⟨d, ops⟩ : SiteMats)) j

def floatJson (x : Float) : Json := Json.num (JsonNumber.fromNat x.toBits.toNat)

def handleModel (j : Json) : Except String Json := do
  let L ← getNat (← field j "L")
  let infinite ← getBool (fieldD j "infinite" false)
  let explicit ← getBool (fieldD j "explicit" false)
  let sites ← listOf parseSite (← field j "sites")
  let calls ← getArr (← field j "calls")
  let window ← getNat (fieldD j "window" (1 : Nat))
  let siteOf ← natList (← field j "site_of")
  let mut m : Model GQ := Model.empty L explicit
  let mut raised : List Json := []
  for (c, n) in calls.zipIdx do
    match ← applyCall sites m c with
    | some m' => m := m'
    | none => raised := raised ++ [Json.num (JsonNumber.fromNat n)]
  let ot := m.allOnsiteTerms.removeZeros
  let ctAll := m.allCouplingTerms
  let ct : CT GQ := match ctAll with
    | .plain c => .plain c.removeZeros
    | .multi mt => .multi mt.removeZeros
  let g := m.calcHGraph infinite
  -- term lists with strings
  let tlOn := ot.toTermListS
  let tlCt := match ct with | .plain c => c.toTermListS | .multi mt => mt.toTermListS
  let small (_ : GQ) : Bool := false
  let Lw := L * window
  let tlExp : STermList GQ := if infinite then m.exp.toTermListInfinite small Lw else m.exp.toTermListFinite small
  let inWin (t : List SOp × GQ) : Bool := t.1.all (fun o => decide (0 ≤ o.site) && decide (o.site < Lw))
  -- `MultiCouplingTerms.to_TermList` leaves out the operator on site `switchLR` when it is named like the string to its
  -- left; the MPO graph has an edge on that site all the same, so the site counts for "the term lies in the window"
  let switchSites : List Int := match ct with
    | .plain _ => []
    | .multi mt => mt.conns.filterMap (fun oc => oc.map (fun k => k.switchLR))
  let tlCtW : STermList GQ :=
    if switchSites.length = tlCt.length then
      ((tlCt.zip switchSites).filter (fun (t, sw) => inWin t && decide (0 ≤ sw) && decide (sw < Lw))).map (·.1)
    else tlCt.filter inWin
  let fromTerms : Sym GQ := (STermList.denote Lw ((tlOn ++ tlExp).filter inWin ++ tlCtW))
  let fromGraph : Sym GQ := if infinite then denoteGraphWindow g window else denoteGraph g
  let cT := canon 0 fromTerms
  let cG := canon 0 fromGraph
  -- hermiticity of the represented formal sum, with the name-wise hc of every site
  let hcAt (k : Nat) (name : String) : String :=
    match sites[siteOf.getD (k % L) 0]? with
    | some st => hcName st.hc name
    | none => name
  let dag : Sym GQ := fromGraph.map (fun p => ((p.1.zipIdx).map (fun (n, k) => hcAt k n), GQ.conj p.2))
  let cD := canon 0 dag
  let rep : List (SitedStr × GQ) := if explicit then canonSited (cG ++ cD) else cG
  let repDag : List (SitedStr × GQ) := if explicit then rep else cD
  -- nearest-neighbour bonds
  let bonds : Json := match ct with
    | .plain c => match c.toNNBonds with
      | some b =>
        let b := ot.addToNNBonds GQ.half (!infinite) b
        ofList (fun (s : Sym GQ) => ofCanon (canon 0 s)) b
      | none => Json.null
    | .multi mt =>
      -- to_nn_bond_Arrays of MultiCouplingTerms uses to_TermList as well
      let c2 : Option (Bonds GQ) := mt.toTermListS.foldl (fun ob t =>
        match ob, t.1 with
        | some b, [o1, o2] =>
          if o1.site + 1 = o2.site then some (Bonds.addAt b (o2.site.emod L).toNat [([o1.op, o2.op], t.2)]) else none
        | _, _ => none) (some (List.replicate L []))
      match c2 with
      | some b => ofList (fun (s : Sym GQ) => ofCanon (canon 0 s)) (ot.addToNNBonds GQ.half (!infinite) b)
      | none => Json.null
  -- dense evaluation
  let dense : Json ← match j.getObjVal? "mats" with
    | .ok mj => do
      let mats ← parseMats mj
      let matsW := (List.replicate window mats).flatten
      let s : List (OpStr × CF) := fromGraph.map (fun p => (p.1, toCF p.2))
      let s := if explicit then s ++ dag.map (fun p => (p.1, toCF p.2)) else s
      let (D, arr) := evalSym matsW s
      pure (obj [("D", D), ("re", ofList (fun (c : CF) => floatJson c.re) arr.toList),
                 ("im", ofList (fun (c : CF) => floatJson c.im) arr.toList)])
    | .error _ => pure Json.null
  -- closed form of the graph (finite chain, onsite + two-site couplings only) vs the imperative model
  let specOk : Json := match ct with
    | .plain c =>
      if !infinite && m.exp.terms.isEmpty && m.exp.centered.isEmpty then
        let sp := specLayers ot c L
        let canonL (l : List (Edge Key GQ)) : Array String :=
          ((l.map (fun e => (Json.arr #[ofKey e.kL, ofKey e.kR, Json.str e.op, ofGQ e.c]).compress)).toArray.qsort (· < ·))
        Json.bool ((sp.map canonL) == (g.layers.map canonL))
      else Json.null
    | .multi _ => Json.null
  return obj [
    ("raised", Json.arr raised.toArray), ("spec_ok", specOk),
    ("cats_onsite", obj (m.onsite.map (fun p => (p.1, onsiteEntries p.2)))),
    ("cats_onsite_order", ofList Json.str m.onsite.keys),
    ("cats_coupling", obj (m.coupling.map (fun p => (p.1, ctJson p.2)))),
    ("cats_coupling_order", ofList Json.str m.coupling.keys),
    ("exp", expJson m.exp),
    ("ot", onsiteEntries ot), ("ct", ctJson ct),
    ("tl_onsite", ofTermList (STermList.erase tlOn)), ("tl_coupling", ofTermList (STermList.erase tlCt)), ("tl_exp", ofTermList (STermList.erase tlExp)),
    ("edges", edgesJson g),
    ("states", ofList (ofList ofKey) g.orderedStates),
    ("max_range", maxRangeJson g.maxRange),
    ("denote_graph", ofCanon cG), ("denote_terms", ofCanon cT), ("paths_ok", canonEq cG cT),
    ("rep", ofCanon rep), ("herm", canonEq rep repDag),
    ("bonds", bonds), ("dense", dense)]


/-! ### extension round: MPOGraph -> MPO (grids, leg charges) and the representation-changing MPO methods -/
section ext
open TenpyModel.C10Ext

/-- charge vectors (missing components count as 0) -/
structure QV where
  v : List Int
deriving DecidableEq

def QV.zipPad (f : Int → Int → Int) : List Int → List Int → List Int
  | [], [] => []
  | a :: as, [] => f a 0 :: QV.zipPad f as []
  | [], b :: bs => f 0 b :: QV.zipPad f [] bs
  | a :: as, b :: bs => f a b :: QV.zipPad f as bs

instance : Add QV := ⟨fun a b => ⟨QV.zipPad (· + ·) a.v b.v⟩⟩
instance : Sub QV := ⟨fun a b => ⟨QV.zipPad (· - ·) a.v b.v⟩⟩
instance : Zero QV := ⟨⟨[]⟩⟩

/-- `chinfo.make_valid`: component `k` modulo `mod[k]` unless `mod[k] = 1` -/
def qvValid (mod : List Int) (q : QV) : QV :=
  ⟨(mod.zipIdx).map (fun (m, k) => let x := q.v.getD k 0; if m = 1 then x else x.emod m)⟩

/-- order of `np.lexsort(charges.T)`: the last component is the primary key -/
def qvLt (a b : QV) : Bool :=
  let rec go : List Int → List Int → Bool
    | [], _ => false
    | _, [] => false
    | x :: xs, y :: ys => if x < y then true else if y < x then false else go xs ys
  go a.v.reverse b.v.reverse

def parseKey (j : Json) : Except String Key :=
  match j with
  | .str s => pure (.str s)
  | _ => do
    let a ← getArr j
    let atoms ← a.mapM (fun x => match x with
      | .str s => pure (Atom.s s)
      | _ => do return Atom.n (← getInt x))
    return .tup atoms

def errTag : Err → String
  | .key => "KeyError" | .value => "ValueError" | .zeroDiv => "ZeroDivisionError"
  | .assertion => "AssertionError" | .index => "IndexError" | .type => "TypeError" | .other => "Exception"

def optNatJson : Option Nat → Json
  | none => Json.null
  | some n => Json.num (JsonNumber.fromNat n)

def gridJson (G : Grid GQ) : Json :=
  ofList (ofList (fun (s : Sym GQ) => ofList (fun (p : OpStr × GQ) => Json.arr #[ofList Json.str p.1, ofGQ p.2]) s)) G

def bcJson : Bc → Json
  | .finite => "finite" | .segment => "segment" | .infinite => "infinite"

def mpoJson (m : GMPO GQ QV) : Json :=
  obj [("bc", bcJson m.bc), ("grids", ofList gridJson m.grids), ("IdL", ofList optNatJson m.idL),
       ("IdR", ofList optNatJson m.idR), ("legs", ofList (ofList (fun (q : QV) => ofIntList q.v)) m.legs),
       ("max_range", maxRangeJson m.maxRange), ("grouped", m.grouped), ("ucw", m.ucw), ("chi", ofNatList m.chi)]

/-- canonical formal sum of a (finite / segment) MPO, or of `window` unit cells of an infinite one -/
def mpoCanon (m : GMPO GQ QV) (window : Nat) : List (SitedStr × GQ) :=
  canon 0 (if m.bc = Bc.infinite then m.denoteWindow window else m.denote)

def applyOp (cd : ChargeData QV) (m : GMPO GQ QV) (j : Json) : Except String (Except Err (GMPO GQ QV)) := do
  match ← getArr j with
  | [.str "group", n] => return groupSites m (← getNat n)
  | [.str "enlarge", num, den] => return enlargeUnitCell m (← getInt num) (← getNat den)
  | [.str "segment", a, b] => return extractSegment m (← getInt a) (← getInt b)
  | [.str "sort"] => return sortLegcharges m cd.lt
  | _ => throw "unknown MPO op"

def runChain (cd : ChargeData QV) (m : GMPO GQ QV) (ops : List Json) (window : Nat) (pathsMax : Nat) :
    Except String Json := do
  let mut cur := m
  let mut win := window       -- number of unit cells of the *current* MPO covering the base window
  for (o, k) in ops.zipIdx do
    match ← applyOp cd cur o with
    | .error e => return obj [("error", errTag e), ("step", k)]
    | .ok m' =>
      -- an enlarged unit cell covers `factor` old ones
      match ← getArr o with
      | [.str "enlarge", num, _] => win := win / (← getInt num).toNat
      | _ => pure ()
      cur := m'
  let chiMax := cur.chi.foldl max 0
  let small := cur.L * (if cur.bc = Bc.infinite then max win 1 else 1) ≤ pathsMax && chiMax ≤ 40
  return obj [("mpo", mpoJson cur),
              ("denote", if small then ofCanon (mpoCanon cur (max win 1)) else Json.null),
              ("window", Json.num (JsonNumber.fromNat (max win 1)))]

def parseChargeData (j : Json) (L : Nat) : Except String (ChargeData QV × (Nat → String → Bool)) := do
  let mod ← intList (← field j "mod")
  let opq ← listOf (fun s => listOf (fun p => do
    match ← getArr p with
    | [n, q] => return (← getStr n, (⟨← intList q⟩ : QV))
    | _ => throw "bad opq") s) (← field j "opq")
  let wq : List QV ← match fieldD j "wq" Json.null with
    | .null => pure []
    | w => listOf (fun q => do return (⟨← intList q⟩ : QV)) w
  let qop (i : Nat) (name : String) : QV :=
    match (opq.getD (i % max L 1) []).find? (fun p => p.1 = name) with
    | some p => p.2
    | none => 0
  let okOp (i : Nat) (name : String) : Bool := (opq.getD (i % max L 1) []).any (fun p => p.1 = name)
  return (⟨okOp, qop, fun i => wq.getD i 0, qvValid mod, qvLt, mod.isEmpty⟩, okOp)

def extOfGraph (j : Json) (g : Graph GQ) : Except String Json := do
  let L := g.L
  let (cd, _) ← parseChargeData j L
  let ucw ← getNat (fieldD j "ucw" (1 : Nat))
  let window ← getNat (fieldD j "window" (1 : Nat))
  let pathsMax ← getNat (fieldD j "paths_max" (12 : Nat))
  let chains ← getArr (fieldD j "chains" (Json.arr #[]))
  let graphJ := obj [("edges", edgesJson g), ("states", ofList (ofList ofKey) g.orderedStates),
                     ("max_range", maxRangeJson g.maxRange)]
  -- the pieces of build_MPO on their own (each may raise on its own)
  let gridsJ : Json := match buildGrids g with
    | .ok gr => ofList gridJson gr
    | .error e => obj [("error", errTag e)]
  let legsJ : Json := match legcharges g cd with
    | .ok lg => ofList (ofList (fun (q : QV) => ofIntList q.v)) lg
    | .error e => obj [("error", errTag e)]
  match buildMPO g cd ucw with
  | .error e => return obj [("graph", graphJ), ("grids", gridsJ), ("legs", legsJ), ("base", obj [("error", errTag e)])]
  | .ok m =>
    let small := L * (if g.infinite then window else 1) ≤ pathsMax && (m.chi.foldl max 0) ≤ 40
    let cG : List (SitedStr × GQ) := canon 0 (if g.infinite then pathsFrom Key.IdR (List.replicate window g.layers).flatten Key.IdL else denoteGraph g)
    let cM := mpoCanon m window
    let chainsJ ← chains.mapM (fun c => do runChain cd m (← getArr c) window pathsMax)
    return obj [("graph", graphJ), ("grids", gridsJ), ("legs", legsJ), ("base", obj [("mpo", mpoJson m)]),
                ("denote", if small then ofCanon cM else Json.null),
                ("denote_graph_ok", if small then Json.bool (canonEq cG cM) else Json.null),
                ("chains", Json.arr chainsJ.toArray)]

def handleExtGraph (j : Json) : Except String Json := do
  let L ← getNat (← field j "L")
  let infinite ← getBool (fieldD j "infinite" false)
  let mut g : Graph GQ := Graph.empty L infinite
  match fieldD j "max_range" (0 : Nat) with
  | .null => g := { g with maxRange := .unknown }
  | .str _ => g := { g with maxRange := .inf }
  | r => g := { g with maxRange := .fin (← getInt r) }
  for a in ← getArr (← field j "adds") do
    match ← getArr a with
    | [i, kL, kR, op, c, skip] =>
      g := g.add (← getInt i) (← parseKey kL) (← parseKey kR) (← getStr op) (← getGQ c) (← getBool skip)
    | _ => throw "bad add"
  match fieldD j "add_missing" Json.null with
  | .null => pure ()
  | b => g := g.addMissingIdLIdR (← getBool b)
  extOfGraph j g

def handleExtModel (j : Json) : Except String Json := do
  let L ← getNat (← field j "L")
  let infinite ← getBool (fieldD j "infinite" false)
  let explicit ← getBool (fieldD j "explicit" false)
  let sites ← listOf parseSite (← field j "sites")
  let calls ← getArr (← field j "calls")
  let mut m : Model GQ := Model.empty L explicit
  for c in calls do
    match ← applyCall sites m c with
    | some m' => m := m'
    | none => pure ()
  extOfGraph j (m.calcHGraph infinite)

end ext

def handle (j : Json) : Except String Json := do
  let k ← getStr (← field j "k")
  if k == "model" then handleModel j
  else if k == "ext_graph" then handleExtGraph j
  else if k == "ext_model" then handleExtModel j
  else if k == "noop" then return Json.null
  else throw s!"unknown kind {k}"

def main : IO Unit := serve handle
