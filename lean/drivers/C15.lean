import TenpyModel.Util.J
import TenpyModel.C15.Truncate
/-! Line protocol for C15: one JSON request per line, one JSON answer per line.
Rationals travel as strings "p/q" (or "p"). -/
open Lean TenpyModel TenpyModel.J
open TenpyModel.C15

def parseRat (j : Json) : Except String Rat := do
  match j with
  | .str s =>
    match s.splitOn "/" with
    | [p] => match p.toInt? with
      | some n => return (n : Rat)
      | none => throw s!"bad rational {s}"
    | [p, q] => match p.toInt?, q.toNat? with
      | some n, some d => if d = 0 then throw "zero denominator" else return mkRat n d
      | _, _ => throw s!"bad rational {s}"
    | _ => throw s!"bad rational {s}"
  | _ => do let n ← j.getInt?; return (n : Rat)

def showRat (r : Rat) : Json := Json.str (if r.den = 1 then s!"{r.num}" else s!"{r.num}/{r.den}")

/-- absent key → the default of the Lean model; `null` → `none` -/
def optField (j : Json) (k : String) (f : Json → Except String α) (dflt : Option α) :
    Except String (Option α) :=
  match j.getObjVal? k with
  | .error _ => pure dflt
  | .ok v => optOf f v

def parseOpts (j : Json) : Except String C15.Options := do
  let d := C15.Options.default
  return { chiMax := ← optField j "chi_max" getNat d.chiMax
           chiMin := ← optField j "chi_min" getNat d.chiMin
           degR := ← optField j "deg_r" parseRat d.degR
           svdMin := ← optField j "svd_min" parseRat d.svdMin
           truncCut := ← optField j "trunc_cut" parseRat d.truncCut }

def insertRat (x : Rat) : List Rat → List Rat
  | [] => [x]
  | y :: ys => if x ≤ y then x :: y :: ys else y :: insertRat x ys
def sortRat (l : List Rat) : List Rat := l.foldr insertRat []

def errJson (e : TruncErr) : List (String × Json) := [("eps", showRat e.eps), ("ov", showRat e.ov)]

def parseErr (j : Json) : Except String TruncErr := do
  return ⟨← parseRat (← field j "eps"), ← parseRat (← field j "ov")⟩

def handle (j : Json) : Except String Json := do
  let k ← getStr (← field j "k")
  if k == "truncate" then
    let S ← listOf parseRat (← field j "S")
    let tiny ← parseRat (← field j "tiny")
    let o ← parseOpts (← field j "opts")
    -- `trunc_cut_check`: the un-nudged threshold, used for the `trunc_cut >= 1` test of a nudged variant
    let chk ← optField (← field j "opts") "trunc_cut_check" parseRat o.truncCut
    match (truncateChecked tiny { o with truncCut := chk } S).map (fun _ => truncate tiny o S) with
    | .error e => return obj [("raise", Json.str e)]
    | .ok r =>
      return obj ([("cut", (r.cut : Json)), ("nkept", (r.kept.length : Json)),
                   ("mask", ofList (fun (b : Bool) => (b : Json)) r.mask),
                   ("kept", ofList showRat (sortRat r.kept)),
                   ("norm2", showRat r.norm2),
                   ("dropped", ofList Json.str r.dropped),
                   ("warn_small", (r.warnSmall : Json)), ("warn_neg", (r.warnNeg : Json))]
                  ++ errJson r.err)
  else if k == "from_S" then
    let S ← listOf parseRat (← field j "S")
    let no ← optOf parseRat (fieldD j "norm_old" Json.null)
    return obj (errJson (TruncErr.fromS S no))
  else if k == "from_norm" then
    let a ← parseRat (← field j "norm_new")
    let b ← parseRat (← field j "norm_old")
    return obj (errJson (TruncErr.fromNorm a b))
  else if k == "add" then
    let es ← listOf parseErr (← field j "errs")
    let r := es.foldl TruncErr.add TruncErr.zero
    return obj (errJson r ++ [("ov_err", showRat r.ovErr)])
  else throw s!"unknown kind {k}"

def main : IO Unit := serve handle
